package ukit

// Link resolves references lexically inside a scope spec (the reference resolver of the model): a
// reference with the empty namespace denotes the object with that id in the nearest enclosing scope;
// inner scopes shadow outer ones. References to other namespaces stay unresolved until ApplyNS.
func Link(scope *Spec) {
	if scope == nil || scope.Kind != KScope {
		return
	}
	table := map[string]*Spec{}
	for _, o := range scope.Objects {
		table[o.ID] = o
	}
	for _, o := range scope.Objects {
		linkWalk(o, func(r *Spec) {
			if r.RefNS == "" {
				r.resolved = table[r.RefID]
			}
		})
	}
}

// linkWalk visits the references below s that belong to the current scope and links nested scopes on
// their own.
func linkWalk(s *Spec, f func(ref *Spec)) {
	if s == nil {
		return
	}
	switch s.Kind {
	case KRef:
		f(s)
	case KScope:
		Link(s)
		// references to foreign namespaces inside the nested scope are still visible to an outer ApplyNS
	case KList:
		linkWalk(s.Item, f)
	case KMap:
		linkWalk(s.Key, f)
		linkWalk(s.Val, f)
	case KObject:
		for i := range s.Props {
			linkWalk(s.Props[i].Type, f)
		}
	case KOneOfStr, KOneOfInt:
		for i := range s.Members {
			linkWalk(s.Members[i].Type, f)
		}
	}
}

// ApplyNS resolves references of namespace ns against table everywhere below s (nested scopes
// included, as ScopeSchema.ApplyNamespace does for a non-self namespace).
func ApplyNS(s *Spec, table map[string]*Spec, ns string) {
	s.Walk(func(n *Spec) {
		if n.Kind == KRef && n.RefNS == ns && ns != "" {
			if t, ok := table[n.RefID]; ok {
				n.resolved = t
			}
		}
	})
}

// Resolved returns what a reference denotes (nil if unlinked).
func (s *Spec) Resolved() *Spec { return s.resolved }

// Refs lists all reference nodes below s.
func (s *Spec) Refs() []*Spec {
	var out []*Spec
	s.Walk(func(n *Spec) {
		if n.Kind == KRef {
			out = append(out, n)
		}
	})
	return out
}

// RootObject returns the root object spec of a scope spec.
func (s *Spec) RootObject() *Spec {
	for _, o := range s.Objects {
		if o.ID == s.Root {
			return o
		}
	}
	return nil
}

// IsRecursive reports whether some object of the scope can reach itself through references.
func IsRecursive(s *Spec) bool {
	found := false
	s.Walk(func(n *Spec) {
		if n.Kind == KScope {
			Link(n)
		}
	})
	var visit func(n *Spec, stack map[*Spec]bool)
	visit = func(n *Spec, stack map[*Spec]bool) {
		if n == nil || found {
			return
		}
		switch n.Kind {
		case KRef:
			if n.resolved != nil {
				if stack[n.resolved] {
					found = true
					return
				}
				stack[n.resolved] = true
				visit(n.resolved, stack)
				delete(stack, n.resolved)
			}
		case KList:
			visit(n.Item, stack)
		case KMap:
			visit(n.Key, stack)
			visit(n.Val, stack)
		case KObject:
			for i := range n.Props {
				visit(n.Props[i].Type, stack)
			}
		case KOneOfStr, KOneOfInt:
			for i := range n.Members {
				visit(n.Members[i].Type, stack)
			}
		case KScope:
			if r := n.RootObject(); r != nil {
				stack[r] = true
				visit(r, stack)
				delete(stack, r)
			}
		}
	}
	visit(s, map[*Spec]bool{})
	return found
}
