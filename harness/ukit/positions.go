package ukit

import "fmt"

// Positions enumerates every node of a raw value tree (maps with string or any keys, []any) and returns,
// for each, a function that builds a deep copy of the tree with that node replaced, plus key
// positions of maps (the key replaced).

type Position struct {
	Path    string
	Replace func(with any) any // new tree with the node at Path replaced
	IsKey   bool
}

func deepCopy(v any) any {
	switch x := v.(type) {
	case map[string]any:
		m := make(map[string]any, len(x))
		for k, e := range x {
			m[k] = deepCopy(e)
		}
		return m
	case map[any]any:
		m := make(map[any]any, len(x))
		for k, e := range x {
			m[k] = deepCopy(e)
		}
		return m
	case []any:
		l := make([]any, len(x))
		for i, e := range x {
			l[i] = deepCopy(e)
		}
		return l
	}
	return v
}

// DeepCopy copies raw value trees (other values are returned as they are).
func DeepCopy(v any) any { return deepCopy(v) }

func Positions(root any) []Position {
	var out []Position
	var walk func(path string, get func(tree any) any, set func(tree any, with any) any, v any, depth int)
	walk = func(path string, get func(any) any, set func(any, any) any, v any, depth int) {
		out = append(out, Position{Path: path, Replace: func(with any) any { return set(deepCopy(root), with) }})
		if depth > 14 {
			return
		}
		switch x := v.(type) {
		case map[string]any:
			for _, k := range sortedKeys(x) {
				k := k
				cget := func(tree any) any { return get(tree).(map[string]any)[k] }
				cset := func(tree any, with any) any { get(tree).(map[string]any)[k] = with; return tree }
				walk(path+"."+k, cget, cset, x[k], depth+1)
				// the key replaced: the enclosing map becomes a map[any]any, as a CBOR decoder would deliver it
				out = append(out, Position{Path: path + ".{key " + k + "}", IsKey: true, Replace: func(with any) any {
					if !hashable(with) || !comparableValue(with) {
						return nil
					}
					var build func(orig any, p []string) any
					_ = build
					tree := deepCopy(root)
					m := get(tree).(map[string]any)
					am := map[any]any{}
					for kk, vv := range m {
						if kk == k {
							am[with] = vv
						} else {
							am[kk] = vv
						}
					}
					if path == "$" {
						return am
					}
					return set(tree, am)
				}})
			}
		case map[any]any:
			for _, k := range sortedAnyKeys(x) {
				k := k
				cget := func(tree any) any { return get(tree).(map[any]any)[k] }
				cset := func(tree any, with any) any { get(tree).(map[any]any)[k] = with; return tree }
				walk(fmt.Sprintf("%s{%v}", path, k), cget, cset, x[k], depth+1)
				out = append(out, Position{Path: fmt.Sprintf("%s{key %v}", path, k), IsKey: true, Replace: func(with any) any {
					if !hashable(with) || !comparableValue(with) {
						return nil
					}
					tree := deepCopy(root)
					m := get(tree).(map[any]any)
					val := m[k]
					delete(m, k)
					m[with] = val
					return tree
				}})
			}
		case []any:
			for i := range x {
				i := i
				cget := func(tree any) any { return get(tree).([]any)[i] }
				cset := func(tree any, with any) any { get(tree).([]any)[i] = with; return tree }
				walk(fmt.Sprintf("%s[%d]", path, i), cget, cset, x[i], depth+1)
			}
		}
	}
	walk("$", func(tree any) any { return tree }, func(tree any, with any) any { return with }, root, 0)
	return out
}

func comparableValue(v any) (ok bool) {
	defer func() {
		if recover() != nil {
			ok = false
		}
	}()
	m := map[any]bool{}
	m[v] = true
	return true
}

func sortedKeys(m map[string]any) []string {
	ks := make([]string, 0, len(m))
	for k := range m {
		ks = append(ks, k)
	}
	sortStrings(ks)
	return ks
}

func sortedAnyKeys(m map[any]any) []any {
	ks := make([]any, 0, len(m))
	for k := range m {
		ks = append(ks, k)
	}
	for i := 1; i < len(ks); i++ {
		for j := i; j > 0 && fmt.Sprintf("%T%v", ks[j-1], ks[j-1]) > fmt.Sprintf("%T%v", ks[j], ks[j]); j-- {
			ks[j-1], ks[j] = ks[j], ks[j-1]
		}
	}
	return ks
}

func sortStrings(s []string) {
	for i := 1; i < len(s); i++ {
		for j := i; j > 0 && s[j-1] > s[j]; j-- {
			s[j-1], s[j] = s[j], s[j-1]
		}
	}
}

// SortedAnyKeys returns the keys of a map in a fixed order (generators must not depend on map iteration order:
// case lists are regenerated, and indexed, in several processes).
func SortedAnyKeys(m map[any]any) []any { return sortedAnyKeys(m) }

// SortedKeys is SortedAnyKeys for string-keyed maps.
func SortedKeys(m map[string]any) []string { return sortedKeys(m) }
