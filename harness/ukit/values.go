package ukit

import (
	"fmt"
	"math"
	"math/big"
	"regexp"
	"sort"
	"strings"
	"time"

	"github.com/fxamacker/cbor/v2"
)

// intReps returns n in every Go representation a decoder can hand over (where it fits).
func intReps(n int64) []any {
	out := []any{n, int(n)}
	if n >= math.MinInt32 && n <= math.MaxInt32 {
		out = append(out, int32(n))
	}
	if n >= math.MinInt16 && n <= math.MaxInt16 {
		out = append(out, int16(n))
	}
	if n >= math.MinInt8 && n <= math.MaxInt8 {
		out = append(out, int8(n))
	}
	if n >= 0 {
		out = append(out, uint64(n), uint(n))
		if n <= math.MaxUint32 {
			out = append(out, uint32(n))
		}
		if n <= math.MaxUint16 {
			out = append(out, uint16(n))
		}
		if n <= math.MaxUint8 {
			out = append(out, uint8(n))
		}
	}
	if f := float64(n); int64(f) == n && math.Abs(f) < 1<<53 {
		out = append(out, f)
		if f32 := float32(n); float64(f32) == f {
			out = append(out, f32)
		}
	}
	out = append(out, fmt.Sprint(n))
	return out
}

func dedupeInts(v []int64) []int64 {
	seen := map[int64]bool{}
	var out []int64
	for _, x := range v {
		if !seen[x] {
			seen[x] = true
			out = append(out, x)
		}
	}
	return out
}

func sat(a, d int64) int64 {
	if d > 0 && a > math.MaxInt64-d {
		return math.MaxInt64
	}
	if d < 0 && a < math.MinInt64-d {
		return math.MinInt64
	}
	return a + d
}

// Dense (set by a harness for its thorough tier) makes RawValues enumerate wider neighbourhoods: every integer within
// 3 of a bound and around the width boundaries 2^7..2^63, floats within 3 representable steps of a bound and at the
// precision edges in three textual notations, every string over {a, b, e-acute} up to length 4, and all well-formed
// unit strings of 1-3 components over a small count alphabet.
var Dense bool

func denseInts(mn, mx *int64) []int64 {
	var v []int64
	for _, b := range []*int64{mn, mx} {
		if b != nil {
			for d := int64(-3); d <= 3; d++ {
				v = append(v, sat(*b, d))
			}
		}
	}
	for _, k := range []uint{7, 8, 15, 16, 31, 32, 52, 53, 62} {
		p := int64(1) << k
		v = append(v, p-1, p, p+1, -p-1, -p, -p+1)
	}
	v = append(v, math.MaxInt64, math.MaxInt64-1, math.MinInt64, math.MinInt64+1)
	return v
}

func denseFloats(mn, mx *float64) []float64 {
	var v []float64
	for _, b := range []*float64{mn, mx} {
		if b != nil {
			lo, hi := *b, *b
			for i := 0; i < 3; i++ {
				lo, hi = math.Nextafter(lo, math.Inf(-1)), math.Nextafter(hi, math.Inf(1))
				v = append(v, lo, hi)
			}
			v = append(v, *b-0.5, *b+0.5, *b*2, -*b)
		}
	}
	for _, k := range []int{24, 31, 53, 62, 63, 64} {
		p := math.Ldexp(1, k)
		v = append(v, p, -p, p+1, p-1)
	}
	v = append(v, math.SmallestNonzeroFloat64, -math.SmallestNonzeroFloat64, math.MaxFloat64, -math.MaxFloat64, 1e-300, 0.1, 1.0/3)
	return v
}

func denseStrings() []any {
	alpha := []string{"a", "b", "é"}
	out := []any{""}
	level := []string{""}
	for n := 0; n < 4; n++ {
		var next []string
		for _, p := range level {
			for _, c := range alpha {
				next = append(next, p+c)
				out = append(out, p+c)
			}
		}
		level = next
	}
	return out
}

// denseUnitStrings: every string of 1-3 strictly descending components over counts {0, 1, 59, 61} in the short and
// the long-plural spelling, plus the same with a fractional base count.
func denseUnitStrings(units string) []any {
	u, ok := refUnitTable[units]
	if !ok {
		return nil
	}
	type un struct {
		m     int64
		names []string
	}
	var ladder []un
	for m, ns := range u.mults {
		ladder = append(ladder, un{m, ns})
	}
	sort.Slice(ladder, func(a, b int) bool { return ladder[a].m > ladder[b].m })
	ladder = append(ladder, un{1, u.base})
	if len(ladder) > 4 {
		ladder = ladder[len(ladder)-4:]
	}
	counts := []string{"0", "1", "59", "61"}
	var out []any
	var rec func(from int, prefix string, comps int)
	rec = func(from int, prefix string, comps int) {
		if comps > 0 {
			out = append(out, prefix)
		}
		if comps == 3 {
			return
		}
		for i := from; i < len(ladder); i++ {
			for _, c := range counts {
				for ni, name := range []string{ladder[i].names[0], " " + ladder[i].names[len(ladder[i].names)-1] + " "} {
					if ni == 1 && c != "59" {
						continue // the long spelling once per unit
					}
					rec(i+1, prefix+c+name, comps+1)
				}
			}
			if ladder[i].m == 1 {
				rec(i+1, prefix+"1.5"+ladder[i].names[0], comps+1)
				rec(i+1, prefix+"0.25", comps+1)
			}
		}
	}
	rec(0, "", 0)
	return out
}

// IntBoundary returns the integers around the declared bounds plus the usual suspects.
func IntBoundary(mn, mx *int64) []int64 {
	v := []int64{0, 1, -1, 3}
	if mn != nil {
		v = append(v, sat(*mn, -1), *mn, sat(*mn, 1))
	}
	if mx != nil {
		v = append(v, sat(*mx, -1), *mx, sat(*mx, 1))
	}
	return dedupeInts(v)
}

var unitStringsSec = []any{"5m30s", "1m 4s", "90s", "1H", "2 minutes", "1d1s", "0s", "1m30", "30s5m", "5x", "1.5s", "1.5m", " 7 ", "1m1m",
	// three and four components, the base one fractional (every whole component has to reach the float total)
	"1H5m5.5s", "1d2H3m4.25s", "2H30m0.5"}
var unitStringsBytes = []any{"1kB", "1kB24B", "2 MB", "1024B", "1.5kB", "5 bytes", "1B1kB", "1GB1MB1kB1B"}

// units without multipliers (a definition whose multiplier table is nil when built by the constructor and an empty map
// when rebuilt from its description): plain, signed, exponent, bare-dot and padded spellings
var unitStringsChars = []any{"5 chars", "5chars", "1 char", "3 characters", "0chars", "-5 chars", "+5", "+5 chars", ".5 chars", "5.", "5. chars", "2.5e1 chars", "1e1", " 5 ", "5 char s", "5 kchars"}
var unitStringsPct = []any{"5%", "50 percent", "5 %", "0.5%", "-5 %", "+5%", ".5 percent", "5.%", "2.5e1 %", "1e1", " 5 ", "5 %%"}

// wrapUnitStrings: well-formed quantities whose count x multiplier (or running sum) leaves the 64-bit range by a whole
// turn or more - the product is small and non-negative again modulo 2^64, so a sign test does not notice.
func wrapUnitStrings(units string) []any {
	var out []any
	u := refUnitTable[units]
	var ms []int64
	for m := range u.mults {
		ms = append(ms, m)
	}
	sort.Slice(ms, func(a, b int) bool { return ms[a] < ms[b] })
	two64 := new(big.Int).Lsh(big.NewInt(1), 64)
	for _, m := range ms {
		name := u.mults[m][0]
		// smallest count with count*m >= 2^64, and the counts around a second full turn
		q := new(big.Int).Div(two64, big.NewInt(m))
		for _, turn := range []int64{1, 2, 3} {
			for _, d := range []int64{0, 1, 2} {
				c := new(big.Int).Mul(q, big.NewInt(turn))
				c.Add(c, big.NewInt(d))
				if c.IsUint64() || c.BitLen() <= 64 {
					out = append(out, c.String()+name, c.String()+" "+name+" 1"+u.base[0])
				}
			}
		}
		// the largest count that fits, and the first that does not
		fit := new(big.Int).Div(big.NewInt(math.MaxInt64), big.NewInt(m))
		out = append(out, fit.String()+name, new(big.Int).Add(fit, big.NewInt(1)).String()+name)
	}
	return out
}

// extremeNumbers are values at the edges of the numeric domains, in the representations they occur in.
func extremeNumbers() []any {
	return []any{
		int64(math.MaxInt64), int64(math.MinInt64), uint64(math.MaxUint64), uint64(1 << 63), uint(math.MaxUint64), uint(1 << 63),
		float64(1 << 63), float64(-(1 << 63)), float64(1<<53 + 2), float64(1 << 62),
		0.5, -0.5, 2.5, 1e300, -1e300, math.NaN(), math.Inf(1), math.Inf(-1), float32(0.25), float32(math.Inf(1)),
		math.Copysign(0, -1),
		"9223372036854775807", "9223372036854775808", "-9223372036854775808", "1e3", "0x10", "1_000", "+5", " 5", "5 ", "", "abc", "NaN", "Inf", "-Inf", "1.0", "1.5", ".5", "5.",
		true, false,
	}
}

var boolWords = []string{"1", "yes", "y", "on", "true", "enable", "enabled", "0", "no", "n", "off", "false", "disable", "disabled"}

func casings(w string) []string {
	up := []byte(w)
	for i := range up {
		if up[i] >= 'a' && up[i] <= 'z' {
			up[i] -= 32
		}
	}
	ti := []byte(w)
	if len(ti) > 0 && ti[0] >= 'a' && ti[0] <= 'z' {
		ti[0] -= 32
	}
	return []string{w, string(up), string(ti)}
}

func stringsOfLen(ns ...int64) []any {
	var out []any
	for _, n := range ns {
		if n < 0 || n > 64 {
			continue
		}
		b := make([]byte, n)
		for i := range b {
			b[i] = 'a'
		}
		out = append(out, string(b))
		if n > 0 {
			c := append([]byte(nil), b...)
			c[n-1] = 'b'
			out = append(out, string(c))
		}
	}
	return out
}

func dedupeAny(in []any) []any {
	seen := map[string]bool{}
	var out []any
	for _, v := range in {
		k := fmt.Sprintf("%T|%#v", v, v)
		if f, ok := v.(float64); ok {
			k = fmt.Sprintf("f64|%x", math.Float64bits(f))
		}
		if f, ok := v.(float32); ok {
			k = fmt.Sprintf("f32|%x", math.Float32bits(f))
		}
		if !seen[k] {
			seen[k] = true
			out = append(out, v)
		}
	}
	return out
}

// ValidValue returns one raw value the spec accepts (simplest form), or ok=false if none exists
// (contradictory bounds).
func ValidValue(s *Spec) (any, bool) {
	vs := ValidValues(s, 1)
	if len(vs) == 0 {
		return nil, false
	}
	return vs[0], true
}

// ValidValues returns up to n raw values the spec should accept (by construction; the reference
// interpreter is the judge).
func ValidValues(s *Spec, n int) []any {
	var out []any
	add := func(v any) {
		if len(out) < n {
			out = append(out, v)
		}
	}
	switch s.Kind {
	case KInt:
		for _, c := range []int64{0, 1, 2, 3, 5, -1} {
			if (s.Min == nil || c >= *s.Min) && (s.Max == nil || c <= *s.Max) {
				add(c)
			}
		}
	case KFloat:
		for _, c := range []float64{0.5, 0, 1, 2.25, 5, -1} {
			if (s.FMin == nil || c >= *s.FMin) && (s.FMax == nil || c <= *s.FMax) {
				add(c)
			}
		}
	case KString:
		for _, c := range []string{"a", "aa", "aaa", "", "ab"} {
			if (s.Min == nil || int64(len(c)) >= *s.Min) && (s.Max == nil || int64(len(c)) <= *s.Max) &&
				(s.Pattern == "" || regexp.MustCompile(s.Pattern).MatchString(c)) {
				add(c)
			}
		}
	case KBool:
		add(true)
		add(false)
	case KPattern:
		add("^a.*$")
		add("b+")
	case KAny:
		add("anything")
		add(int64(7))
		add(map[string]any{"k": []any{int64(1), int64(2)}})
	case KIntEnum:
		for _, v := range s.EnumI {
			add(v)
		}
	case KStrEnum, KTypedEnum:
		for _, v := range s.EnumS {
			add(v)
		}
	case KList:
		items := ValidValues(s.Item, 2)
		if len(items) == 0 {
			if s.Min == nil || *s.Min <= 0 {
				add([]any{})
			}
			break
		}
		for _, size := range []int64{1, 2, 0, 3} {
			if (s.Min != nil && size < *s.Min) || (s.Max != nil && size > *s.Max) {
				continue
			}
			l := make([]any, size)
			for i := range l {
				l[i] = items[i%len(items)]
			}
			add(l)
		}
	case KMap:
		keys := ValidValues(s.Key, 3)
		vals := ValidValues(s.Val, 2)
		for _, size := range []int64{1, 2, 0} {
			if (s.Min != nil && size < *s.Min) || (s.Max != nil && size > *s.Max) {
				continue
			}
			if int(size) > len(keys) || (size > 0 && len(vals) == 0) {
				continue
			}
			m := map[any]any{}
			for i := 0; i < int(size); i++ {
				m[keys[i]] = vals[i%len(vals)]
			}
			add(m)
		}
	case KObject:
		// all required / defaultless-required_if_not properties, then a fuller variant
		for variant := 0; variant < 2; variant++ {
			m := map[string]any{}
			ok := true
			for _, p := range s.Props {
				if p.Disabled {
					continue
				}
				need := p.Required || (len(p.RequiredIfNot) > 0 && p.Default == nil)
				if variant == 1 && len(p.Conflicts) == 0 {
					need = true
				}
				if !need {
					continue
				}
				v, has := ValidValue(p.Type)
				if !has {
					if p.Required {
						ok = false
					}
					continue
				}
				m[p.Name] = v
			}
			// satisfy required_if by adding what became required
			for changed := true; changed; {
				changed = false
				for _, p := range s.Props {
					if _, set := m[p.Name]; set || p.Disabled || p.Default != nil {
						continue
					}
					for _, r := range p.RequiredIf {
						if _, set := m[r]; set {
							if v, has := ValidValue(p.Type); has {
								m[p.Name] = v
								changed = true
							}
							break
						}
					}
				}
			}
			if ok {
				add(m)
			}
		}
	case KOneOfStr, KOneOfInt:
		// the minimal value of every member first, then the fuller one of every member
		for variant := 0; variant < 2; variant++ {
			for _, mem := range s.Members {
				mvs := ValidValues(memberObject(mem.Type), 2)
				if len(mvs) <= variant {
					continue
				}
				m := map[string]any{}
				for k, v := range mvs[variant].(map[string]any) {
					m[k] = v
				}
				if s.Kind == KOneOfStr {
					m[s.Discriminator] = mem.KeyS
				} else {
					m[s.Discriminator] = mem.KeyI
				}
				add(m)
			}
		}
	case KRef:
		if s.resolved != nil && refDepth < 2 {
			refDepth++
			defer func() { refDepth-- }()
			return ValidValues(s.resolved, n)
		}
	case KScope:
		Link(s)
		for _, o := range s.Objects {
			if o.ID == s.Root {
				return ValidValues(o, n)
			}
		}
	}
	return out
}

// refDepth bounds value generation through recursive references.
var refDepth = 0

// memberObject resolves a one-of member (object, ref or scope) to its object spec for value generation.
func memberObject(t *Spec) *Spec {
	switch t.Kind {
	case KRef:
		if t.resolved != nil {
			return t.resolved
		}
	case KScope:
		Link(t)
		for _, o := range t.Objects {
			if o.ID == t.Root {
				return o
			}
		}
	}
	return t
}

// RawValues is V(spec): raw inputs derived from the spec - every boundary in every representation, plus
// wrong-type probes. Containers use the product of at most two element choices.
func RawValues(s *Spec) []any {
	var out []any
	switch s.Kind {
	case KInt, KIntEnum:
		var ns []int64
		if s.Kind == KInt {
			ns = IntBoundary(s.Min, s.Max)
		} else {
			ns = append(append([]int64{}, s.EnumI...), 0, 3)
		}
		if Dense {
			ns = dedupeInts(append(ns, denseInts(s.Min, s.Max)...))
		}
		for _, n := range ns {
			out = append(out, intReps(n)...)
		}
		if Dense {
			out = append(out, denseUnitStrings(s.Units)...)
		}
		out = append(out, extremeNumbers()...)
		// digit strings that other number syntaxes would read differently: leading zeros (octal elsewhere), base
		// prefixes, digit separators - decimal is the only base
		out = append(out, "010", "017", "0x10", "0b101", "0o17", "1_000")
		switch s.Units {
		case "sec":
			out = append(out, unitStringsSec...)
		case "bytes":
			out = append(out, unitStringsBytes...)
		case "chars":
			out = append(out, unitStringsChars...)
		}
		if s.Units != "" {
			out = append(out, wrapUnitStrings(s.Units)...)
		}
		out = append(out, nil, []any{int64(1)}, map[string]any{"a": int64(1)})
	case KFloat:
		fs := []float64{0, 1, -1, 0.5}
		if s.FMin != nil {
			fs = append(fs, *s.FMin, math.Nextafter(*s.FMin, math.Inf(-1)), *s.FMin-1)
		}
		if s.FMax != nil {
			fs = append(fs, *s.FMax, math.Nextafter(*s.FMax, math.Inf(1)), *s.FMax+1)
		}
		if Dense {
			fs = append(fs, denseFloats(s.FMin, s.FMax)...)
			for _, f := range fs {
				out = append(out, fmt.Sprintf("%e", f), fmt.Sprintf("%.3f", f))
			}
			out = append(out, denseUnitStrings(s.Units)...)
		}
		for _, f := range fs {
			out = append(out, f, float32(f), fmt.Sprint(f))
			if f == math.Trunc(f) && math.Abs(f) < 1e15 {
				out = append(out, intReps(int64(f))...)
			}
		}
		out = append(out, extremeNumbers()...)
		if s.Units == "sec" {
			out = append(out, unitStringsSec...)
		}
		if s.Units == "pct" {
			out = append(out, unitStringsPct...)
		}
		if s.Units != "" {
			out = append(out, wrapUnitStrings(s.Units)...)
		}
		out = append(out, nil, []any{1.5})
	case KString, KStrEnum, KTypedEnum:
		lens := []int64{0, 1, 2, 3, 4}
		if s.Min != nil {
			lens = append(lens, *s.Min-1, *s.Min)
		}
		if s.Max != nil {
			lens = append(lens, *s.Max, *s.Max+1)
		}
		out = append(out, stringsOfLen(lens...)...)
		if Dense {
			out = append(out, denseStrings()...)
		}
		out = append(out, "b", "a\n", "é", "1", "true")
		// long values (error messages quote or shorten them): ASCII, two-byte and three-byte characters
		out = append(out, strings.Repeat("a", 100), strings.Repeat("é", 40), strings.Repeat("日本語", 10), strings.Repeat("a", 63)+"é")
		for _, n := range []int64{0, 1, 12, -3} {
			out = append(out, intReps(n)...)
		}
		out = append(out, 1.5, float32(2), math.NaN(), true, nil, []byte("aa"), MyStr("a"), []any{"a"}, map[string]any{})
	case KBool:
		for _, w := range boolWords {
			for _, c := range casings(w) {
				out = append(out, c)
			}
		}
		out = append(out, "maybe", "", "2", "tru", " true")
		for _, n := range []int64{0, 1, 2, -1} {
			out = append(out, intReps(n)...)
		}
		out = append(out, true, false, nil, 1.0, 0.0, []any{true})
	case KPattern:
		out = append(out, "^a+$", "", "(", "[", "a{2,1}", "\\", ".*", int64(5), 1.5, nil, true, []any{})
	case KAny:
		out = append(out, extremeNumbers()...)
		out = append(out, "s", int64(1), int(2), uint8(3), float32(1.5), nil,
			[]any{}, []any{int64(1), "x"}, []string{"a"}, []int{1},
			map[string]any{"a": int64(1)}, map[any]any{"a": int64(1), int64(2): "b"}, map[int64]any{1: "x"}, map[any]any{1.5: "x"},
			map[string]any{"n": map[string]any{"l": []any{map[any]any{}}}},
			[]byte("raw"), MyStr("named"),
			// lists that already are []any but whose items are not in normal form yet (an in-place conversion would
			// rewrite the caller's list)
			[]any{int(1), int(2)}, []any{uint8(3)}, []any{float32(1.5)}, []any{map[string]any{"a": int(1)}},
			[]any{[]any{int(1)}}, map[string]any{"l": []any{int(1), int(2)}})
	case KList:
		items := RawValues(s.Item)
		good := ValidValues(s.Item, 2)
		sizes := []int64{0, 1, 2, 3}
		if s.Min != nil {
			sizes = append(sizes, *s.Min-1, *s.Min)
		}
		if s.Max != nil {
			sizes = append(sizes, *s.Max, *s.Max+1)
		}
		for _, n := range dedupeInts(sizes) {
			if n < 0 || n > 6 || len(good) == 0 {
				continue
			}
			l := make([]any, n)
			for i := range l {
				l[i] = good[i%len(good)]
			}
			out = append(out, l)
		}
		// one position varied over the item's raw values
		if len(good) > 0 {
			for _, it := range items {
				out = append(out, []any{it}, []any{good[0], it})
			}
		} else {
			out = append(out, []any{})
			for _, it := range items[:minInt(len(items), 10)] {
				out = append(out, []any{it})
			}
		}
		out = append(out, nil, "not a list", int64(3), map[string]any{})
		if len(good) > 0 {
			if gs, ok := good[0].(string); ok {
				out = append(out, []string{gs})
			}
			if gi, ok := good[0].(int64); ok {
				out = append(out, []int64{gi}, []int{int(gi)})
			}
		}
	case KMap:
		keys := RawValues(s.Key)
		gk := ValidValues(s.Key, 3)
		gv := ValidValues(s.Val, 2)
		vals := RawValues(s.Val)
		if len(gk) > 0 && len(gv) > 0 {
			for n := 0; n <= len(gk) && n <= 3; n++ {
				m := map[any]any{}
				for i := 0; i < n; i++ {
					m[gk[i]] = gv[i%len(gv)]
				}
				out = append(out, m)
			}
			for _, k := range keys {
				if !hashable(k) {
					continue
				}
				out = append(out, map[any]any{k: gv[0]})
			}
			for _, v := range vals {
				out = append(out, map[any]any{gk[0]: v})
			}
			// distinct raw keys that denote one key (whether such a map is to be accepted is not settled by the
			// properties; what is returned for it must still meet the declared bounds, and must not depend on the
			// iteration order)
			v2 := gv[len(gv)-1]
			out = append(out, map[any]any{"1": gv[0], int64(1): v2}, map[any]any{"a": gv[0], MyStr("a"): v2},
				map[any]any{"1": gv[0], int64(1): v2, int64(2): gv[0]}, map[any]any{"a": gv[0], MyStr("a"): v2, "b": gv[0]})
			// the same in a concretely typed raw map (its keys are distinct strings, yet spell one number)
			out = append(out, map[string]any{"1": gv[0], "01": v2}, map[string]any{"1": gv[0], "+1": v2, "2": gv[0]}, map[string]string{"1": "x", "01": "y"})
			if ks, ok := gk[0].(string); ok {
				out = append(out, map[string]any{ks: gv[0]})
			}
			if ki, ok := gk[0].(int64); ok {
				out = append(out, map[int64]any{ki: gv[0]}, map[int]any{int(ki): gv[0]}, map[string]any{fmt.Sprint(ki): gv[0]})
			}
		} else {
			out = append(out, map[any]any{})
		}
		out = append(out, nil, "not a map", []any{})
	case KObject:
		out = append(out, ObjectRawValues(s)...)
	case KOneOfStr, KOneOfInt:
		out = append(out, OneOfRawValues(s)...)
	case KRef:
		if s.resolved != nil && refDepth < 2 {
			refDepth++
			defer func() { refDepth-- }()
			return RawValues(s.resolved)
		}
	case KScope:
		Link(s)
		for _, o := range s.Objects {
			if o.ID == s.Root {
				return RawValues(o)
			}
		}
	}
	return dedupeAny(out)
}

func minInt(a, b int) int {
	if a < b {
		return a
	}
	return b
}

func hashable(v any) bool {
	switch v.(type) {
	case []any, map[string]any, map[any]any, []byte, []string, []int, []int64, map[int64]any, map[int]any:
		return false
	}
	return true
}

// ObjectRawValues: subsets of supplied properties x valid/invalid value per property x structural probes.
func ObjectRawValues(s *Spec) []any {
	var out []any
	n := len(s.Props)
	good := make([]any, n)
	has := make([]bool, n)
	for i, p := range s.Props {
		good[i], has[i] = ValidValue(p.Type)
	}
	limit := 1 << n
	if n > 4 {
		limit = 16
		// many properties: the subsets of the first four, and first of all the value with every property supplied
		all := map[string]any{}
		for i, p := range s.Props {
			if has[i] && !p.Disabled && len(p.Conflicts) == 0 {
				all[p.Name] = good[i]
			}
		}
		out = append(out, all)
	}
	for mask := 0; mask < limit; mask++ {
		m := map[string]any{}
		ok := true
		for i, p := range s.Props {
			if mask&(1<<i) != 0 {
				if !has[i] {
					ok = false
					break
				}
				m[p.Name] = good[i]
			}
		}
		if ok {
			out = append(out, m)
		}
	}
	full := map[string]any{}
	for i, p := range s.Props {
		if has[i] && !p.Disabled && len(p.Conflicts) == 0 {
			full[p.Name] = good[i]
		}
	}
	// one property replaced by each of (a few of) its raw values
	for _, p := range s.Props {
		raws := RawValues(p.Type)
		step := 1
		if len(raws) > 24 {
			step = len(raws) / 24
		}
		for j := 0; j < len(raws); j += step {
			m := map[string]any{}
			for k, v := range full {
				m[k] = v
			}
			m[p.Name] = raws[j]
			out = append(out, m)
		}
	}
	// structural probes
	withExtra := map[string]any{"undeclared": int64(1)}
	anyKeyed := map[any]any{}
	mixed := map[any]any{int64(1): "x"}
	for k, v := range full {
		withExtra[k] = v
		anyKeyed[k] = v
		mixed[k] = v
	}
	out = append(out, withExtra, anyKeyed, mixed, nil, "lone string", int64(3), []any{}, true)
	if n == 1 && has[0] {
		out = append(out, good[0])
		raws := RawValues(s.Props[0].Type)
		for j := 0; j < len(raws) && j < 12; j++ {
			out = append(out, raws[j])
		}
	}
	return out
}

// OneOfRawValues: discriminator in every representation x member-valid / member-invalid payloads.
func OneOfRawValues(s *Spec) []any {
	var out []any
	for _, mem := range s.Members {
		mo := memberObject(mem.Type)
		payloads := ObjectRawValues(mo)
		var discs []any
		if s.Kind == KOneOfStr {
			discs = []any{mem.KeyS, MyStr(mem.KeyS), []byte(mem.KeyS)}
		} else {
			discs = intReps(mem.KeyI)
		}
		cnt := 0
		for _, p := range payloads {
			pm, ok := p.(map[string]any)
			if !ok {
				continue
			}
			cnt++
			if cnt > 14 && len(mo.Props) <= 4 {
				break // small members: the first 14 payloads; members with many properties: every payload
			}
			for di, d := range discs {
				if di > 0 && cnt > 2 {
					break // all representations only with the first two payloads
				}
				m := map[string]any{}
				for k, v := range pm {
					m[k] = v
				}
				m[s.Discriminator] = d
				out = append(out, m)
				if cnt == 1 {
					am := map[any]any{}
					for k, v := range m {
						am[k] = v
					}
					out = append(out, am)
				}
			}
		}
	}
	base := map[string]any{}
	if len(s.Members) > 0 {
		if v, ok := ValidValue(memberObject(s.Members[0].Type)); ok {
			for k, x := range v.(map[string]any) {
				base[k] = x
			}
		}
	}
	with := func(d any) map[string]any {
		m := map[string]any{}
		for k, v := range base {
			m[k] = v
		}
		m[s.Discriminator] = d
		return m
	}
	out = append(out, base, with("zzz"), with(int64(99)), with(nil), with(1.5), with(true), with([]any{}), with(map[string]any{}),
		nil, "x", int64(1), []any{}, map[any]any{int64(1): "x"}, map[int]any{1: "x"})
	return out
}

// HV is one hostile value; Decoder says whether CBOR/JSON/YAML decoding can produce its shape.
type HV struct {
	Name    string
	V       any
	Decoder bool
}

type wrongStruct struct{ X int }

// Hostile is H: values a decoder can produce or a Go caller can pass that no schema expects.
func Hostile() []HV {
	var nilMap map[string]any
	var nilSlice []any
	var nilRe *regexp.Regexp
	var nilStr *string
	i := int64(5)
	st := "s"
	deep := func(n int) any {
		var v any = int64(1)
		for k := 0; k < n; k++ {
			v = []any{v}
		}
		return v
	}
	deepMap := func(n int) any {
		var v any = "leaf"
		for k := 0; k < n; k++ {
			v = map[string]any{"k": v}
		}
		return v
	}
	d := func(name string, v any) HV { return HV{name, v, true} }
	g := func(name string, v any) HV { return HV{name, v, false} }
	return []HV{
		d("nil", nil), d("nil map[string]any", nilMap), d("nil []any", nilSlice),
		g("(*regexp.Regexp)(nil)", nilRe), g("(*string)(nil)", nilStr), g("(*SA)(nil)", (*SA)(nil)), g("(*wrongStruct)(nil)", (*wrongStruct)(nil)),
		g("named string", MyStr("named")), g("named int64", namedInt(3)), g("named float64", namedFloat(1.5)), g("named bool", namedBool(true)),
		d("[]byte", []byte("bytes")), d("empty []byte", []byte{}), d("cbor.Tag", cbor.Tag{Number: 1, Content: int64(5)}), d("cbor.RawMessage", cbor.RawMessage{0x01}),
		d("big.Int", *big.NewInt(1 << 40)), d("*big.Int", big.NewInt(7)), d("time.Time", time.Unix(0, 0)), g("time.Duration", time.Second),
		d("map[int]any", map[int]any{1: "a"}), d("map[int64]any", map[int64]any{1: "a"}), d("map[any]any mixed keys", map[any]any{int64(1): "a", "1": "b"}),
		d("map[any]any float key", map[any]any{1.5: "a"}), d("map[any]any bool key", map[any]any{true: "a"}),
		d("map[any]any array key", map[any]any{[2]int{1, 2}: "array key"}), d("map[string]string", map[string]string{"a": "b"}), d("map[string]int", map[string]int{"a": 1}),
		d("[]string", []string{"a"}), d("[]int", []int{1}), d("[]map[string]any", []map[string]any{{"a": 1}}), g("[2]int", [2]int{1, 2}),
		g("chan", make(chan int)), g("func", func() {}), g("wrong struct", wrongStruct{1}), g("*wrong struct", &wrongStruct{2}), g("SA struct", SA{S: "x", I: 1}), g("*int64", &i), g("*string", &st),
		d("NaN", math.NaN()), d("+Inf", math.Inf(1)), d("-Inf", math.Inf(-1)), d("MaxUint64", uint64(math.MaxUint64)), d("MinInt64", int64(math.MinInt64)), g("complex", complex(1, 2)),
		d("nesting 10", deep(10)), d("nesting 1000", deep(1000)), d("map nesting 10", deepMap(10)), d("map nesting 1000", deepMap(1000)),
		d("[]any{nil}", []any{nil}), d("map with nil value", map[string]any{"k": nil}), d("map with nil key", map[any]any{nil: "nil key"}),
		d("empty string", ""), d("uint8", uint8(200)), d("float32", float32(1.5)),
	}
}

type namedInt int64
type namedFloat float64
type namedBool bool
