package ukit

import "reflect"

// Scribble overwrites, in place, everything reachable from a value a schema operation returned: list elements, map
// values (plus one added key), the targets of pointers. A caller owns what it was handed and may do this; if the
// schema's later behaviour changes, the value shared memory with the schema (a cached default, a lookup table).
func Scribble(v any) {
	scribble(reflect.ValueOf(v), 0)
}

func scribble(v reflect.Value, depth int) {
	if !v.IsValid() || depth > 12 {
		return
	}
	switch v.Kind() {
	case reflect.Interface:
		if !v.IsNil() {
			scribble(v.Elem(), depth+1)
		}
	case reflect.Pointer:
		if !v.IsNil() && v.Elem().Kind() == reflect.Struct && v.Type().Elem().PkgPath() == "regexp" {
			return // compiled patterns are shared by design and immutable through their API
		}
		if !v.IsNil() {
			scribble(v.Elem(), depth+1)
			if v.Elem().CanSet() && v.Elem().Kind() != reflect.Struct {
				v.Elem().Set(reflect.Zero(v.Elem().Type()))
			}
		}
	case reflect.Slice:
		for i := 0; i < v.Len(); i++ {
			e := v.Index(i)
			scribble(e, depth+1)
			if e.CanSet() {
				e.Set(scribbleValue(e.Type()))
			}
		}
	case reflect.Map:
		if v.IsNil() {
			return
		}
		for _, k := range v.MapKeys() {
			scribble(v.MapIndex(k), depth+1)
			v.SetMapIndex(k, scribbleValue(v.Type().Elem()))
		}
		if v.Type().Key().Kind() == reflect.String || v.Type().Key().Kind() == reflect.Interface {
			k := reflect.ValueOf("scribbled-key")
			if k.Type().ConvertibleTo(v.Type().Key()) {
				v.SetMapIndex(k.Convert(v.Type().Key()), scribbleValue(v.Type().Elem()))
			}
		}
	case reflect.Struct:
		for i := 0; i < v.NumField(); i++ {
			f := v.Field(i)
			if f.CanInterface() {
				scribble(f, depth+1)
			}
		}
	}
}

func scribbleValue(t reflect.Type) reflect.Value {
	s := reflect.ValueOf("scribbled")
	if s.Type().AssignableTo(t) {
		return s
	}
	if t.Kind() == reflect.String {
		return s.Convert(t)
	}
	return reflect.Zero(t)
}
