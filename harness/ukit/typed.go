package ukit

import (
	"fmt"
	"reflect"

	"go.flow.arcalot.io/pluginsdk/schema"
)

// The typed entry points (UnserializeType / ValidateType / SerializeType) are the same three operations with a
// static result type. TypedDisagreement runs them next to the untyped ones on one raw value and reports the first
// difference in acceptance or in the value returned ("" if there is none, or if the schema has no typed methods).
// Panics are the caller's business (wrap in Call).
func TypedDisagreement(sch schema.Type, raw any) string {
	rv := reflect.ValueOf(sch)
	um := rv.MethodByName("UnserializeType")
	if !um.IsValid() || um.Type().NumIn() != 1 || um.Type().NumOut() != 2 {
		return ""
	}
	got, err := sch.Unserialize(DeepCopy(raw))
	tgot, terr := callTyped(um, DeepCopy(raw))
	if (err == nil) != (terr == nil) {
		return fmt.Sprintf("UnserializeType and Unserialize disagree on acceptance: Unserialize(%s) -> %s, UnserializeType -> %s", Show(raw), outcomeOf(got, err), outcomeOf(ifaceOf(tgot), terr))
	}
	if err != nil {
		return ""
	}
	if !Equiv(got, ifaceOf(tgot)) && !equivConverted(got, tgot) {
		return fmt.Sprintf("UnserializeType and Unserialize return different values: Unserialize(%s) = %s, UnserializeType = %s", Show(raw), Show(got), Show(ifaceOf(tgot)))
	}
	// the typed string enum returns a plain string from UnserializeType but takes its named type everywhere else: the
	// later entry points get the value in the type they accept
	if vm := rv.MethodByName("ValidateType"); vm.IsValid() && vm.Type().NumIn() == 1 && !tgot.Type().AssignableTo(vm.Type().In(0)) && got != nil && reflect.TypeOf(got).AssignableTo(vm.Type().In(0)) {
		tgot = reflect.ValueOf(got)
	}
	if vm := rv.MethodByName("ValidateType"); vm.IsValid() && vm.Type().NumIn() == 1 && vm.Type().NumOut() == 1 && tgot.Type().AssignableTo(vm.Type().In(0)) {
		verr := sch.Validate(got)
		tverr, _ := vm.Call([]reflect.Value{tgot})[0].Interface().(error)
		if (verr == nil) != (tverr == nil) {
			return fmt.Sprintf("ValidateType and Validate disagree: on %s: Validate -> %v, ValidateType -> %v", Show(got), verr, tverr)
		}
	}
	if sm := rv.MethodByName("SerializeType"); sm.IsValid() && sm.Type().NumIn() == 1 && sm.Type().NumOut() == 2 && tgot.Type().AssignableTo(sm.Type().In(0)) {
		w, serr := sch.Serialize(got)
		outs := sm.Call([]reflect.Value{tgot})
		tserr, _ := outs[1].Interface().(error)
		if (serr == nil) != (tserr == nil) {
			return fmt.Sprintf("SerializeType and Serialize disagree: on %s: Serialize -> %s, SerializeType -> %s", Show(got), outcomeOf(w, serr), outcomeOf(ifaceOf(outs[0]), tserr))
		}
		if serr == nil && !Equiv(w, ifaceOf(outs[0])) {
			return fmt.Sprintf("SerializeType and Serialize return different wire forms: for %s: %s vs %s", Show(got), Show(w), Show(ifaceOf(outs[0])))
		}
	}
	return ""
}

// equivConverted: the typed result is the untyped one up to a conversion between a named type and its underlying
// type of the same kind (UnserializeType of a typed string enum is declared to return string).
func equivConverted(got any, tgot reflect.Value) bool {
	g := reflect.ValueOf(got)
	if !g.IsValid() || !tgot.IsValid() || g.Kind() != tgot.Kind() || !tgot.Type().ConvertibleTo(g.Type()) {
		return false
	}
	switch g.Kind() {
	case reflect.String, reflect.Int64, reflect.Float64, reflect.Bool:
		return Equiv(got, tgot.Convert(g.Type()).Interface())
	}
	return false
}

func callTyped(m reflect.Value, arg any) (reflect.Value, error) {
	a := reflect.ValueOf(arg)
	if !a.IsValid() {
		a = reflect.Zero(m.Type().In(0))
	}
	outs := m.Call([]reflect.Value{a})
	err, _ := outs[1].Interface().(error)
	return outs[0], err
}

func ifaceOf(v reflect.Value) any {
	if !v.IsValid() || !v.CanInterface() {
		return nil
	}
	return v.Interface()
}

func outcomeOf(v any, err error) string {
	if err != nil {
		return "error " + err.Error()
	}
	return Show(v)
}

// TypedNativeDisagreement: ValidateType / SerializeType next to Validate / Serialize on a native value of the
// schema's static type (values of other types cannot be passed to the typed entry points at all).
func TypedNativeDisagreement(sch schema.Type, nv any) string {
	rv := reflect.ValueOf(sch)
	v := reflect.ValueOf(nv)
	if !v.IsValid() {
		return ""
	}
	if vm := rv.MethodByName("ValidateType"); vm.IsValid() && vm.Type().NumIn() == 1 && vm.Type().NumOut() == 1 && v.Type().AssignableTo(vm.Type().In(0)) {
		verr := sch.Validate(nv)
		tverr, _ := vm.Call([]reflect.Value{v})[0].Interface().(error)
		if (verr == nil) != (tverr == nil) {
			return fmt.Sprintf("ValidateType and Validate disagree: on %s: Validate -> %v, ValidateType -> %v", Show(nv), verr, tverr)
		}
	}
	if sm := rv.MethodByName("SerializeType"); sm.IsValid() && sm.Type().NumIn() == 1 && sm.Type().NumOut() == 2 && v.Type().AssignableTo(sm.Type().In(0)) {
		w, serr := sch.Serialize(nv)
		outs := sm.Call([]reflect.Value{v})
		tserr, _ := outs[1].Interface().(error)
		if (serr == nil) != (tserr == nil) {
			return fmt.Sprintf("SerializeType and Serialize disagree: on %s: Serialize -> %s, SerializeType -> %s", Show(nv), outcomeOf(w, serr), outcomeOf(ifaceOf(outs[0]), tserr))
		}
		if serr == nil && !Equiv(w, ifaceOf(outs[0])) {
			return fmt.Sprintf("SerializeType and Serialize return different wire forms: for %s: %s vs %s", Show(nv), Show(w), Show(ifaceOf(outs[0])))
		}
	}
	return ""
}

// DisagreementClass is the part of a disagreement text that does not depend on the values.
func DisagreementClass(d string) string {
	for i := 0; i < len(d); i++ {
		if d[i] == ':' {
			return d[:i]
		}
	}
	return d
}
