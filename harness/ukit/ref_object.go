package ukit

import (
	"encoding/json"
	"fmt"
	"reflect"
)

// Reference presence interpreter and one-of dispatch.

// PresenceOK applies required / required_if / required_if_not / conflicts to the set of present property names.
func PresenceOK(s *Spec, present map[string]bool) (bool, string) {
	for _, p := range s.Props {
		if present[p.Name] {
			for _, c := range p.Conflicts {
				if present[c] {
					return false, fmt.Sprintf("%s conflicts with %s", p.Name, c)
				}
			}
			continue
		}
		if p.Required {
			return false, p.Name + " is required"
		}
		for _, r := range p.RequiredIf {
			if present[r] {
				return false, fmt.Sprintf("%s is required because %s is set", p.Name, r)
			}
		}
		if len(p.RequiredIfNot) > 0 {
			any := false
			for _, r := range p.RequiredIfNot {
				if present[r] {
					any = true
				}
			}
			if !any {
				return false, fmt.Sprintf("%s is required because none of %v is set", p.Name, p.RequiredIfNot)
			}
		}
	}
	return true, ""
}

// decodeDefault decodes a property's JSON default the way the SDK documents it (JSON; bare text allowed for
// string-typed properties).
func decodeDefault(p *Prop) (any, bool) {
	var v any
	if err := json.Unmarshal([]byte(*p.Default), &v); err != nil {
		if p.Type.Kind == KString {
			return *p.Default, true
		}
		return nil, false
	}
	return v, true
}

func stringKeyedMap(raw any) (map[string]any, Tri) {
	rv := reflect.ValueOf(raw)
	if !rv.IsValid() || rv.Kind() != reflect.Map {
		return nil, No
	}
	out := map[string]any{}
	for _, k := range rv.MapKeys() {
		ks, ok := k.Interface().(string)
		if !ok {
			if k.Kind() == reflect.String {
				return nil, Unknown // named string key types
			}
			return nil, No // non-string key
		}
		v := rv.MapIndex(k)
		if !v.IsValid() {
			return nil, No
		}
		out[ks] = v.Interface()
	}
	return out, Yes
}

// DenoteObject is the reference for Unserialize on an object spec.
func DenoteObject(s *Spec, raw any) (Tri, any) {
	rv := reflect.ValueOf(raw)
	var m map[string]any
	if !rv.IsValid() || rv.Kind() != reflect.Map {
		if len(s.Props) != 1 {
			return No, nil
		}
		// lone value: shorthand for the single property
		m = map[string]any{s.Props[0].Name: raw}
	} else {
		var ok Tri
		m, ok = stringKeyedMap(raw)
		if ok != Yes {
			return ok, nil
		}
	}
	for k := range m {
		if s.Prop(k) == nil {
			return No, nil // undeclared key
		}
	}
	verdict := Yes
	out := map[string]any{}
	present := map[string]bool{}
	for i := range s.Props {
		p := &s.Props[i]
		v, supplied := m[p.Name]
		if !supplied {
			if p.Default == nil {
				continue
			}
			d, ok := decodeDefault(p)
			if !ok {
				return Unknown, nil
			}
			v = d
		}
		present[p.Name] = true
		if p.Disabled {
			return No, nil // a disabled property is in use
		}
		ok, dv := Denote(p.Type, v)
		switch ok {
		case No:
			return No, nil
		case Unknown:
			verdict = Unknown
		default:
			out[p.Name] = dv
		}
	}
	if ok, _ := PresenceOK(s, present); !ok {
		return No, nil
	}
	if verdict != Yes {
		return verdict, nil
	}
	if s.Struct != "" {
		st, ok := mapToStruct(s, out)
		if !ok {
			return Unknown, nil
		}
		return Yes, st
	}
	return Yes, out
}

// mapToStruct builds the struct value of a struct-mapped object from the property map.
func mapToStruct(s *Spec, m map[string]any) (any, bool) {
	t := NativeType(s)
	ptr := false
	if t.Kind() == reflect.Pointer {
		ptr = true
		t = t.Elem()
	}
	v := reflect.New(t)
	for name, val := range m {
		var f reflect.Value
		for i := 0; i < t.NumField(); i++ {
			tag := t.Field(i).Tag.Get("json")
			if tag == name || (tag == "" && t.Field(i).Name == name) {
				f = v.Elem().Field(i)
			}
		}
		if !f.IsValid() {
			return nil, false
		}
		rv := reflect.ValueOf(val)
		if !rv.IsValid() {
			continue
		}
		switch {
		case f.Kind() == reflect.Pointer && rv.Kind() != reflect.Pointer:
			if !rv.Type().ConvertibleTo(f.Type().Elem()) {
				return nil, false
			}
			p := reflect.New(f.Type().Elem())
			p.Elem().Set(rv.Convert(f.Type().Elem()))
			f.Set(p)
		case rv.Type().AssignableTo(f.Type()):
			f.Set(rv)
		case rv.Type().ConvertibleTo(f.Type()):
			f.Set(rv.Convert(f.Type()))
		default:
			return nil, false
		}
	}
	if ptr {
		return v.Interface(), true
	}
	return v.Elem().Interface(), true
}

// DenoteOneOf is the reference for Unserialize on a one-of spec.
func DenoteOneOf(s *Spec, raw any) (Tri, any) {
	m, ok := stringKeyedMap(raw)
	if ok != Yes {
		return ok, nil
	}
	d, has := m[s.Discriminator]
	if !has {
		return No, nil
	}
	var mem *Member
	var typed any
	if s.Kind == KOneOfInt {
		v, ok := denoteInt(d, "")
		if ok != Yes {
			return ok, nil
		}
		typed = v
		for i := range s.Members {
			if s.Members[i].KeyI == v {
				mem = &s.Members[i]
			}
		}
	} else {
		v, ok := denoteString(d)
		if ok != Yes {
			return ok, nil
		}
		typed = v
		for i := range s.Members {
			if s.Members[i].KeyS == v {
				mem = &s.Members[i]
			}
		}
	}
	if mem == nil {
		return No, nil
	}
	payload := map[string]any{}
	for k, v := range m {
		if k == s.Discriminator && !s.Inlined {
			continue
		}
		payload[k] = v
	}
	okM, mv := Denote(mem.Type, payload)
	if okM != Yes {
		return okM, nil
	}
	if mm, isMap := mv.(map[string]any); isMap {
		mm[s.Discriminator] = typed
		return Yes, mm
	}
	return Yes, mv // struct-mapped member: the struct itself
}

// ValidNativeObject is the reference for Validate / Serialize on a map-based object's native value.
func ValidNativeObject(s *Spec, v any) Tri {
	m, ok := v.(map[string]any)
	if !ok {
		return Unknown
	}
	present := map[string]bool{}
	verdict := Yes
	for k, val := range m {
		p := s.Prop(k)
		if p == nil {
			return No
		}
		if p.Disabled {
			verdict = Unknown
		}
		present[k] = true
		switch ValidNative(p.Type, val) {
		case No:
			return No
		case Unknown:
			verdict = Unknown
		}
	}
	if ok, _ := PresenceOK(s, present); !ok {
		return No
	}
	return verdict
}
