package ukit

import (
	"fmt"
	"math"
	"reflect"
	"regexp"
	"sort"
	"strconv"
	"strings"
	"unicode/utf8"

	"go.flow.arcalot.io/pluginsdk/schema"
)

// The reference interpreter: plain recursive Go over Spec. It is independent where the properties state
// a rule (bounds, sizes, membership, unit arithmetic) and delegates to the same standard-library function
// where they refer to the SDK's fixed lenient conversions (strconv.ParseInt base 10, strconv.ParseFloat,
// %d / %f rendering). It answers Unknown wherever the statements leave the verdict open.

type Tri int

const (
	No Tri = iota
	Yes
	Unknown
)

func (t Tri) String() string { return [...]string{"reject", "accept", "unknown"}[t] }

// NativeType is the Go type of unserialized values of a spec.
func NativeType(s *Spec) reflect.Type {
	switch s.Kind {
	case KInt, KIntEnum:
		return reflect.TypeOf(int64(0))
	case KFloat:
		return reflect.TypeOf(float64(0))
	case KString, KStrEnum:
		return reflect.TypeOf("")
	case KTypedEnum:
		return reflect.TypeOf(MyStr(""))
	case KBool:
		return reflect.TypeOf(false)
	case KPattern:
		return regexpType
	case KList:
		return reflect.SliceOf(NativeType(s.Item))
	case KMap:
		return reflect.MapOf(NativeType(s.Key), NativeType(s.Val))
	case KObject:
		if s.Struct == "" {
			return reflect.TypeOf(map[string]any{})
		}
		return Build(s).ReflectedType()
	case KRef:
		if s.resolved != nil {
			return NativeType(s.resolved)
		}
	case KScope:
		Link(s)
		return NativeType(s.RootObject())
	}
	var a any
	return reflect.TypeOf(&a).Elem()
}

// unit tables of the model (independent of the SDK's)
type refUnits struct {
	base  []string
	mults map[int64][]string
}

var refUnitTable = map[string]refUnits{
	"sec":   {[]string{"s", "second", "seconds"}, map[int64][]string{60: {"m", "minute", "minutes"}, 3600: {"H", "hour", "hours"}, 86400: {"d", "day", "days"}}},
	"bytes": {[]string{"B", "byte", "bytes"}, map[int64][]string{1 << 10: {"kB", "kilobyte", "kilobytes"}, 1 << 20: {"MB", "megabyte", "megabytes"}, 1 << 30: {"GB", "gigabyte", "gigabytes"}, 1 << 40: {"TB", "terabyte", "terabytes"}, 1 << 50: {"PB", "petabyte", "petabytes"}}},
	"chars": {[]string{"char", "chars", "character", "characters"}, nil},
	"pct":   {[]string{"%", "percent"}, nil},
	"ns": {[]string{"ns", "nanosecond", "nanoseconds"}, map[int64][]string{1000: {"μs", "microsecond", "microseconds"}, 1000000: {"ms", "milliseconds"},
		1000000000: {"s", "second", "seconds"}, 60000000000: {"m", "minute", "minutes"}, 3600000000000: {"H", "hour", "hours"}, 86400000000000: {"d", "day", "days"}}},
}

var compRe = regexp.MustCompile(`^([0-9]+(?:\.[0-9]+)?)\s*`)

// RefParseUnits interprets s as a quantity: components "count unit" with strictly descending units, optional
// spaces, the base unit's name optional on the last component, decimals only on the base component.
// ok=Unknown when the string is outside what the properties pin down.
func RefParseUnits(units string, s string) (i int64, f float64, isFloat bool, ok Tri) {
	u := refUnitTable[units]
	s = strings.TrimSpace(s)
	if s == "" {
		return 0, 0, false, No
	}
	type unitName struct {
		name string
		mult int64
	}
	var names []unitName
	for m, ns := range u.mults {
		for _, n := range ns {
			names = append(names, unitName{n, m})
		}
	}
	for _, n := range u.base {
		names = append(names, unitName{n, 1})
	}
	sort.Slice(names, func(a, b int) bool { return len(names[a].name) > len(names[b].name) }) // longest match first
	last := int64(math.MaxInt64)
	rest := s
	sumI, sumF := int64(0), 0.0
	overflow := false
	comps := 0
	for rest != "" {
		m := compRe.FindStringSubmatch(rest)
		if m == nil {
			if rest[0] == '-' || rest[0] == '+' {
				return 0, 0, false, Unknown // signed quantities are not pinned down
			}
			return 0, 0, false, No // junk / unit without count
		}
		numStr := m[1]
		rest = rest[len(m[0]):]
		mult := int64(0)
		for _, n := range names {
			if strings.HasPrefix(rest, n.name) {
				// the name must end at a boundary (digit, space or end); otherwise try shorter names
				after := rest[len(n.name):]
				if after == "" || after[0] == ' ' || (after[0] >= '0' && after[0] <= '9') {
					mult = n.mult
					rest = strings.TrimLeft(after, " ")
					break
				}
			}
		}
		if mult == 0 {
			if rest == "" {
				mult = 1 // bare number: base unit
			} else if rest[0] >= '0' && rest[0] <= '9' {
				return 0, 0, false, Unknown // "1m30 5": number followed by number
			} else {
				if strings.ContainsAny(rest[:1], "eExX_") {
					return 0, 0, false, Unknown // exponent / hex / underscore notations with units
				}
				return 0, 0, false, No // unknown unit
			}
		}
		if mult >= last {
			return 0, 0, false, No // wrong order or repeated unit
		}
		last = mult
		comps++
		if strings.Contains(numStr, ".") {
			if mult != 1 {
				return 0, 0, false, Unknown // decimals on a multiplier component
			}
			x, err := strconv.ParseFloat(numStr, 64)
			if err != nil {
				return 0, 0, false, No
			}
			isFloat = true
			sumF += x
		} else {
			n, err := strconv.ParseUint(numStr, 10, 64)
			if err != nil || n > math.MaxInt64 {
				overflow = true
				continue
			}
			c := int64(n)
			if c != 0 && mult > math.MaxInt64/c {
				overflow = true
				continue
			}
			if c*mult > math.MaxInt64-sumI {
				overflow = true
				continue
			}
			sumI += c * mult
			sumF += float64(c) * float64(mult)
		}
	}
	if overflow {
		return 0, 0, false, No
	}
	return sumI, sumF, isFloat, Yes
}

func isDecoderInt(raw any) (v int64, uv uint64, signed bool, ok bool) {
	switch x := raw.(type) {
	case int:
		return int64(x), 0, true, true
	case int8:
		return int64(x), 0, true, true
	case int16:
		return int64(x), 0, true, true
	case int32:
		return int64(x), 0, true, true
	case int64:
		return x, 0, true, true
	case uint:
		return 0, uint64(x), false, true
	case uint8:
		return 0, uint64(x), false, true
	case uint16:
		return 0, uint64(x), false, true
	case uint32:
		return 0, uint64(x), false, true
	case uint64:
		return 0, x, false, true
	}
	return 0, 0, false, false
}

func denoteInt(raw any, units string) (int64, Tri) {
	if v, uv, signed, ok := isDecoderInt(raw); ok {
		if signed {
			return v, Yes
		}
		if uv > math.MaxInt64 {
			return 0, No
		}
		return int64(uv), Yes
	}
	switch x := raw.(type) {
	case float64:
		if x != math.Trunc(x) || math.IsNaN(x) || math.IsInf(x, 0) || x < -9223372036854775808.0 || x >= 9223372036854775808.0 {
			return 0, No
		}
		return int64(x), Yes
	case float32:
		f := float64(x)
		if f != math.Trunc(f) || math.IsNaN(f) || math.IsInf(f, 0) || f < -9223372036854775808.0 || f >= 9223372036854775808.0 {
			return 0, No
		}
		return int64(f), Yes
	case string:
		if units == "" {
			n, err := strconv.ParseInt(x, 10, 64)
			if err != nil {
				return 0, No
			}
			return n, Yes
		}
		i, _, isF, ok := RefParseUnits(units, x)
		if ok != Yes {
			return 0, ok
		}
		if isF {
			return 0, No
		}
		return i, Yes
	case bool:
		return 0, Unknown
	case nil:
		return 0, No
	}
	return 0, rejectOrUnknown(raw)
}

// rejectOrUnknown: shapes a decoder can produce are rejected; Go-only values are outside Unserialize's domain.
func rejectOrUnknown(raw any) Tri {
	switch raw.(type) {
	case []any, map[string]any, map[any]any, nil:
		return No
	}
	k := reflect.ValueOf(raw).Kind()
	switch k {
	case reflect.Slice, reflect.Map:
		return No
	}
	return Unknown
}

func denoteFloat(raw any, units string) (float64, Tri) {
	if v, uv, signed, ok := isDecoderInt(raw); ok {
		if signed {
			return float64(v), Yes
		}
		return float64(uv), Yes
	}
	switch x := raw.(type) {
	case float64:
		return x, Yes
	case float32:
		return float64(x), Yes
	case string:
		if units == "" {
			f, err := strconv.ParseFloat(x, 64)
			if err != nil {
				return 0, No
			}
			return f, Yes
		}
		i, f, isF, ok := RefParseUnits(units, x)
		if ok != Yes {
			return 0, ok
		}
		if isF {
			return f + 0, Yes
		}
		return float64(i), Yes
	case bool:
		return 0, Unknown
	case nil:
		return 0, No
	}
	return 0, rejectOrUnknown(raw)
}

func denoteString(raw any) (string, Tri) {
	if v, uv, signed, ok := isDecoderInt(raw); ok {
		if signed {
			return fmt.Sprintf("%d", v), Yes
		}
		return fmt.Sprintf("%d", uv), Yes
	}
	switch x := raw.(type) {
	case string:
		return x, Yes
	case float64:
		return fmt.Sprintf("%f", x), Yes
	case float32:
		return fmt.Sprintf("%f", x), Yes
	case nil:
		return "", No
	case bool:
		return "", Unknown
	}
	return "", rejectOrUnknown(raw)
}

var refBoolWords = map[string]bool{"1": true, "yes": true, "y": true, "on": true, "true": true, "enable": true, "enabled": true,
	"0": false, "no": false, "n": false, "off": false, "false": false, "disable": false, "disabled": false}

func asciiLower(s string) (string, bool) {
	b := []byte(s)
	for i, c := range b {
		if c >= 0x80 {
			return "", false
		}
		if c >= 'A' && c <= 'Z' {
			b[i] = c + 32
		}
	}
	return string(b), true
}

// Denote says whether Unserialize must accept raw for spec s and what value it denotes.
func Denote(s *Spec, raw any) (Tri, any) {
	switch s.Kind {
	case KInt:
		v, ok := denoteInt(raw, s.Units)
		if ok != Yes {
			return ok, nil
		}
		if (s.Min != nil && v < *s.Min) || (s.Max != nil && v > *s.Max) {
			return No, nil
		}
		return Yes, v
	case KFloat:
		v, ok := denoteFloat(raw, s.Units)
		if ok != Yes {
			return ok, nil
		}
		if math.IsNaN(v) && (s.FMin != nil || s.FMax != nil) {
			return No, nil // NaN is not within any bound
		}
		if (s.FMin != nil && v < *s.FMin) || (s.FMax != nil && v > *s.FMax) {
			return No, nil
		}
		return Yes, v
	case KString:
		v, ok := denoteString(raw)
		if ok != Yes {
			return ok, nil
		}
		return stringConstraints(s, v), v
	case KBool:
		switch x := raw.(type) {
		case bool:
			return Yes, x
		case string:
			l, ascii := asciiLower(x)
			if !ascii {
				return Unknown, nil
			}
			if v, ok := refBoolWords[l]; ok {
				return Yes, v
			}
			return No, nil
		case nil:
			return No, nil
		case float32, float64:
			return Unknown, nil
		}
		if v, uv, signed, ok := isDecoderInt(raw); ok {
			if !signed {
				if uv > 1 {
					return No, nil
				}
				v = int64(uv)
			}
			switch v {
			case 0:
				return Yes, false
			case 1:
				return Yes, true
			}
			return No, nil
		}
		return rejectOrUnknown(raw), nil
	case KPattern:
		x, ok := raw.(string)
		if !ok {
			if raw == nil {
				return No, nil
			}
			if _, isMap := raw.(map[string]any); isMap {
				return No, nil
			}
			if _, isList := raw.([]any); isList {
				return No, nil
			}
			return Unknown, nil
		}
		re, err := regexp.Compile(x)
		if err != nil {
			return No, nil
		}
		return Yes, re
	case KIntEnum:
		v, ok := denoteInt(raw, s.Units)
		if ok != Yes {
			return ok, nil
		}
		for _, e := range s.EnumI {
			if e == v {
				return Yes, v
			}
		}
		return No, nil
	case KStrEnum, KTypedEnum:
		if _, isBool := raw.(bool); isBool {
			return Unknown, nil
		}
		v, ok := denoteString(raw)
		if ok != Yes {
			return ok, nil
		}
		for _, e := range s.EnumS {
			if e == v {
				if s.Kind == KTypedEnum {
					return Yes, MyStr(v)
				}
				return Yes, v
			}
		}
		return No, nil
	case KAny:
		return denoteAny(raw)
	case KList:
		rv := reflect.ValueOf(raw)
		if !rv.IsValid() {
			return No, nil
		}
		if rv.Kind() != reflect.Slice {
			if rv.Kind() == reflect.Array {
				return Unknown, nil
			}
			return No, nil
		}
		if _, isBytes := raw.([]byte); isBytes {
			return Unknown, nil
		}
		n := int64(rv.Len())
		sizeOK := !((s.Min != nil && n < *s.Min) || (s.Max != nil && n > *s.Max))
		out := reflect.MakeSlice(reflect.SliceOf(NativeType(s.Item)), 0, rv.Len())
		verdict := Yes
		for i := 0; i < rv.Len(); i++ {
			ok, v := Denote(s.Item, rv.Index(i).Interface())
			switch ok {
			case No:
				return No, nil
			case Unknown:
				verdict = Unknown
			default:
				if verdict == Yes {
					out = reflect.Append(out, nativeValue(NativeType(s.Item), v))
				}
			}
		}
		if !sizeOK {
			return No, nil
		}
		if verdict != Yes {
			return verdict, nil
		}
		return Yes, out.Interface()
	case KMap:
		rv := reflect.ValueOf(raw)
		if !rv.IsValid() || rv.Kind() != reflect.Map {
			return No, nil
		}
		n := int64(rv.Len())
		sizeOK := !((s.Min != nil && n < *s.Min) || (s.Max != nil && n > *s.Max))
		out := reflect.MakeMap(reflect.MapOf(NativeType(s.Key), NativeType(s.Val)))
		verdict := Yes
		for _, k := range rv.MapKeys() {
			val := rv.MapIndex(k)
			if !val.IsValid() {
				return No, nil // NaN key
			}
			okK, kv := Denote(s.Key, k.Interface())
			okV, vv := Denote(s.Val, val.Interface())
			if okK == No || okV == No {
				return No, nil
			}
			if okK == Unknown || okV == Unknown {
				verdict = Unknown
				continue
			}
			kr := nativeValue(NativeType(s.Key), kv)
			if out.MapIndex(kr).IsValid() {
				verdict = Unknown // two raw keys denote the same key
				continue
			}
			out.SetMapIndex(kr, nativeValue(NativeType(s.Val), vv))
		}
		if !sizeOK {
			return No, nil
		}
		if verdict != Yes {
			return verdict, nil
		}
		return Yes, out.Interface()
	case KObject:
		return DenoteObject(s, raw)
	case KOneOfStr, KOneOfInt:
		return DenoteOneOf(s, raw)
	case KRef:
		if s.resolved == nil {
			return Unknown, nil
		}
		return Denote(s.resolved, raw)
	case KScope:
		Link(s)
		return Denote(s.RootObject(), raw)
	}
	return Unknown, nil
}

func nativeValue(t reflect.Type, v any) reflect.Value {
	if v == nil {
		return reflect.Zero(t)
	}
	rv := reflect.ValueOf(v)
	if rv.Type() != t && rv.Type().ConvertibleTo(t) && t.Kind() != reflect.Interface {
		return rv.Convert(t)
	}
	if t.Kind() == reflect.Interface {
		x := reflect.New(t).Elem()
		x.Set(rv)
		return x
	}
	return rv
}

func stringConstraints(s *Spec, v string) Tri {
	if s.Min != nil || s.Max != nil {
		if !isASCII(v) {
			return Unknown // bytes or characters?
		}
		n := int64(len(v))
		if (s.Min != nil && n < *s.Min) || (s.Max != nil && n > *s.Max) {
			return No
		}
	}
	if s.Pattern != "" && !regexp.MustCompile(s.Pattern).MatchString(v) {
		return No
	}
	return Yes
}

func isASCII(s string) bool {
	return utf8.RuneCountInString(s) == len(s)
}

func denoteAny(raw any) (Tri, any) {
	if v, uv, signed, ok := isDecoderInt(raw); ok {
		if signed {
			return Yes, v
		}
		if uv > math.MaxInt64 {
			return No, nil
		}
		return Yes, int64(uv)
	}
	switch x := raw.(type) {
	case nil:
		return No, nil
	case float64:
		return Yes, x
	case float32:
		return Yes, float64(x)
	case string:
		return Yes, x
	case bool:
		return Yes, x
	case []byte:
		return Unknown, nil
	}
	rv := reflect.ValueOf(raw)
	switch rv.Kind() {
	case reflect.Slice:
		out := make([]any, 0, rv.Len())
		verdict := Yes
		for i := 0; i < rv.Len(); i++ {
			ok, v := denoteAny(rv.Index(i).Interface())
			if ok == No {
				return No, nil
			}
			if ok == Unknown {
				verdict = Unknown
			}
			out = append(out, v)
		}
		if verdict != Yes {
			return verdict, nil
		}
		return Yes, out
	case reflect.Map:
		out := map[any]any{}
		verdict := Yes
		for _, k := range rv.MapKeys() {
			val := rv.MapIndex(k)
			if !val.IsValid() {
				return No, nil
			}
			okK, kv := denoteAny(k.Interface())
			okV, vv := denoteAny(val.Interface())
			if okK == No || okV == No {
				return No, nil
			}
			if okK == Unknown || okV == Unknown || !hashable(kv) {
				verdict = Unknown
				continue
			}
			if f, isF := kv.(float64); isF && math.IsNaN(f) {
				return No, nil
			}
			if _, dup := out[kv]; dup {
				verdict = Unknown
			}
			out[kv] = vv
		}
		if verdict != Yes {
			return verdict, nil
		}
		return Yes, out
	}
	return Unknown, nil
}

// ValidNative says whether Validate / Serialize must accept a value that is already in native form.
// Values of another Go type than the native one are Unknown (the SDK converts some of them).
func ValidNative(s *Spec, v any) Tri {
	if v == nil {
		return No
	}
	switch s.Kind {
	case KRef:
		if s.resolved == nil {
			return Unknown
		}
		return ValidNative(s.resolved, v)
	case KScope:
		Link(s)
		return ValidNative(s.RootObject(), v)
	case KObject:
		if s.Struct != "" {
			return Unknown
		}
		return ValidNativeObject(s, v)
	case KOneOfStr, KOneOfInt:
		m, ok := v.(map[string]any)
		if !ok {
			return Unknown
		}
		d, has := m[s.Discriminator]
		if !has {
			return No
		}
		for i := range s.Members {
			mem := &s.Members[i]
			if (s.Kind == KOneOfStr && d == any(mem.KeyS)) || (s.Kind == KOneOfInt && d == any(mem.KeyI)) {
				payload := map[string]any{}
				for k, x := range m {
					if k == s.Discriminator && !s.Inlined {
						continue
					}
					payload[k] = x
				}
				return ValidNative(mem.Type, payload)
			}
		}
		switch d.(type) {
		case string, int64:
			return No
		}
		return Unknown // discriminator of another Go type
	}
	if s.Kind != KAny && reflect.TypeOf(v) != NativeType(s) {
		return Unknown
	}
	switch s.Kind {
	case KInt:
		x := v.(int64)
		return yes(!((s.Min != nil && x < *s.Min) || (s.Max != nil && x > *s.Max)))
	case KFloat:
		x := v.(float64)
		if math.IsNaN(x) && (s.FMin != nil || s.FMax != nil) {
			return No
		}
		return yes(!((s.FMin != nil && x < *s.FMin) || (s.FMax != nil && x > *s.FMax)))
	case KString:
		return stringConstraints(s, v.(string))
	case KBool:
		return Yes
	case KPattern:
		return yes(v.(*regexp.Regexp) != nil)
	case KIntEnum:
		for _, e := range s.EnumI {
			if e == v.(int64) {
				return Yes
			}
		}
		return No
	case KStrEnum, KTypedEnum:
		x := fmt.Sprint(v)
		for _, e := range s.EnumS {
			if e == x {
				return Yes
			}
		}
		return No
	case KAny:
		ok, _ := denoteAny(v)
		return ok
	case KList:
		rv := reflect.ValueOf(v)
		n := int64(rv.Len())
		verdict := Yes
		for i := 0; i < rv.Len(); i++ {
			switch ValidNative(s.Item, rv.Index(i).Interface()) {
			case No:
				return No
			case Unknown:
				verdict = Unknown
			}
		}
		if (s.Min != nil && n < *s.Min) || (s.Max != nil && n > *s.Max) {
			return No
		}
		return verdict
	case KMap:
		rv := reflect.ValueOf(v)
		n := int64(rv.Len())
		verdict := Yes
		for _, k := range rv.MapKeys() {
			val := rv.MapIndex(k)
			if !val.IsValid() {
				return No
			}
			a, b := ValidNative(s.Key, k.Interface()), ValidNative(s.Val, val.Interface())
			if a == No || b == No {
				return No
			}
			if a == Unknown || b == Unknown {
				verdict = Unknown
			}
		}
		if (s.Min != nil && n < *s.Min) || (s.Max != nil && n > *s.Max) {
			return No
		}
		return verdict
	}
	return Unknown
}

func yes(b bool) Tri {
	if b {
		return Yes
	}
	return No
}

// Wire is the serialized form of a valid native value (wire alphabet: int64, float64, string, bool, []any,
// map[any]any, map[string]any).
func Wire(s *Spec, v any) any {
	switch s.Kind {
	case KPattern:
		return v.(*regexp.Regexp).String()
	case KTypedEnum:
		return string(v.(MyStr))
	case KAny:
		_, c := denoteAny(v)
		return c
	case KList:
		rv := reflect.ValueOf(v)
		out := make([]any, rv.Len())
		for i := range out {
			out[i] = Wire(s.Item, rv.Index(i).Interface())
		}
		return out
	case KMap:
		rv := reflect.ValueOf(v)
		out := make(map[any]any, rv.Len())
		for _, k := range rv.MapKeys() {
			out[Wire(s.Key, k.Interface())] = Wire(s.Val, rv.MapIndex(k).Interface())
		}
		return out
	}
	return v
}

// IsWireValue checks that v is built from the wire alphabet only.
func IsWireValue(v any) bool {
	switch x := v.(type) {
	case int64, float64, string, bool:
		return true
	case []any:
		for _, e := range x {
			if !IsWireValue(e) {
				return false
			}
		}
		return true
	case map[any]any:
		for k, e := range x {
			if !IsWireValue(k) || !IsWireValue(e) {
				return false
			}
		}
		return true
	case map[string]any:
		for _, e := range x {
			if !IsWireValue(e) {
				return false
			}
		}
		return true
	}
	return false
}

var _ = schema.TypeIDAny
