package ukit

import "fmt"

// The universes are exhaustive enumerations with stated bounds, ordered simplest-first.

func optsI(vals ...int64) []*int64 {
	out := []*int64{nil}
	for _, v := range vals {
		out = append(out, I64(v))
	}
	return out
}

func optsF(vals ...float64) []*float64 {
	out := []*float64{nil}
	for _, v := range vals {
		out = append(out, F64(v))
	}
	return out
}

// LeafSpecs is U_leaf: every scalar kind x every presence combination of (min,max) over a small value
// set (including min > max) x units x patterns x enum variants.
func LeafSpecs() []*Spec {
	var out []*Spec
	for _, u := range []string{"", "sec", "bytes"} {
		for _, mn := range optsI(-1, 2) {
			for _, mx := range optsI(0, 5) {
				out = append(out, &Spec{Kind: KInt, Min: mn, Max: mx, Units: u})
			}
		}
	}
	for _, u := range []string{"", "sec"} {
		for _, mn := range optsF(-1.5, 2) {
			for _, mx := range optsF(0, 5.5) {
				out = append(out, &Spec{Kind: KFloat, FMin: mn, FMax: mx, Units: u})
			}
		}
	}
	// units without multipliers
	out = append(out, &Spec{Kind: KInt, Units: "chars"}, &Spec{Kind: KInt, Min: I64(0), Max: I64(5), Units: "chars"}, &Spec{Kind: KFloat, Units: "pct"},
		&Spec{Kind: KFloat, FMin: F64(-1.5), FMax: F64(5.5), Units: "pct"})
	for _, p := range []string{"", "^a+$"} {
		for _, mn := range optsI(0, 2) {
			for _, mx := range optsI(1, 3) {
				out = append(out, &Spec{Kind: KString, Min: mn, Max: mx, Pattern: p})
			}
		}
	}
	// a pattern that begins / ends with whitespace (part of the expression, not decoration)
	out = append(out, &Spec{Kind: KString, Pattern: "^a+ $"}, &Spec{Kind: KString, Pattern: " a|^b+$"})
	out = append(out, &Spec{Kind: KBool}, &Spec{Kind: KPattern}, &Spec{Kind: KAny})
	names := map[string]string{"1": "One", "2": "Two"}
	for _, u := range []string{"", "sec"} {
		out = append(out, &Spec{Kind: KIntEnum, EnumI: []int64{1, 2}, Units: u})
		out = append(out, &Spec{Kind: KIntEnum, EnumI: []int64{1, 2}, Units: u, EnumNames: names})
	}
	out = append(out, &Spec{Kind: KIntEnum, EnumI: []int64{-3, 0, 9223372036854775807}})
	sn := map[string]string{"a": "A", "b": "B"}
	for _, k := range []Kind{KStrEnum, KTypedEnum} {
		out = append(out, &Spec{Kind: k, EnumS: []string{"a", "b"}})
		out = append(out, &Spec{Kind: k, EnumS: []string{"a", "b"}, EnumNames: sn})
	}
	out = append(out, &Spec{Kind: KStrEnum, EnumS: []string{"", "1", "true"}})
	// enum schemas written as struct literals: nil display values for unnamed members, a partly named one
	out = append(out, &Spec{Kind: KIntEnum, EnumI: []int64{1, 2}, Literal: true},
		&Spec{Kind: KIntEnum, EnumI: []int64{1, 2}, Units: "sec", EnumNames: map[string]string{"1": "One"}, Literal: true},
		&Spec{Kind: KStrEnum, EnumS: []string{"a", "b"}, Literal: true},
		&Spec{Kind: KTypedEnum, EnumS: []string{"a", "b"}, EnumNames: map[string]string{"b": "B"}, Literal: true})
	return out
}

// RepLeaves is the reduced leaf set used inside containers: one representative per kind / feature.
func RepLeaves() []*Spec {
	return []*Spec{
		{Kind: KInt, Min: I64(0), Max: I64(5)},
		{Kind: KInt, Units: "sec"},
		{Kind: KFloat, FMin: F64(-1.5), FMax: F64(5.5)},
		{Kind: KString, Min: I64(1), Max: I64(3)},
		{Kind: KString, Pattern: "^a+$"},
		{Kind: KBool},
		{Kind: KPattern},
		{Kind: KIntEnum, EnumI: []int64{1, 2}},
		{Kind: KStrEnum, EnumS: []string{"a", "b"}},
		{Kind: KTypedEnum, EnumS: []string{"a", "b"}},
		{Kind: KAny},
		{Kind: KFloat, Units: "sec"},
	}
}

// KeySpecs are the admissible map key types.
func KeySpecs() []*Spec {
	return []*Spec{
		{Kind: KString, Min: I64(1), Max: I64(3)},
		{Kind: KInt, Min: I64(0), Max: I64(5)},
		{Kind: KStrEnum, EnumS: []string{"a", "b"}},
		{Kind: KIntEnum, EnumI: []int64{1, 2}},
	}
}

type sizeB struct{ mn, mx *int64 }

func sizeBounds() []sizeB {
	return []sizeB{{nil, nil}, {I64(1), nil}, {nil, I64(2)}, {I64(1), I64(2)}, {I64(0), I64(0)}, {I64(2), I64(1)}, {I64(2), nil}}
}

// MapObjA / MapObjB are the two map-based objects used as members and items.
func MapObjA(id string) *Spec {
	return &Spec{Kind: KObject, ID: id, Props: []Prop{
		{Name: "x", Type: &Spec{Kind: KString, Min: I64(1)}, Required: true},
		{Name: "n", Type: &Spec{Kind: KInt, Min: I64(0), Max: I64(5)}, Default: Str("3")},
	}}
}

func MapObjB(id string) *Spec {
	return &Spec{Kind: KObject, ID: id, Props: []Prop{
		{Name: "y", Type: &Spec{Kind: KInt}},
		{Name: "z", Type: &Spec{Kind: KBool}, RequiredIf: []string{"y"}},
	}}
}

// MapObjAll is a map-based object with one optional property per representative leaf type; MapObjColl has a list
// and a string-keyed map of each. They put every leaf kind inside objects, and (as one-of members) behind the
// one-of's own validation path.
func MapObjAll(id string) *Spec {
	o := &Spec{Kind: KObject, ID: id}
	for i, l := range RepLeaves() {
		if l.Kind == KTypedEnum {
			continue // kept apart (MapObjTyped): schemas with typed enums cannot describe themselves
		}
		o.Props = append(o.Props, Prop{Name: fmt.Sprintf("p%d", i), Type: l.Clone()})
	}
	return o
}

func MapObjTyped(id string) *Spec {
	te := &Spec{Kind: KTypedEnum, EnumS: []string{"a", "b"}}
	return &Spec{Kind: KObject, ID: id, Props: []Prop{
		{Name: "t", Type: te.Clone()},
		{Name: "lt", Type: &Spec{Kind: KList, Item: te.Clone(), Max: I64(2)}},
		{Name: "mt", Type: &Spec{Kind: KMap, Key: &Spec{Kind: KString, Min: I64(1)}, Val: te.Clone()}},
	}}
}

func MapObjColl(id string) *Spec {
	o := &Spec{Kind: KObject, ID: id}
	for i, l := range RepLeaves() {
		if l.Kind == KTypedEnum {
			continue
		}
		o.Props = append(o.Props, Prop{Name: fmt.Sprintf("l%d", i), Type: &Spec{Kind: KList, Item: l.Clone(), Max: I64(2)}})
		o.Props = append(o.Props, Prop{Name: fmt.Sprintf("m%d", i), Type: &Spec{Kind: KMap, Key: &Spec{Kind: KString, Min: I64(1)}, Val: l.Clone()}})
	}
	return o
}

// OneOfAllSpecs: string and int keys x inlined / not, members MapObjAll and MapObjColl.
func OneOfAllSpecs() []*Spec {
	var out []*Spec
	for _, k := range []Kind{KOneOfStr, KOneOfInt} {
		for _, inl := range []bool{false, true} {
			a, b := MapObjAll("All"), MapObjColl("Coll")
			if inl {
				a, b = withDiscriminator(a, "_type", k), withDiscriminator(b, "_type", k)
			}
			out = append(out, &Spec{Kind: k, Discriminator: "_type", Inlined: inl, Members: []Member{
				{KeyS: "a", KeyI: 1, Type: a}, {KeyS: "b", KeyI: 2, Type: b},
			}})
		}
	}
	out = append(out, &Spec{Kind: KOneOfStr, Discriminator: "_type", Members: []Member{
		{KeyS: "a", KeyI: 1, Type: MapObjTyped("Typed")}, {KeyS: "b", KeyI: 2, Type: MapObjB("B")},
	}})
	// inlined discriminators whose property in the member objects is an enum (plain, typed, integer) rather than a
	// bare string / int: what the member unserializes the field to is then not the key type itself
	for _, dt := range []*Spec{
		{Kind: KStrEnum, EnumS: []string{"a", "b"}},
		{Kind: KTypedEnum, EnumS: []string{"a", "b"}},
	} {
		a, b := MapObjA("A"), MapObjB("B")
		a.Props = append(a.Props, Prop{Name: "_type", Type: dt.Clone()})
		b.Props = append(b.Props, Prop{Name: "_type", Type: dt.Clone()})
		out = append(out, &Spec{Kind: KOneOfStr, Discriminator: "_type", Inlined: true, Members: []Member{
			{KeyS: "a", KeyI: 1, Type: a}, {KeyS: "b", KeyI: 2, Type: b},
		}})
	}
	{
		a, b := MapObjA("A"), MapObjB("B")
		dt := &Spec{Kind: KIntEnum, EnumI: []int64{1, 2}}
		a.Props = append(a.Props, Prop{Name: "_type", Type: dt.Clone()})
		b.Props = append(b.Props, Prop{Name: "_type", Type: dt.Clone()})
		out = append(out, &Spec{Kind: KOneOfInt, Discriminator: "_type", Inlined: true, Members: []Member{
			{KeyS: "a", KeyI: 1, Type: a}, {KeyS: "b", KeyI: 2, Type: b},
		}})
	}
	// a struct-mapped member under the zero value of the key type (members of native struct values are found by type,
	// not by a discriminator field)
	for _, k := range []Kind{KOneOfStr, KOneOfInt} {
		sa := ShapeSpecs()[0].Clone()
		sa.ID = "SAzero"
		out = append(out, &Spec{Kind: k, Discriminator: "kind", Members: []Member{
			{KeyS: "", KeyI: 0, Type: sa}, {KeyS: "b", KeyI: 2, Type: MapObjB("B")},
		}})
	}
	// a member under the zero value of the key type (0 / the empty string): present, not missing
	for _, k := range []Kind{KOneOfStr, KOneOfInt} {
		for _, inl := range []bool{false, true} {
			a, b := MapObjA("A"), MapObjB("B")
			if inl {
				a, b = withDiscriminator(a, "_type", k), withDiscriminator(b, "_type", k)
			}
			out = append(out, &Spec{Kind: k, Discriminator: "_type", Inlined: inl, Members: []Member{
				{KeyS: "", KeyI: 0, Type: a}, {KeyS: "b", KeyI: 2, Type: b},
			}})
		}
	}
	return out
}

func withDiscriminator(o *Spec, name string, k Kind) *Spec {
	c := o.Clone()
	t := &Spec{Kind: KString}
	if k == KOneOfInt {
		t = &Spec{Kind: KInt}
	}
	c.Props = append(c.Props, Prop{Name: name, Type: t})
	return c
}

// OneOfSpecs: string and int keys x inlined / not x member flavours.
func OneOfSpecs() []*Spec {
	var out []*Spec
	for _, k := range []Kind{KOneOfStr, KOneOfInt} {
		for _, inl := range []bool{false, true} {
			a, b := MapObjA("A"), MapObjB("B")
			sa := ShapeSpecs()[0].Clone()
			sa.ID = "SAm"
			if inl {
				a, b = withDiscriminator(a, "_type", k), withDiscriminator(b, "_type", k)
			}
			o := &Spec{Kind: k, Discriminator: "_type", Inlined: inl, Members: []Member{
				{KeyS: "a", KeyI: 1, Type: a}, {KeyS: "b", KeyI: 2, Type: b},
			}}
			out = append(out, o)
			if !inl {
				// struct-mapped member (discriminator cannot be inlined into the fixed struct menu)
				out = append(out, &Spec{Kind: k, Discriminator: "kind", Members: []Member{
					{KeyS: "a", KeyI: 1, Type: sa}, {KeyS: "b", KeyI: 2, Type: MapObjB("B")},
				}})
			}
		}
	}
	return out
}

// ScopeSpecs: references in scopes (plain, under list/map/one-of, recursive, nested scope shadowing).
func ScopeSpecs() []*Spec {
	ref := func(id string) *Spec { return &Spec{Kind: KRef, RefID: id} }
	var out []*Spec
	out = append(out, &Spec{Kind: KScope, Root: "R", Objects: []*Spec{
		{Kind: KObject, ID: "R", Props: []Prop{{Name: "child", Type: ref("C"), Required: true}, {Name: "t", Type: &Spec{Kind: KString}}}},
		MapObjA("C"),
	}})
	out = append(out, &Spec{Kind: KScope, Root: "R", Objects: []*Spec{
		{Kind: KObject, ID: "R", Props: []Prop{
			{Name: "items", Type: &Spec{Kind: KList, Item: ref("C"), Max: I64(2)}},
			{Name: "by", Type: &Spec{Kind: KMap, Key: &Spec{Kind: KString}, Val: ref("C")}},
		}},
		MapObjB("C"),
	}})
	// recursive
	out = append(out, &Spec{Kind: KScope, Root: "N", Objects: []*Spec{
		{Kind: KObject, ID: "N", Props: []Prop{{Name: "v", Type: &Spec{Kind: KInt}, Required: true}, {Name: "next", Type: ref("N")}}},
	}})
	// mutually recursive through a list
	out = append(out, &Spec{Kind: KScope, Root: "P", Objects: []*Spec{
		{Kind: KObject, ID: "P", Props: []Prop{{Name: "kids", Type: &Spec{Kind: KList, Item: ref("Q")}}}},
		{Kind: KObject, ID: "Q", Props: []Prop{{Name: "name", Type: &Spec{Kind: KString}, Required: true}, {Name: "parent", Type: ref("P")}}},
	}})
	// one-of over references
	out = append(out, &Spec{Kind: KScope, Root: "R", Objects: []*Spec{
		{Kind: KObject, ID: "R", Props: []Prop{{Name: "u", Type: &Spec{Kind: KOneOfStr, Discriminator: "_type", Members: []Member{
			{KeyS: "a", Type: ref("A")}, {KeyS: "b", Type: ref("B")}}}, Required: true}}},
		MapObjA("A"), MapObjB("B"),
	}})
	// nested scope whose object id collides with the outer one
	out = append(out, &Spec{Kind: KScope, Root: "R", Objects: []*Spec{
		{Kind: KObject, ID: "R", Props: []Prop{
			{Name: "outer", Type: ref("C")},
			{Name: "inner", Type: &Spec{Kind: KScope, Root: "I", Objects: []*Spec{
				{Kind: KObject, ID: "I", Props: []Prop{{Name: "c", Type: ref("C"), Required: true}}},
				MapObjB("C"),
			}}},
		}},
		MapObjA("C"),
	}})
	// struct-mapped root referencing a struct-mapped object with defaults
	sn := ShapeSpecs()[5].Clone() // SNest1
	sn.ID = "Root"
	sub := ShapeSpecs()[0].Clone()
	sub.ID = "SubA"
	sn.Props[0].Type = ref("SubA")
	out = append(out, &Spec{Kind: KScope, Root: "Root", Objects: []*Spec{sn, sub}})
	// chains of single-property objects that enter a reference cycle not containing the entry object
	out = append(out, &Spec{Kind: KScope, Root: "H", Objects: []*Spec{
		{Kind: KObject, ID: "H", Props: []Prop{{Name: "head", Type: ref("Nd")}}},
		{Kind: KObject, ID: "Nd", Props: []Prop{{Name: "next", Type: ref("Nd")}}},
	}})
	out = append(out, &Spec{Kind: KScope, Root: "R3", Objects: []*Spec{
		{Kind: KObject, ID: "R3", Props: []Prop{{Name: "x", Type: &Spec{Kind: KList, Item: ref("Pa")}}}},
		{Kind: KObject, ID: "Pa", Props: []Prop{{Name: "b", Type: ref("Pb")}}},
		{Kind: KObject, ID: "Pb", Props: []Prop{{Name: "a", Type: ref("Pa")}}},
	}})
	// single-property object referring to itself (the lone-value shorthand must not loop)
	out = append(out, &Spec{Kind: KScope, Root: "L", Objects: []*Spec{
		{Kind: KObject, ID: "L", Props: []Prop{{Name: "next", Type: ref("L")}}},
	}})
	out = append(out, SameIDChainSpecs()...)
	return out
}

// SameIDChainSpecs: finite chains of single-property objects (the lone-value shorthand passes through all of them).
func SameIDChainSpecs() []*Spec {
	ref := func(id string) *Spec { return &Spec{Kind: KRef, RefID: id} }
	// chains of DIFFERENT single-property objects that carry the same id (ids are unique within a scope only): an
	// object used directly as a property type, and an embedded scope whose root is named like the enclosing root
	out := []*Spec{}
	out = append(out, &Spec{Kind: KObject, ID: "S", Props: []Prop{{Name: "item", Type: &Spec{Kind: KObject, ID: "S", Props: []Prop{
		{Name: "value", Type: &Spec{Kind: KInt, Min: I64(0)}, Required: true}}}, Required: true}}})
	out = append(out, &Spec{Kind: KScope, Root: "root", Objects: []*Spec{
		{Kind: KObject, ID: "root", Props: []Prop{{Name: "inner", Type: &Spec{Kind: KScope, Root: "root", Objects: []*Spec{
			{Kind: KObject, ID: "root", Props: []Prop{{Name: "leaf", Type: ref("leaf")}}},
			{Kind: KObject, ID: "leaf", Props: []Prop{{Name: "value", Type: &Spec{Kind: KString, Min: I64(1)}, Required: true}}},
		}}}}},
	}})
	return out
}

// Depth1 is U_1: containers over the reduced leaf set, objects, one-ofs, scopes.
func Depth1() []*Spec {
	var out []*Spec
	for _, it := range RepLeaves() {
		for _, b := range sizeBounds() {
			out = append(out, &Spec{Kind: KList, Item: it.Clone(), Min: b.mn, Max: b.mx})
		}
	}
	vals := RepLeaves()
	for _, k := range KeySpecs() {
		for vi, v := range vals {
			for bi, b := range sizeBounds() {
				if bi != 0 && bi != 3 && !(vi == 0) {
					continue // all size bounds only with the first value type
				}
				out = append(out, &Spec{Kind: KMap, Key: k.Clone(), Val: v.Clone(), Min: b.mn, Max: b.mx})
			}
		}
	}
	out = append(out, MapObjA("A"), MapObjB("B"))
	out = append(out, &Spec{Kind: KObject, ID: "One", Props: []Prop{{Name: "only", Type: &Spec{Kind: KInt, Min: I64(0)}, Required: true}}})
	out = append(out, &Spec{Kind: KObject, ID: "Dis", Props: []Prop{{Name: "on", Type: &Spec{Kind: KString}}, {Name: "off", Type: &Spec{Kind: KString}, Disabled: true}}})
	out = append(out, &Spec{Kind: KObject, ID: "Dis2", Props: []Prop{
		{Name: "on", Type: &Spec{Kind: KString}},
		{Name: "off", Type: &Spec{Kind: KString}, Disabled: true, DisabledNoReason: true},
		{Name: "offd", Type: &Spec{Kind: KString}, Disabled: true, DisabledNoReason: true, Default: Str("\"x\"")},
	}})
	// disabled by Disable() on the finished object's property (a mutator; whatever the object computed at construction
	// time must not make it differ from the same schema rebuilt from its description)
	out = append(out, &Spec{Kind: KObject, ID: "Dis3", Props: []Prop{
		{Name: "on", Type: &Spec{Kind: KString}},
		{Name: "offd", Type: &Spec{Kind: KString}, Disabled: true, DisabledLate: true, Default: Str("\"x\"")},
	}})
	out = append(out, &Spec{Kind: KObject, ID: "Dis4", Props: []Prop{
		{Name: "on", Type: &Spec{Kind: KString}},
		{Name: "off", Type: &Spec{Kind: KInt}, Disabled: true, DisabledLate: true},
	}})
	// any-typed properties whose defaults are collections (the decoded default is cached in the schema)
	out = append(out, &Spec{Kind: KObject, ID: "AnyDef", Props: []Prop{
		{Name: "l", Type: &Spec{Kind: KAny}, Default: Str("[1, 2]")},
		{Name: "m", Type: &Spec{Kind: KAny}, Default: Str("{\"k\": [\"x\"], \"n\": {\"d\": 1}}")},
		{Name: "s", Type: &Spec{Kind: KString}},
	}})
	out = append(out, &Spec{Kind: KObject, ID: "Empty"})
	out = append(out, &Spec{Kind: KObject, ID: "Enums", Props: []Prop{
		{Name: "ei", Type: &Spec{Kind: KIntEnum, EnumI: []int64{1, 2}}, Required: true},
		{Name: "es", Type: &Spec{Kind: KStrEnum, EnumS: []string{"a", "b"}}},
		{Name: "le", Type: &Spec{Kind: KList, Item: &Spec{Kind: KList, Item: &Spec{Kind: KIntEnum, EnumI: []int64{1, 2}}}}},
	}})
	out = append(out, ShapeSpecs()...)
	out = append(out, OneOfSpecs()...)
	out = append(out, ScopeSpecs()...)
	out = append(out, MapObjAll("All"), MapObjColl("Coll"), MapObjTyped("Typed"))
	// presence rules that name a defaulted property: the default counts as present whatever is visited first
	out = append(out, &Spec{Kind: KObject, ID: "Dep", Props: []Prop{
		{Name: "a", Type: &Spec{Kind: KString}, Default: Str("\"x\"")},
		{Name: "b", Type: &Spec{Kind: KString}, Conflicts: []string{"a"}},
		{Name: "c", Type: &Spec{Kind: KInt}, RequiredIf: []string{"a"}},
	}}, &Spec{Kind: KObject, ID: "Dep2", Props: []Prop{
		{Name: "lvl", Type: &Spec{Kind: KString}, Default: Str("\"info\"")},
		{Name: "quiet", Type: &Spec{Kind: KBool}, Conflicts: []string{"lvl"}},
		{Name: "user", Type: &Spec{Kind: KString}, RequiredIfNot: []string{"lvl"}},
	}})
	out = append(out, RecursiveShapeSpecs()...) // struct-mapped objects that reach themselves through pointer fields
	out = append(out, &Spec{Kind: KObject, ID: "Alt", Props: []Prop{
		{Name: "token", Type: &Spec{Kind: KString, Min: I64(1)}, RequiredIfNot: []string{"user", "cert"}},
		{Name: "user", Type: &Spec{Kind: KString}},
		{Name: "cert", Type: &Spec{Kind: KString}},
	}})
	out = append(out, DeepShapeSpec()) // three levels of by-value struct nesting with defaults at every level
	out = append(out, OneOfAllSpecs()...)
	return out
}

// Depth2 is U_2: containers of the depth-1 composites.
func Depth2(thorough bool) []*Spec {
	var out []*Spec
	var inner []*Spec
	inner = append(inner,
		&Spec{Kind: KList, Item: &Spec{Kind: KInt, Min: I64(0), Max: I64(5)}, Max: I64(2)},
		&Spec{Kind: KMap, Key: &Spec{Kind: KString, Min: I64(1)}, Val: &Spec{Kind: KInt}},
		&Spec{Kind: KMap, Key: &Spec{Kind: KInt}, Val: &Spec{Kind: KString}},
		MapObjA("A"), MapObjB("B"),
	)
	inner = append(inner, ShapeSpecs()[0], ShapeSpecs()[2], ShapeSpecs()[4], ShapeSpecs()[8])
	inner = append(inner, OneOfSpecs()...)
	for _, in := range inner {
		out = append(out, &Spec{Kind: KList, Item: in.Clone(), Max: I64(2)})
		out = append(out, &Spec{Kind: KMap, Key: &Spec{Kind: KString, Min: I64(1)}, Val: in.Clone()})
		out = append(out, &Spec{Kind: KObject, ID: "Wrap", Props: []Prop{
			{Name: "inner", Type: in.Clone(), Required: true},
			{Name: "tag", Type: &Spec{Kind: KString}, Default: Str("\"t\"")},
		}})
	}
	if thorough {
		// every depth-1 composite (not only the representatives above) inside each of the three containers
		used := map[string]bool{}
		for _, in := range inner {
			used[in.String()] = true
		}
		for _, in := range Depth1() {
			if used[in.String()] {
				continue
			}
			used[in.String()] = true
			out = append(out, wrap3(in, "Wrap")...)
		}
		// depth 3: every depth-2 spec of the quick tier inside each of the three containers
		for _, in := range Depth2(false) {
			out = append(out, wrap3(in, "Wrap3")...)
		}
		// depth 3: the combinations the properties name
		oo := OneOfSpecs()
		for _, o := range oo {
			out = append(out, &Spec{Kind: KList, Item: &Spec{Kind: KMap, Key: &Spec{Kind: KString}, Val: o.Clone()}, Max: I64(2)})
		}
		out = append(out, &Spec{Kind: KMap, Key: &Spec{Kind: KInt}, Val: &Spec{Kind: KList, Item: ShapeSpecs()[0], Max: I64(2)}})
		out = append(out, &Spec{Kind: KList, Item: &Spec{Kind: KList, Item: &Spec{Kind: KList, Item: &Spec{Kind: KFloat, Units: "sec"}}}})
		out = append(out, &Spec{Kind: KObject, ID: "Deep", Props: []Prop{{Name: "l", Type: &Spec{Kind: KList, Item: ShapeSpecs()[5]}}}})
	}
	return out
}

// wrap3 puts a spec into a list, a string-keyed map and a two-property object.
func wrap3(in *Spec, id string) []*Spec {
	return []*Spec{
		{Kind: KList, Item: in.Clone(), Max: I64(2)},
		{Kind: KMap, Key: &Spec{Kind: KString, Min: I64(1)}, Val: in.Clone()},
		{Kind: KObject, ID: id, Props: []Prop{
			{Name: "inner", Type: in.Clone(), Required: true},
			{Name: "tag", Type: &Spec{Kind: KString}, Default: Str("\"t\"")},
		}},
	}
}

// Universe returns U_d.
func Universe(depth int, thorough bool) []*Spec {
	out := LeafSpecs()
	if depth >= 1 {
		out = append(out, Depth1()...)
	}
	if depth >= 2 {
		out = append(out, Depth2(thorough)...)
	}
	return out
}

// WrapScope puts a spec under a one-property root object of a scope (for operations that need scopes).
func WrapScope(s *Spec) *Spec {
	if s.Kind == KScope {
		return s
	}
	if s.Kind == KObject {
		return &Spec{Kind: KScope, Root: s.ID, Objects: []*Spec{s}}
	}
	return &Spec{Kind: KScope, Root: "WrapRoot", Objects: []*Spec{{Kind: KObject, ID: "WrapRoot", Props: []Prop{{Name: "v", Type: s, Required: true}}}}}
}

var _ = fmt.Sprint
