package ukit

import (
	"fmt"
	"math"
	"reflect"
	"regexp"
	"sort"
	"strings"
	"unsafe"
)

// DeepDump renders the complete reachable state of a value, including unexported fields, with pointer
// identity replaced by first-visit numbers (so cyclic schema graphs terminate and two isomorphic graphs
// dump identically). Regular expressions are dumped by source, types by name, functions by "func".
func DeepDump(v any) string {
	d := &dumper{seen: map[uintptr]int{}}
	d.dump(reflect.ValueOf(v), 0)
	return d.b.String()
}

type dumper struct {
	b    strings.Builder
	seen map[uintptr]int
}

var reflectTypeType = reflect.TypeOf((*reflect.Type)(nil)).Elem()

func (d *dumper) dump(v reflect.Value, depth int) {
	if !v.IsValid() {
		d.b.WriteString("nil")
		return
	}
	if depth > 400 {
		d.b.WriteString("<deep>")
		return
	}
	t := v.Type()
	if t == regexpType {
		if v.IsNil() {
			d.b.WriteString("re(nil)")
			return
		}
		re := (*regexp.Regexp)(unsafe.Pointer(v.Pointer()))
		fmt.Fprintf(&d.b, "re(%q)", re.String())
		return
	}
	if t.Implements(reflectTypeType) && t.Kind() != reflect.Interface {
		d.b.WriteString("type")
		return
	}
	switch v.Kind() {
	case reflect.Interface:
		if v.IsNil() {
			d.b.WriteString("nil")
			return
		}
		e := v.Elem()
		if e.Type().Implements(reflectTypeType) {
			// a reflect.Type held in an interface: identify by name
			if e.CanInterface() {
				fmt.Fprintf(&d.b, "type(%s)", e.Interface().(reflect.Type).String())
			} else {
				d.b.WriteString("type(?)")
			}
			return
		}
		d.dump(e, depth+1)
	case reflect.Pointer:
		if v.IsNil() {
			d.b.WriteString("nil")
			return
		}
		p := v.Pointer()
		if id, ok := d.seen[p]; ok {
			fmt.Fprintf(&d.b, "^%d", id)
			return
		}
		d.seen[p] = len(d.seen) + 1
		fmt.Fprintf(&d.b, "&%d:", len(d.seen))
		d.dump(v.Elem(), depth+1)
	case reflect.Struct:
		if t.String() == "reflect.StructField" {
			fmt.Fprintf(&d.b, "field(%s)", v.FieldByName("Name").String())
			return
		}
		fmt.Fprintf(&d.b, "%s{", t.String())
		for i := 0; i < v.NumField(); i++ {
			fmt.Fprintf(&d.b, "%s=", t.Field(i).Name)
			d.dump(v.Field(i), depth+1)
			d.b.WriteString(";")
		}
		d.b.WriteString("}")
	case reflect.Slice:
		if v.IsNil() {
			d.b.WriteString("nilslice")
			return
		}
		fallthrough
	case reflect.Array:
		d.b.WriteString("[")
		for i := 0; i < v.Len(); i++ {
			d.dump(v.Index(i), depth+1)
			d.b.WriteString(",")
		}
		d.b.WriteString("]")
	case reflect.Map:
		if v.IsNil() {
			d.b.WriteString("nilmap")
			return
		}
		p := v.Pointer()
		if id, ok := d.seen[p]; ok {
			fmt.Fprintf(&d.b, "^%d", id)
			return
		}
		d.seen[p] = len(d.seen) + 1
		fmt.Fprintf(&d.b, "map&%d{", len(d.seen))
		type kv struct {
			k string
			v reflect.Value
		}
		var kvs []kv
		iter := v.MapRange()
		for iter.Next() {
			sub := &dumper{seen: map[uintptr]int{}}
			sub.dump(iter.Key(), depth+1)
			kvs = append(kvs, kv{sub.b.String(), iter.Value()})
		}
		sort.Slice(kvs, func(i, j int) bool { return kvs[i].k < kvs[j].k })
		for _, e := range kvs {
			d.b.WriteString(e.k)
			d.b.WriteString(":")
			d.dump(e.v, depth+1)
			d.b.WriteString(",")
		}
		d.b.WriteString("}")
	case reflect.Func:
		if v.IsNil() {
			d.b.WriteString("nilfunc")
		} else {
			d.b.WriteString("func")
		}
	case reflect.Chan, reflect.UnsafePointer:
		d.b.WriteString("chan/ptr")
	case reflect.String:
		fmt.Fprintf(&d.b, "%q", v.String())
	case reflect.Bool:
		fmt.Fprintf(&d.b, "%v", v.Bool())
	case reflect.Int, reflect.Int8, reflect.Int16, reflect.Int32, reflect.Int64:
		fmt.Fprintf(&d.b, "%d", v.Int())
	case reflect.Uint, reflect.Uint8, reflect.Uint16, reflect.Uint32, reflect.Uint64, reflect.Uintptr:
		fmt.Fprintf(&d.b, "%d", v.Uint())
	case reflect.Float32, reflect.Float64:
		fmt.Fprintf(&d.b, "f%x", math.Float64bits(v.Float()))
	default:
		fmt.Fprintf(&d.b, "?%s", v.Kind())
	}
}
