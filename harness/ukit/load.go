package ukit

import (
	"fmt"

	"go.flow.arcalot.io/pluginsdk/schema"
)

// LoadScope returns the schema of a scope spec without any New* constructor having run for its parts: the
// scope is built, described, and the description is loaded through the meta-schema (DescribeScope().Unserialize)
// and linked with ApplySelf - the public route the repository's own constructor-bypass test takes. Lazily
// computed state of such a schema (defaults, field caches) is still unset at its first use.
func LoadScope(spec *Spec) (sch *schema.ScopeSchema, err error) {
	pan, val, _ := Call(func() {
		var d any
		d, err = BuildScope(spec).SelfSerialize()
		if err != nil {
			return
		}
		var l any
		l, err = schema.DescribeScope().Unserialize(d)
		if err != nil {
			return
		}
		sch = l.(*schema.ScopeSchema)
		sch.ApplySelf()
	})
	if pan {
		return nil, fmt.Errorf("panic: %v", val)
	}
	return sch, err
}

// LoadType is LoadScope for any spec: the spec is wrapped into a scope (WrapScope) and the loaded schema at the
// spec's position is returned.
func LoadType(spec *Spec) (schema.Type, error) {
	w := WrapScope(spec)
	sch, err := LoadScope(w)
	if err != nil {
		return nil, err
	}
	if spec.Kind == KScope || spec.Kind == KObject {
		return sch, nil
	}
	root := sch.Objects()[w.Root]
	if root == nil || root.Properties()["v"] == nil {
		return nil, fmt.Errorf("loaded scope lost its wrapper")
	}
	return root.Properties()["v"].Type(), nil
}

// PureMapBased reports whether a spec has no struct-mapped objects and no typed enums (schemas loaded from a
// description are map-based, so only then do they denote the same values as the built ones).
func PureMapBased(s *Spec) bool {
	pure := true
	s.Walk(func(n *Spec) {
		if n.Struct != "" || n.Kind == KTypedEnum || n.Literal {
			pure = false
		}
	})
	return pure
}
