package ukit

import (
	"fmt"
	"math"
	"reflect"
	"regexp"
	"runtime/debug"
	"sort"
	"strings"
)

// Equiv is structural equality that treats NaN as equal to NaN and compares regular expressions by
// their source. Types must match exactly.
func Equiv(a, b any) bool {
	return equiv(reflect.ValueOf(a), reflect.ValueOf(b), 0)
}

var regexpType = reflect.TypeOf((*regexp.Regexp)(nil))

func equiv(a, b reflect.Value, depth int) bool {
	if !a.IsValid() || !b.IsValid() {
		return a.IsValid() == b.IsValid()
	}
	if a.Type() != b.Type() {
		return false
	}
	if depth > 200 {
		return true
	}
	if a.Type() == regexpType {
		if a.IsNil() || b.IsNil() {
			return a.IsNil() == b.IsNil()
		}
		return a.Interface().(*regexp.Regexp).String() == b.Interface().(*regexp.Regexp).String()
	}
	switch a.Kind() {
	case reflect.Float32, reflect.Float64:
		x, y := a.Float(), b.Float()
		return x == y || (math.IsNaN(x) && math.IsNaN(y))
	case reflect.Interface, reflect.Pointer:
		if a.IsNil() || b.IsNil() {
			return a.IsNil() == b.IsNil()
		}
		return equiv(a.Elem(), b.Elem(), depth+1)
	case reflect.Slice:
		if a.IsNil() != b.IsNil() {
			// nil and empty slices are the same list
			if a.Len() == 0 && b.Len() == 0 {
				return true
			}
			return false
		}
		fallthrough
	case reflect.Array:
		if a.Len() != b.Len() {
			return false
		}
		for i := 0; i < a.Len(); i++ {
			if !equiv(a.Index(i), b.Index(i), depth+1) {
				return false
			}
		}
		return true
	case reflect.Map:
		if a.Len() != b.Len() {
			return false
		}
		for _, k := range a.MapKeys() {
			bv := b.MapIndex(k)
			if !bv.IsValid() || !equiv(a.MapIndex(k), bv, depth+1) {
				return false
			}
		}
		return true
	case reflect.Struct:
		for i := 0; i < a.NumField(); i++ {
			if !equiv(a.Field(i), b.Field(i), depth+1) {
				return false
			}
		}
		return true
	case reflect.Func, reflect.Chan, reflect.UnsafePointer:
		return a.Pointer() == b.Pointer()
	default:
		if a.CanInterface() && b.CanInterface() {
			return a.Interface() == b.Interface()
		}
		return fmt.Sprint(a) == fmt.Sprint(b)
	}
}

// Show renders a value with its types, deterministically (maps sorted), bounded in size.
func Show(v any) string {
	var b strings.Builder
	show(&b, reflect.ValueOf(v), 0)
	s := b.String()
	if len(s) > 400 {
		s = s[:400] + "..."
	}
	return s
}

func show(b *strings.Builder, v reflect.Value, depth int) {
	if b.Len() > 600 {
		return
	}
	if !v.IsValid() {
		b.WriteString("nil")
		return
	}
	if depth > 12 {
		b.WriteString("...")
		return
	}
	if v.Type() == regexpType {
		if v.IsNil() {
			b.WriteString("(*Regexp)(nil)")
		} else {
			fmt.Fprintf(b, "regexp(%q)", v.Interface().(*regexp.Regexp).String())
		}
		return
	}
	switch v.Kind() {
	case reflect.Interface:
		if v.IsNil() {
			b.WriteString("nil")
			return
		}
		show(b, v.Elem(), depth)
	case reflect.Pointer:
		if v.IsNil() {
			fmt.Fprintf(b, "(%s)(nil)", v.Type())
			return
		}
		b.WriteString("&")
		show(b, v.Elem(), depth+1)
	case reflect.Slice, reflect.Array:
		if v.Kind() == reflect.Slice && v.IsNil() {
			fmt.Fprintf(b, "%s(nil)", v.Type())
			return
		}
		fmt.Fprintf(b, "%s[", typeName(v.Type()))
		for i := 0; i < v.Len(); i++ {
			if i > 0 {
				b.WriteString(", ")
			}
			if i >= 8 {
				fmt.Fprintf(b, "... %d more", v.Len()-i)
				break
			}
			show(b, v.Index(i), depth+1)
		}
		b.WriteString("]")
	case reflect.Map:
		if v.IsNil() {
			fmt.Fprintf(b, "%s(nil)", v.Type())
			return
		}
		keys := v.MapKeys()
		sort.Slice(keys, func(i, j int) bool {
			return fmt.Sprintf("%T%v", iface(keys[i]), keys[i]) < fmt.Sprintf("%T%v", iface(keys[j]), keys[j])
		})
		fmt.Fprintf(b, "%s{", typeName(v.Type()))
		for i, k := range keys {
			if i > 0 {
				b.WriteString(", ")
			}
			if i >= 8 {
				fmt.Fprintf(b, "... %d more", len(keys)-i)
				break
			}
			show(b, k, depth+1)
			b.WriteString(": ")
			show(b, v.MapIndex(k), depth+1)
		}
		b.WriteString("}")
	case reflect.Struct:
		fmt.Fprintf(b, "%s{", typeName(v.Type()))
		for i := 0; i < v.NumField(); i++ {
			if i > 0 {
				b.WriteString(", ")
			}
			fmt.Fprintf(b, "%s: ", v.Type().Field(i).Name)
			show(b, v.Field(i), depth+1)
		}
		b.WriteString("}")
	case reflect.String:
		fmt.Fprintf(b, "%s(%q)", typeName(v.Type()), v.String())
	case reflect.Func, reflect.Chan:
		fmt.Fprintf(b, "%s(...)", v.Type())
	default:
		if v.CanInterface() {
			fmt.Fprintf(b, "%s(%v)", typeName(v.Type()), v.Interface())
		} else {
			fmt.Fprintf(b, "%s(%v)", typeName(v.Type()), v)
		}
	}
}

func iface(v reflect.Value) any {
	if v.CanInterface() {
		return v.Interface()
	}
	return nil
}

func typeName(t reflect.Type) string {
	s := t.String()
	s = strings.ReplaceAll(s, "interface {}", "any")
	s = strings.ReplaceAll(s, "ukit.", "")
	return s
}

// Snapshot is a complete, deterministic dump of a value (used to detect argument mutation).
func Snapshot(v any) string {
	var b strings.Builder
	snap(&b, reflect.ValueOf(v), 0)
	return b.String()
}

func snap(b *strings.Builder, v reflect.Value, depth int) {
	if !v.IsValid() {
		b.WriteString("nil")
		return
	}
	if depth > 60 {
		b.WriteString("...")
		return
	}
	if v.Type() == regexpType {
		if v.IsNil() {
			b.WriteString("re(nil)")
		} else {
			fmt.Fprintf(b, "re(%q)", v.Interface().(*regexp.Regexp).String())
		}
		return
	}
	switch v.Kind() {
	case reflect.Interface:
		if v.IsNil() {
			b.WriteString("nil")
			return
		}
		snap(b, v.Elem(), depth)
	case reflect.Pointer:
		if v.IsNil() {
			fmt.Fprintf(b, "(%s)nil", v.Type())
			return
		}
		b.WriteString("&")
		snap(b, v.Elem(), depth+1)
	case reflect.Slice, reflect.Array:
		fmt.Fprintf(b, "%s[", v.Type())
		if v.Kind() == reflect.Slice && v.IsNil() {
			b.WriteString("nil")
		}
		for i := 0; i < v.Len(); i++ {
			snap(b, v.Index(i), depth+1)
			b.WriteString(",")
		}
		b.WriteString("]")
	case reflect.Map:
		fmt.Fprintf(b, "%s{", v.Type())
		if v.IsNil() {
			b.WriteString("nil")
		}
		keys := v.MapKeys()
		ks := make([]string, len(keys))
		idx := make([]int, len(keys))
		for i, k := range keys {
			var kb strings.Builder
			snap(&kb, k, depth+1)
			ks[i] = kb.String()
			idx[i] = i
		}
		sort.Slice(idx, func(i, j int) bool { return ks[idx[i]] < ks[idx[j]] })
		for _, i := range idx {
			b.WriteString(ks[i])
			b.WriteString(":")
			snap(b, v.MapIndex(keys[i]), depth+1)
			b.WriteString(",")
		}
		b.WriteString("}")
	case reflect.Struct:
		fmt.Fprintf(b, "%s{", v.Type())
		for i := 0; i < v.NumField(); i++ {
			snap(b, v.Field(i), depth+1)
			b.WriteString(",")
		}
		b.WriteString("}")
	case reflect.Float32, reflect.Float64:
		fmt.Fprintf(b, "%s(%x)", v.Type(), math.Float64bits(v.Float()))
	case reflect.Func, reflect.Chan, reflect.UnsafePointer:
		fmt.Fprintf(b, "%s@%x", v.Type(), v.Pointer())
	case reflect.String:
		fmt.Fprintf(b, "%s(%q)", v.Type(), v.String())
	default:
		fmt.Fprintf(b, "%s(%v)", v.Type(), v)
	}
}

// Call runs f and converts a panic into (panicked=true, value, stack-site).
func Call(f func()) (panicked bool, val any, stack string) {
	defer func() {
		if r := recover(); r != nil {
			panicked, val = true, r
			stack = stackOf()
		}
	}()
	f()
	return
}

func stackOf() string {
	return string(debug.Stack())
}
