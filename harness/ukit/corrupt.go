package ukit

import (
	"fmt"
	"reflect"
	"regexp"
	"sort"
	"strings"
)

// Corruption is a valid value with exactly one offending element.
type Corruption struct {
	Value any
	Path  []string // property names, list indices and map keys from the root to the element
	Alt   []string // an equally acceptable path (undeclared key: the enclosing object)
	Kind  string
}

// leafCorruptions returns single bad values for a leaf spec: (value, kind).
func leafCorruptions(s *Spec, native bool) [][2]any {
	var out [][2]any
	add := func(v any, kind string) { out = append(out, [2]any{v, kind}) }
	switch s.Kind {
	case KInt:
		if !native {
			add([]any{}, "wrong type")
			add("not a number", "wrong type")
			add(1.5, "wrong type")
		}
		if s.Min != nil {
			add(*s.Min-1, "below min")
		}
		if s.Max != nil {
			add(*s.Max+1, "above max")
		}
	case KFloat:
		if !native {
			add([]any{}, "wrong type")
			add("not a number", "wrong type")
		}
		if s.FMin != nil {
			add(*s.FMin-1, "below min")
		}
		if s.FMax != nil {
			add(*s.FMax+1, "above max")
		}
	case KString:
		if !native {
			add([]any{}, "wrong type")
			add(map[string]any{}, "wrong type")
		}
		if s.Min != nil && *s.Min > 0 {
			add(strings.Repeat("a", int(*s.Min-1)), "below min")
		}
		if s.Max != nil {
			add(strings.Repeat("a", int(*s.Max+1)), "above max")
		}
		if s.Pattern != "" {
			for _, c := range []string{"b", "zz", "a b"} {
				if !regexp.MustCompile(s.Pattern).MatchString(c) && (s.Min == nil || int64(len(c)) >= *s.Min) && (s.Max == nil || int64(len(c)) <= *s.Max) {
					add(c, "pattern miss")
					break
				}
			}
		}
	case KBool:
		if !native {
			add("maybe", "wrong type")
			add([]any{}, "wrong type")
			add(int64(7), "wrong type")
		}
	case KPattern:
		if !native {
			add("(", "wrong type")
		} else {
			add((*regexp.Regexp)(nil), "missing pattern")
		}
	case KIntEnum:
		if !native {
			add("not a number", "wrong type")
		}
		add(int64(424242), "not in enum")
	case KStrEnum:
		if !native {
			add([]any{}, "wrong type")
		}
		add("not-a-member", "not in enum")
	case KTypedEnum:
		if native {
			add(MyStr("not-a-member"), "not in enum")
		} else {
			add([]any{}, "wrong type")
			add("not-a-member", "not in enum")
		}
	}
	return out
}

func isLeaf(s *Spec) bool {
	switch s.Kind {
	case KInt, KFloat, KString, KBool, KPattern, KIntEnum, KStrEnum, KTypedEnum:
		return true
	}
	return false
}

func resolve(s *Spec) *Spec {
	for s != nil {
		switch s.Kind {
		case KRef:
			s = s.resolved
		case KScope:
			Link(s)
			s = s.RootObject()
		default:
			return s
		}
	}
	return nil
}

func pathKey(k any) string { return fmt.Sprint(k) }

// Corruptions enumerates every single corruption of a valid raw value tree.
func Corruptions(spec *Spec, valid any) []Corruption {
	var out []Corruption
	var walk func(s *Spec, v any, path []string, rebuild func(with any) any)
	cp := func(p []string, extra ...string) []string { return append(append([]string{}, p...), extra...) }
	walk = func(s *Spec, v any, path []string, rebuild func(with any) any) {
		s = resolve(s)
		if s == nil {
			return
		}
		if isLeaf(s) {
			for _, c := range leafCorruptions(s, false) {
				out = append(out, Corruption{Value: rebuild(c[0]), Path: cp(path), Kind: c[1].(string)})
			}
			return
		}
		switch s.Kind {
		case KList:
			l, ok := v.([]any)
			if !ok {
				return
			}
			if s.Max != nil && len(l) > 0 {
				long := append([]any{}, l...)
				for int64(len(long)) <= *s.Max {
					long = append(long, l[0])
				}
				out = append(out, Corruption{Value: rebuild(long), Path: cp(path), Kind: "above max"})
			}
			if s.Min != nil && *s.Min > 0 {
				out = append(out, Corruption{Value: rebuild(l[:*s.Min-1]), Path: cp(path), Kind: "below min"})
			}
			out = append(out, Corruption{Value: rebuild("not a list"), Path: cp(path), Kind: "wrong type"})
			for i := range l {
				i := i
				walk(s.Item, l[i], cp(path, fmt.Sprint(i)), func(with any) any {
					n := append([]any{}, l...)
					n[i] = with
					return rebuild(n)
				})
			}
		case KMap:
			m, ok := v.(map[any]any)
			if !ok {
				return
			}
			out = append(out, Corruption{Value: rebuild([]any{}), Path: cp(path), Kind: "wrong type"})
			for _, k := range sortedAnyKeys(m) {
				k := k
				walk(s.Val, m[k], cp(path, pathKey(k)), func(with any) any {
					n := map[any]any{}
					for a, b := range m {
						n[a] = b
					}
					n[k] = with
					return rebuild(n)
				})
				// the key itself corrupted
				ks := resolve(s.Key)
				for _, c := range leafCorruptions(ks, false) {
					if !hashable(c[0]) {
						continue
					}
					n := map[any]any{}
					for a, b := range m {
						if a != k {
							n[a] = b
						}
					}
					n[c[0]] = m[k]
					out = append(out, Corruption{Value: rebuild(n), Path: cp(path, pathKey(c[0])), Kind: "key: " + c[1].(string)})
				}
			}
		case KObject:
			m, ok := v.(map[string]any)
			if !ok {
				if len(s.Props) == 1 {
					// lone-value shorthand for the single property: the element's path still names the property
					walk(s.Props[0].Type, v, cp(path, s.Props[0].Name), rebuild)
				}
				return
			}
			if len(s.Props) != 1 { // for a one-property object a lone value is legal shorthand, not a wrong type
				out = append(out, Corruption{Value: rebuild([]any{"x"}), Path: cp(path), Kind: "wrong type"})
			}
			extra := map[string]any{"undeclared_key": "x"}
			for a, b := range m {
				extra[a] = b
			}
			out = append(out, Corruption{Value: rebuild(extra), Path: cp(path, "undeclared_key"), Alt: cp(path), Kind: "extra key"})
			for i := range s.Props {
				p := &s.Props[i]
				if _, set := m[p.Name]; set {
					name := p.Name
					walk(p.Type, m[name], cp(path, name), func(with any) any {
						n := map[string]any{}
						for a, b := range m {
							n[a] = b
						}
						n[name] = with
						return rebuild(n)
					})
					if p.Required && p.Default == nil {
						n := map[string]any{}
						for a, b := range m {
							if a != name {
								n[a] = b
							}
						}
						out = append(out, Corruption{Value: rebuild(n), Path: cp(path, name), Kind: "missing required"})
					}
					// required_if: the property removed while a property it depends on stays - the property is what is missing
					// (only if no other rule names it, so that nothing else becomes invalid)
					if len(p.RequiredIf) > 0 && p.Default == nil && !p.Required {
						triggered := false
						for _, r := range p.RequiredIf {
							if _, has := m[r]; has {
								triggered = true
							}
						}
						clean := true
						for j := range s.Props {
							for _, r := range s.Props[j].RequiredIfNot {
								if r == name {
									clean = false
								}
							}
						}
						if triggered && clean {
							n := map[string]any{}
							for a, b := range m {
								if a != name {
									n[a] = b
								}
							}
							out = append(out, Corruption{Value: rebuild(n), Path: cp(path, name), Kind: "missing required-if"})
						}
					}
					// conflicts: a property this one conflicts with is added (with a valid value); the error may name either
					// of the two. Only if the added property upsets nothing else.
					for _, other := range p.Conflicts {
						q := s.Prop(other)
						if q == nil || q.Disabled {
							continue
						}
						if _, has := m[other]; has {
							continue
						}
						vals := ValidValues(q.Type, 1)
						if len(vals) == 0 {
							continue
						}
						clean := true
						for j := range s.Props {
							r := &s.Props[j]
							if r.Name == name || r.Name == other {
								continue
							}
							_, rSet := m[r.Name]
							for _, c := range r.Conflicts {
								if c == other && rSet {
									clean = false
								}
							}
							for _, c := range q.Conflicts {
								if c == r.Name && rSet {
									clean = false
								}
							}
							for _, c := range r.RequiredIf {
								if c == other && !rSet && r.Default == nil {
									clean = false
								}
							}
						}
						if clean {
							n := map[string]any{}
							for a, b := range m {
								n[a] = b
							}
							n[other] = vals[0]
							out = append(out, Corruption{Value: rebuild(n), Path: cp(path, name), Alt: cp(path, other), Kind: "conflicting property"})
						}
					}
					// required_if_not: the property and every alternative removed - the property is what is missing.
					// (Only if nothing else then becomes invalid: no other property's rule may name what was removed.)
					if len(p.RequiredIfNot) > 0 && p.Default == nil {
						removed := map[string]bool{name: true}
						for _, alt := range p.RequiredIfNot {
							removed[alt] = true
						}
						clean := true
						for j := range s.Props {
							q := &s.Props[j]
							if removed[q.Name] {
								if q.Name != name && (q.Required || q.Default != nil) {
									clean = false // removing a required alternative is a fault of its own; a defaulted one comes back
								}
								continue
							}
							for _, r := range append(append([]string{}, q.RequiredIfNot...), q.RequiredIf...) {
								if removed[r] {
									clean = false
								}
							}
						}
						if clean {
							n := map[string]any{}
							for a, b := range m {
								if !removed[a] {
									n[a] = b
								}
							}
							out = append(out, Corruption{Value: rebuild(n), Path: cp(path, name), Kind: "missing required-if-not"})
						}
					}
				}
			}
		case KOneOfStr, KOneOfInt:
			m, ok := v.(map[string]any)
			if !ok {
				return
			}
			d := m[s.Discriminator]
			for i := range s.Members {
				mem := &s.Members[i]
				if (s.Kind == KOneOfStr && d == any(mem.KeyS)) || (s.Kind == KOneOfInt && d == any(mem.KeyI)) {
					mo := resolve(mem.Type)
					payload := map[string]any{}
					for a, b := range m {
						if a != s.Discriminator || s.Inlined {
							payload[a] = b
						}
					}
					walkObj := func() {
						for j := range mo.Props {
							p := &mo.Props[j]
							if p.Name == s.Discriminator {
								continue
							}
							if _, set := payload[p.Name]; set {
								name := p.Name
								walk(p.Type, payload[name], cp(path, name), func(with any) any {
									n := map[string]any{}
									for a, b := range m {
										n[a] = b
									}
									n[name] = with
									return rebuild(n)
								})
							}
						}
					}
					walkObj()
				}
			}
			bad := map[string]any{}
			for a, b := range m {
				bad[a] = b
			}
			bad[s.Discriminator] = "no-such-member"
			if s.Kind == KOneOfInt {
				bad[s.Discriminator] = int64(424242)
			}
			out = append(out, Corruption{Value: rebuild(bad), Path: cp(path, s.Discriminator), Alt: cp(path), Kind: "unknown discriminator"})
		}
	}
	walk(spec, valid, nil, func(with any) any { return with })
	return out
}

// NativeCorruptions corrupts a native (unserialized) value: only positions that can hold the bad value
// without changing Go types (out-of-bounds values of the same type, removed / added map keys).
func NativeCorruptions(spec *Spec, native any) []Corruption {
	var out []Corruption
	cp := func(p []string, extra ...string) []string { return append(append([]string{}, p...), extra...) }
	var walk func(s *Spec, v reflect.Value, path []string, rebuild func(with reflect.Value) any)
	walk = func(s *Spec, v reflect.Value, path []string, rebuild func(with reflect.Value) any) {
		s = resolve(s)
		if s == nil || !v.IsValid() {
			return
		}
		for v.Kind() == reflect.Interface && !v.IsNil() {
			v = v.Elem()
		}
		if isLeaf(s) {
			for _, c := range leafCorruptions(s, true) {
				cv := reflect.ValueOf(c[0])
				if cv.Type() != v.Type() {
					if !cv.Type().ConvertibleTo(v.Type()) || cv.Kind() != v.Kind() {
						continue
					}
					cv = cv.Convert(v.Type())
				}
				out = append(out, Corruption{Value: rebuild(cv), Path: cp(path), Kind: c[1].(string)})
			}
			return
		}
		switch s.Kind {
		case KList:
			if v.Kind() != reflect.Slice {
				return
			}
			if s.Max != nil && v.Len() > 0 {
				long := reflect.MakeSlice(v.Type(), 0, int(*s.Max)+1)
				for int64(long.Len()) <= *s.Max {
					long = reflect.Append(long, v.Index(0))
				}
				out = append(out, Corruption{Value: rebuild(long), Path: cp(path), Kind: "above max"})
			}
			if s.Min != nil && *s.Min > 0 && int64(v.Len()) >= *s.Min {
				out = append(out, Corruption{Value: rebuild(v.Slice(0, int(*s.Min-1))), Path: cp(path), Kind: "below min"})
			}
			for i := 0; i < v.Len(); i++ {
				i := i
				walk(s.Item, v.Index(i), cp(path, fmt.Sprint(i)), func(with reflect.Value) any {
					n := reflect.MakeSlice(v.Type(), v.Len(), v.Len())
					reflect.Copy(n, v)
					n.Index(i).Set(with)
					return rebuild(n)
				})
			}
		case KMap:
			if v.Kind() != reflect.Map {
				return
			}
			keys := v.MapKeys()
			sort.Slice(keys, func(a, b int) bool { return fmt.Sprint(keys[a].Interface()) < fmt.Sprint(keys[b].Interface()) })
			for _, k := range keys {
				k := k
				walk(s.Val, v.MapIndex(k), cp(path, pathKey(k.Interface())), func(with reflect.Value) any {
					n := reflect.MakeMap(v.Type())
					for _, a := range v.MapKeys() {
						n.SetMapIndex(a, v.MapIndex(a))
					}
					n.SetMapIndex(k, with)
					return rebuild(n)
				})
			}
		case KObject:
			if s.Struct != "" {
				// a struct-mapped object's native value is a Go struct (or a pointer to one): every property that has a
				// field is corrupted inside a copy of the struct; the path names the PROPERTY (its id), not the Go field
				sv, isPtr := v, false
				if sv.Kind() == reflect.Pointer {
					if sv.IsNil() {
						return
					}
					sv, isPtr = sv.Elem(), true
				}
				if sv.Kind() != reflect.Struct {
					return
				}
				for i := range s.Props {
					p := &s.Props[i]
					fi := -1
					for j := 0; j < sv.NumField(); j++ {
						f := sv.Type().Field(j)
						tag := strings.Split(f.Tag.Get("json"), ",")[0]
						if tag == p.Name || (tag == "" && f.Name == p.Name) {
							fi = j
						}
					}
					if fi < 0 || !sv.Type().Field(fi).IsExported() {
						continue
					}
					fv := sv.Field(fi)
					if fv.Kind() == reflect.Pointer && fv.IsNil() {
						continue // an unset optional property
					}
					walk(p.Type, fv, cp(path, p.Name), func(with reflect.Value) any {
						n := reflect.New(sv.Type()).Elem()
						n.Set(sv)
						if !with.Type().AssignableTo(n.Field(fi).Type()) {
							if !with.Type().ConvertibleTo(n.Field(fi).Type()) {
								return rebuild(v) // cannot be placed: leave the value as it is (an accepted value: no verdict)
							}
							with = with.Convert(n.Field(fi).Type())
						}
						n.Field(fi).Set(with)
						if isPtr {
							pn := reflect.New(sv.Type())
							pn.Elem().Set(n)
							return rebuild(pn)
						}
						return rebuild(n)
					})
				}
				return
			}
			m, ok := v.Interface().(map[string]any)
			if !ok {
				return
			}
			extra := map[string]any{"undeclared_key": "x"}
			for a, b := range m {
				extra[a] = b
			}
			out = append(out, Corruption{Value: rebuild(reflect.ValueOf(extra)), Path: cp(path, "undeclared_key"), Alt: cp(path), Kind: "extra key"})
			for i := range s.Props {
				p := &s.Props[i]
				val, set := m[p.Name]
				if !set {
					continue
				}
				name := p.Name
				walk(p.Type, reflect.ValueOf(val), cp(path, name), func(with reflect.Value) any {
					n := map[string]any{}
					for a, b := range m {
						n[a] = b
					}
					n[name] = with.Interface()
					return rebuild(reflect.ValueOf(n))
				})
				if p.Required {
					n := map[string]any{}
					for a, b := range m {
						if a != name {
							n[a] = b
						}
					}
					out = append(out, Corruption{Value: rebuild(reflect.ValueOf(n)), Path: cp(path, name), Kind: "missing required"})
				}
			}
		}
	}
	walk(spec, reflect.ValueOf(native), nil, func(with reflect.Value) any { return with.Interface() })
	return out
}

// Shorthand rewrites a valid raw value so that every one-property object is given as its lone value
// (the documented shorthand); changed reports whether anything was rewritten.
func Shorthand(spec *Spec, v any) (out any, changed bool) {
	s := resolve(spec)
	if s == nil {
		return v, false
	}
	switch s.Kind {
	case KList:
		l, ok := v.([]any)
		if !ok {
			return v, false
		}
		n := make([]any, len(l))
		for i := range l {
			var c bool
			n[i], c = Shorthand(s.Item, l[i])
			changed = changed || c
		}
		return n, changed
	case KMap:
		m, ok := v.(map[any]any)
		if !ok {
			return v, false
		}
		n := map[any]any{}
		for k, e := range m {
			var c bool
			n[k], c = Shorthand(s.Val, e)
			changed = changed || c
		}
		return n, changed
	case KObject:
		m, ok := v.(map[string]any)
		if !ok {
			return v, false
		}
		n := map[string]any{}
		for k, e := range m {
			p := s.Prop(k)
			if p == nil {
				n[k] = e
				continue
			}
			var c bool
			n[k], c = Shorthand(p.Type, e)
			changed = changed || c
		}
		if len(s.Props) == 1 {
			if lone, has := n[s.Props[0].Name]; has && len(n) == 1 {
				// a lone value must not itself be a map (that would be read as the object's own map form)
				if _, isMap := lone.(map[string]any); !isMap {
					if _, isAnyMap := lone.(map[any]any); !isAnyMap {
						return lone, true
					}
				}
			}
		}
		return n, changed
	}
	return v, false
}
