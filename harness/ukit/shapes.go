package ukit

import "go.flow.arcalot.io/pluginsdk/schema"

// Struct-mapped objects need static Go types. The menu has one shape per shortcut visible in
// schema/object.go: value fields, pointer fields, a named-string field, nested struct by value (triggers
// the sub-object default path) and by pointer, slice and map fields (uncomparable values), json-tag vs
// field-name lookup, and treat-empty-as-default fields.

type SA struct {
	S string `json:"s"`
	I int64  `json:"i"`
}

type SP struct {
	S *string `json:"s"`
	I *int64  `json:"i"`
}

type SN struct {
	N MyStr   `json:"n"`
	F float64 `json:"f"`
	B bool    `json:"b"`
}

type SNest struct {
	Sub SA     `json:"sub"`
	P   *SA    `json:"p"`
	X   string `json:"x"`
}

type SColl struct {
	L []string         `json:"l"`
	M map[string]int64 `json:"m"`
	A any              `json:"a"`
}

type STag struct {
	FieldName string
	Other     int64 `json:"other_name"`
}

type SEmpty struct {
	S string   `json:"s"`
	I int64    `json:"i"`
	L []string `json:"l"`
	F float64  `json:"f"`
}

// three levels of by-value nesting
type SMid struct {
	Leaf SA     `json:"leaf"`
	T    string `json:"t"`
}

type SDeep struct {
	Mid SMid   `json:"mid"`
	X   string `json:"x"`
}

// self-referential shapes: a list node and a parent / child pair, linked through pointer fields
type SNode struct {
	V    int64  `json:"v"`
	Next *SNode `json:"next"`
}

type SParent struct {
	Name  string  `json:"name"`
	Child *SChild `json:"child"`
}

type SChild struct {
	N    int64    `json:"n"`
	Back *SParent `json:"back"`
}

// fields whose Go type is narrower than, or a named version of, the schema's native type (the value is converted into
// the field on the way in and back on the way out)
type Ratio float32
type Count int64

type SNarrow struct {
	F32 float32  `json:"f32"`
	PF  *float32 `json:"pf"`
	R   Ratio    `json:"r"`
	I32 int32    `json:"i32"`
	U8  uint8    `json:"u8"`
	N   Count    `json:"n"`
}

// a struct whose field holds a map-based object (the sub-tree below it is made of plain maps)
type SLink struct {
	Name string         `json:"name"`
	Link map[string]any `json:"link"`
}

// Shape describes one struct type of the menu.
type Shape struct {
	Name string
	New  func(id string, props map[string]*schema.PropertySchema) *schema.ObjectSchema
	// Zero returns a zero value of the struct type (by value) and a nil pointer to it.
	Zero func() any
	// PtrNew builds the same object schema mapped to *T instead of T.
	PtrNew func(id string, props map[string]*schema.PropertySchema) *schema.ObjectSchema
}

func shapeOf[T any](name string) Shape {
	return Shape{
		Name: name,
		New: func(id string, props map[string]*schema.PropertySchema) *schema.ObjectSchema {
			return schema.NewStructMappedObjectSchema[T](id, props)
		},
		PtrNew: func(id string, props map[string]*schema.PropertySchema) *schema.ObjectSchema {
			return schema.NewStructMappedObjectSchema[*T](id, props)
		},
		Zero: func() any { var z T; return z },
	}
}

// Shapes is the struct menu. A name suffixed with "*" maps to the pointer type.
var Shapes = map[string]Shape{}

func init() {
	for _, s := range []Shape{shapeOf[SA]("SA"), shapeOf[SP]("SP"), shapeOf[SN]("SN"), shapeOf[SNest]("SNest"),
		shapeOf[SColl]("SColl"), shapeOf[STag]("STag"), shapeOf[SEmpty]("SEmpty"), shapeOf[SMid]("SMid"), shapeOf[SDeep]("SDeep"),
		shapeOf[SNode]("SNode"), shapeOf[SParent]("SParent"), shapeOf[SChild]("SChild"), shapeOf[SLink]("SLink"), shapeOf[SNarrow]("SNarrow")} {
		Shapes[s.Name] = s
		p := s
		p.Name = s.Name + "*"
		p.New = s.PtrNew
		Shapes[p.Name] = p
	}
}

func leafInt() *Spec   { return &Spec{Kind: KInt} }
func leafStr() *Spec   { return &Spec{Kind: KString} }
func leafFloat() *Spec { return &Spec{Kind: KFloat} }
func leafBool() *Spec  { return &Spec{Kind: KBool} }

// ShapeSpecs returns object specs for the struct menu (variants differ in flags), with id prefix.
func ShapeSpecs() []*Spec {
	sa := func(id string) *Spec {
		return &Spec{Kind: KObject, ID: id, Struct: "SA", Props: []Prop{
			{Name: "s", Type: leafStr(), Required: true},
			{Name: "i", Type: &Spec{Kind: KInt, Min: I64(0), Max: I64(5)}, Default: Str("2")},
		}}
	}
	out := []*Spec{
		sa("SA1"),
		{Kind: KObject, ID: "SAptr", Struct: "SA*", Props: []Prop{
			{Name: "s", Type: leafStr(), Required: true},
			{Name: "i", Type: leafInt()},
		}},
		{Kind: KObject, ID: "SP1", Struct: "SP", Props: []Prop{
			{Name: "s", Type: &Spec{Kind: KString, Min: I64(1)}},
			{Name: "i", Type: leafInt(), RequiredIf: []string{"s"}},
		}},
		{Kind: KObject, ID: "SP2", Struct: "SP", Props: []Prop{
			{Name: "s", Type: leafStr(), Conflicts: []string{"i"}},
			{Name: "i", Type: leafInt(), RequiredIfNot: []string{"s"}},
		}},
		{Kind: KObject, ID: "SN1", Struct: "SN", Props: []Prop{
			{Name: "n", Type: &Spec{Kind: KTypedEnum, EnumS: []string{"a", "b"}}, Required: true},
			{Name: "f", Type: &Spec{Kind: KFloat, FMin: F64(0)}, Default: Str("1.5")},
			{Name: "b", Type: leafBool(), Default: Str("true")},
		}},
		{Kind: KObject, ID: "SNest1", Struct: "SNest", Props: []Prop{
			{Name: "sub", Type: sa("SubA")},
			{Name: "p", Type: &Spec{Kind: KObject, ID: "SubP", Struct: "SA*", Props: []Prop{
				{Name: "s", Type: leafStr(), Required: true},
				{Name: "i", Type: leafInt()},
			}}},
			{Name: "x", Type: leafStr(), Default: Str("\"dflt\"")},
		}},
		{Kind: KObject, ID: "SColl1", Struct: "SColl", Props: []Prop{
			{Name: "l", Type: &Spec{Kind: KList, Item: leafStr(), Max: I64(2)}},
			{Name: "m", Type: &Spec{Kind: KMap, Key: leafStr(), Val: leafInt()}},
			{Name: "a", Type: &Spec{Kind: KAny}},
		}},
		{Kind: KObject, ID: "STag1", Struct: "STag", Props: []Prop{
			{Name: "FieldName", Type: leafStr(), Required: true},
			{Name: "other_name", Type: leafInt()},
		}},
		{Kind: KObject, ID: "SEmpty1", Struct: "SEmpty", Props: []Prop{
			{Name: "s", Type: &Spec{Kind: KString, Min: I64(2)}, EmptyDefault: true},
			{Name: "i", Type: &Spec{Kind: KInt, Min: I64(1)}, EmptyDefault: true},
			{Name: "l", Type: &Spec{Kind: KList, Item: leafStr(), Min: I64(1)}, EmptyDefault: true},
			{Name: "f", Type: leafFloat()},
		}},
		// treat-empty-as-default properties that conflict rules name: an empty field is an absent property for every
		// rule, in every operation. (Rules that REQUIRE such a property are left out: supplying its empty value
		// explicitly is, by the documented identification, the same as leaving it out, and the property does not say
		// which of the two the input then counts as.)
		{Kind: KObject, ID: "SEmpty2", Struct: "SEmpty", Props: []Prop{
			{Name: "s", Type: leafStr(), EmptyDefault: true},
			{Name: "i", Type: leafInt(), EmptyDefault: true, Conflicts: []string{"s"}},
			{Name: "l", Type: &Spec{Kind: KList, Item: leafStr()}, EmptyDefault: true, Conflicts: []string{"i"}},
			{Name: "f", Type: leafFloat(), EmptyDefault: true},
		}},
		{Kind: KObject, ID: "SNarrow1", Struct: "SNarrow", Props: []Prop{
			{Name: "f32", Type: &Spec{Kind: KFloat, FMin: F64(-2), FMax: F64(8)}, Required: true},
			{Name: "pf", Type: leafFloat()},
			{Name: "r", Type: &Spec{Kind: KFloat, FMin: F64(0), FMax: F64(1)}, Default: Str("0.5")},
			{Name: "i32", Type: &Spec{Kind: KInt, Min: I64(-5), Max: I64(5)}},
			{Name: "u8", Type: &Spec{Kind: KInt, Min: I64(0), Max: I64(5)}, Default: Str("3")},
			{Name: "n", Type: &Spec{Kind: KInt, Min: I64(0)}},
		}},
		// collections in struct fields that the object requires: an empty list / map that the caller supplied is a
		// supplied value (present, of length 0), not an unset field
		{Kind: KObject, ID: "SColl2", Struct: "SColl", Props: []Prop{
			{Name: "l", Type: &Spec{Kind: KList, Item: leafStr()}, Required: true},
			{Name: "m", Type: &Spec{Kind: KMap, Key: leafStr(), Val: leafInt()}, Required: true},
			{Name: "a", Type: &Spec{Kind: KAny}},
		}},
	}
	return out
}

// DeepShapeSpec: a struct-mapped parent whose absent by-value sub-object property has an object default; the
// sub-object has no defaults of its own but a by-value sub-sub-object that does.
func DeepShapeSpec() *Spec {
	leaf := &Spec{Kind: KObject, ID: "LeafSA", Struct: "SA", Props: []Prop{
		{Name: "s", Type: leafStr(), Required: true},
		{Name: "i", Type: &Spec{Kind: KInt, Min: I64(0), Max: I64(5)}, Default: Str("2")},
	}}
	mid := &Spec{Kind: KObject, ID: "MidS", Struct: "SMid", Props: []Prop{
		{Name: "leaf", Type: leaf, Required: true},
		{Name: "t", Type: leafStr()},
	}}
	return &Spec{Kind: KObject, ID: "DeepS", Struct: "SDeep", Props: []Prop{
		{Name: "mid", Type: mid, Default: Str("{\"leaf\": {\"s\": \"d\"}, \"t\": \"x\"}")},
		{Name: "x", Type: leafStr(), Default: Str("\"dx\"")},
	}}
}

// RecursiveShapeSpecs: struct-mapped objects that reach themselves through pointer fields (a list node; a parent /
// child pair), the child with a default of its own.
func RecursiveShapeSpecs() []*Spec {
	ref := func(id string) *Spec { return &Spec{Kind: KRef, RefID: id} }
	return []*Spec{
		{Kind: KScope, Root: "Node", Objects: []*Spec{
			{Kind: KObject, ID: "Node", Struct: "SNode", Props: []Prop{
				{Name: "v", Type: leafInt(), Required: true},
				{Name: "next", Type: ref("Node")},
			}},
		}},
		{Kind: KScope, Root: "Parent", Objects: []*Spec{
			{Kind: KObject, ID: "Parent", Struct: "SParent", Props: []Prop{
				{Name: "name", Type: leafStr(), Required: true},
				{Name: "child", Type: ref("Child")},
			}},
			{Kind: KObject, ID: "Child", Struct: "SChild", Props: []Prop{
				{Name: "n", Type: &Spec{Kind: KInt, Min: I64(0), Max: I64(5)}, Default: Str("3")},
				{Name: "back", Type: ref("Parent")},
			}},
		}},
	}
}
