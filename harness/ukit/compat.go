package ukit

import "fmt"

// Reference for compatibility checking: MustReject(consumer, producer) is true only when the property
// says the producer can never be consumed; nothing is claimed about other pairs.

func baseKind(s *Spec) string {
	switch s.Kind {
	case KInt, KIntEnum:
		return "integer"
	case KString, KStrEnum, KTypedEnum:
		return "string"
	case KObject, KRef, KScope:
		return "object"
	}
	return string(s.Kind)
}

func objectOf(s *Spec) *Spec {
	switch s.Kind {
	case KObject:
		return s
	case KRef:
		return s.resolved
	case KScope:
		Link(s)
		return s.RootObject()
	}
	return nil
}

func disjoint(cMin, cMax, pMin, pMax *int64) bool {
	return (cMax != nil && pMin != nil && *pMin > *cMax) || (cMin != nil && pMax != nil && *pMax < *cMin)
}

func disjointF(cMin, cMax, pMin, pMax *float64) bool {
	return (cMax != nil && pMin != nil && *pMin > *cMax) || (cMin != nil && pMax != nil && *pMax < *cMin)
}

// MustReject returns (true, why) when consumer.ValidateCompatibility(producer) has to fail.
func MustReject(c, p *Spec) (bool, string) {
	return mustReject(c, p, 0)
}

func mustReject(c, p *Spec, depth int) (bool, string) {
	if c == nil || p == nil || depth > 8 {
		return false, ""
	}
	if c.Kind == KAny || p.Kind == KAny {
		return false, ""
	}
	if baseKind(c) != baseKind(p) {
		return true, fmt.Sprintf("different base kind (%s into %s)", p.Kind, c.Kind)
	}
	switch c.Kind {
	case KInt:
		if p.Kind == KInt && disjoint(c.Min, c.Max, p.Min, p.Max) {
			return true, "integer ranges cannot overlap"
		}
	case KFloat:
		if disjointF(c.FMin, c.FMax, p.FMin, p.FMax) {
			return true, "float ranges cannot overlap"
		}
	case KString:
		if p.Kind == KString && disjoint(c.Min, c.Max, p.Min, p.Max) {
			return true, "string length ranges cannot overlap"
		}
	case KIntEnum:
		if p.Kind == KIntEnum {
			for _, v := range p.EnumI {
				found := false
				for _, w := range c.EnumI {
					if v == w {
						found = true
					}
				}
				if !found {
					return true, fmt.Sprintf("enum offers value %d outside the consumer's set", v)
				}
			}
		}
	case KStrEnum, KTypedEnum:
		if p.Kind == KStrEnum || p.Kind == KTypedEnum {
			for _, v := range p.EnumS {
				found := false
				for _, w := range c.EnumS {
					if v == w {
						found = true
					}
				}
				if !found {
					return true, fmt.Sprintf("enum offers value %q outside the consumer's set", v)
				}
			}
		}
	case KList:
		if r, why := mustReject(c.Item, p.Item, depth+1); r {
			return true, "list items: " + why
		}
	case KMap:
		if r, why := mustReject(c.Key, p.Key, depth+1); r {
			return true, "map keys: " + why
		}
		if r, why := mustReject(c.Val, p.Val, depth+1); r {
			return true, "map values: " + why
		}
		if disjoint(c.Min, c.Max, p.Min, p.Max) {
			return true, "map size ranges cannot overlap"
		}
	case KObject, KRef, KScope:
		co, po := objectOf(c), objectOf(p)
		if co == nil || po == nil {
			return false, ""
		}
		if !co.Unenforced && !po.Unenforced && co.ID != po.ID {
			return true, fmt.Sprintf("different enforced object id (%s vs %s)", po.ID, co.ID)
		}
		for _, pp := range po.Props {
			cp := co.Prop(pp.Name)
			if cp == nil {
				return true, "producer carries the undeclared property " + pp.Name
			}
			if r, why := mustReject(cp.Type, pp.Type, depth+1); r {
				return true, "property " + pp.Name + ": " + why
			}
		}
		for _, cp := range co.Props {
			if cp.Required && po.Prop(cp.Name) == nil {
				return true, "producer lacks the required property " + cp.Name
			}
		}
	case KOneOfStr, KOneOfInt:
		if c.Discriminator != p.Discriminator {
			return true, "different discriminator field"
		}
		for _, cm := range c.Members {
			var pm *Member
			for i := range p.Members {
				if p.Members[i].KeyS == cm.KeyS && p.Members[i].KeyI == cm.KeyI {
					pm = &p.Members[i]
				}
			}
			if pm == nil {
				return true, "one-of member missing"
			}
			if r, why := mustReject(cm.Type, pm.Type, depth+1); r {
				return true, "one-of member: " + why
			}
		}
	}
	return false, ""
}

// Mutations returns single-feature mutations of a spec at any depth (each a full clone).
func Mutations(s *Spec) []*Spec {
	var out []*Spec
	// enumerate nodes by pre-order index so that the same node can be found in a clone
	var nodes []*Spec
	s.Walk(func(n *Spec) { nodes = append(nodes, n) })
	for idx := range nodes {
		for m := 0; m < 14; m++ {
			c := s.Clone()
			var cn []*Spec
			c.Walk(func(n *Spec) { cn = append(cn, n) })
			n := cn[idx]
			if mutateNode(n, m) {
				out = append(out, c)
			}
		}
	}
	return out
}

func mutateNode(n *Spec, m int) bool {
	switch m {
	case 0: // shift numeric range out of reach
		switch n.Kind {
		case KInt:
			n.Min, n.Max = I64(100), I64(200)
			return true
		case KFloat:
			n.FMin, n.FMax = F64(100), F64(200)
			return true
		case KString:
			if n.Pattern == "" {
				n.Min, n.Max = I64(100), I64(200)
				return true
			}
		case KMap:
			n.Min, n.Max = I64(100), I64(200)
			return true
		}
	case 1: // change leaf kind
		switch n.Kind {
		case KInt, KFloat, KBool, KPattern:
			*n = Spec{Kind: KString}
			return true
		case KString, KStrEnum, KTypedEnum:
			*n = Spec{Kind: KInt}
			return true
		case KIntEnum:
			*n = Spec{Kind: KBool}
			return true
		}
	case 2: // container kind
		switch n.Kind {
		case KList:
			*n = Spec{Kind: KMap, Key: &Spec{Kind: KString}, Val: n.Item}
			return true
		case KMap:
			*n = Spec{Kind: KList, Item: n.Val}
			return true
		}
	case 3: // enum value changed
		switch n.Kind {
		case KIntEnum:
			n.EnumI = append(append([]int64{}, n.EnumI[:len(n.EnumI)-1]...), 4242)
			return true
		case KStrEnum, KTypedEnum:
			n.EnumS = append(append([]string{}, n.EnumS[:len(n.EnumS)-1]...), "mutated")
			return true
		}
	case 4: // property added
		if n.Kind == KObject && n.Struct == "" {
			n.Props = append(n.Props, Prop{Name: "mutant_added", Type: &Spec{Kind: KString}})
			return true
		}
	case 5: // property removed
		if n.Kind == KObject && n.Struct == "" && len(n.Props) > 0 {
			n.Props = n.Props[1:]
			return true
		}
	case 6: // object id
		if n.Kind == KObject && n.Struct == "" {
			n.ID += "X"
			return true
		}
	case 7: // discriminator
		if n.Kind == KOneOfStr || n.Kind == KOneOfInt {
			if !n.Inlined || len(n.Members) == 0 {
				n.Discriminator += "x"
				return true
			}
			// inlined: the discriminator is a property of every member; another property that every member declares with
			// the same type can take its place
			var cur *Prop
			if o := objectOf(n.Members[0].Type); o != nil {
				cur = o.Prop(n.Discriminator)
			}
			if cur == nil {
				return false
			}
			if o := objectOf(n.Members[0].Type); o != nil {
				for _, cand := range o.Props {
					if cand.Name == n.Discriminator || cand.Type.Kind != cur.Type.Kind {
						continue
					}
					all := true
					for _, m := range n.Members {
						mo := objectOf(m.Type)
						if mo == nil || mo.Prop(cand.Name) == nil || mo.Prop(cand.Name).Type.Kind != cur.Type.Kind {
							all = false
						}
					}
					if all {
						n.Discriminator = cand.Name
						return true
					}
				}
			}
		}
	case 8: // member removed
		if (n.Kind == KOneOfStr || n.Kind == KOneOfInt) && len(n.Members) > 1 {
			n.Members = n.Members[:len(n.Members)-1]
			return true
		}
	case 9: // required flag flipped
		if n.Kind == KObject && n.Struct == "" && len(n.Props) > 0 {
			n.Props[0].Required = !n.Props[0].Required
			return true
		}
	case 10: // bound dropped
		switch n.Kind {
		case KInt, KString, KList, KMap:
			if n.Min != nil {
				n.Min = nil
				return true
			}
		case KFloat:
			if n.FMax != nil {
				n.FMax = nil
				return true
			}
		}
	case 12: // enum kind swapped (integer enum <-> string enum)
		switch n.Kind {
		case KIntEnum:
			*n = Spec{Kind: KStrEnum, EnumS: []string{"1", "2"}}
			return true
		case KStrEnum, KTypedEnum:
			*n = Spec{Kind: KIntEnum, EnumI: []int64{1, 2}}
			return true
		}
	case 13: // scalar swapped for the enum of the other base kind
		switch n.Kind {
		case KInt:
			*n = Spec{Kind: KStrEnum, EnumS: []string{"a"}}
			return true
		case KString:
			*n = Spec{Kind: KIntEnum, EnumI: []int64{1}}
			return true
		}
	case 11: // item type of a list
		if n.Kind == KList && n.Item != nil && n.Item.Kind != KBool {
			n.Item = &Spec{Kind: KBool}
			return true
		}
	}
	return false
}
