// Package ukit is the small-scope universe kit of Engine U: a description language for schemas (Spec),
// a builder that constructs the real schema only through the SDK's public constructors, exhaustive
// generators of specs and raw values, a reference interpreter and structural comparison helpers.
package ukit

import (
	"fmt"
	"regexp"
	"sort"
	"strings"

	"go.flow.arcalot.io/pluginsdk/schema"
)

type Kind string

const (
	KInt       Kind = "int"
	KFloat     Kind = "float"
	KString    Kind = "string"
	KBool      Kind = "bool"
	KPattern   Kind = "pattern"
	KIntEnum   Kind = "enum_int"
	KStrEnum   Kind = "enum_string"
	KTypedEnum Kind = "enum_typed" // NewTypedStringEnumSchema[MyStr]
	KAny       Kind = "any"
	KList      Kind = "list"
	KMap       Kind = "map"
	KObject    Kind = "object"
	KOneOfStr  Kind = "one_of_string"
	KOneOfInt  Kind = "one_of_int"
	KRef       Kind = "ref"
	KScope     Kind = "scope"
)

// MyStr is the named string type used for typed string enums.
type MyStr string

// Prop is one property of an object spec.
type Prop struct {
	Name          string   `json:"name"`
	Type          *Spec    `json:"type"`
	Required      bool     `json:"required,omitempty"`
	RequiredIf    []string `json:"required_if,omitempty"`
	RequiredIfNot []string `json:"required_if_not,omitempty"`
	Conflicts     []string `json:"conflicts,omitempty"`
	Default       *string  `json:"default,omitempty"` // JSON
	Disabled      bool     `json:"disabled,omitempty"`
	// DisabledNoReason: disabled by setting the exported field, without a reason (what a received description with
	// `disabled: true` and no `disabled_reason` yields; the Disable builder always sets a reason)
	DisabledNoReason bool `json:"disabled_no_reason,omitempty"`
	// DisabledLate: Disable() is called on the property after the object schema holding it has been constructed
	DisabledLate bool   `json:"disabled_late,omitempty"`
	EmptyDefault bool   `json:"empty_is_default,omitempty"`
	DisplayName  string `json:"display_name,omitempty"`
}

// Member is one alternative of a one-of.
type Member struct {
	KeyS string `json:"key_s,omitempty"`
	KeyI int64  `json:"key_i,omitempty"`
	Type *Spec  `json:"type"` // object, ref or scope
}

// Spec describes a schema.
type Spec struct {
	Kind Kind `json:"kind"`
	// int / string length / list and map sizes
	Min *int64 `json:"min,omitempty"`
	Max *int64 `json:"max,omitempty"`
	// float
	FMin    *float64 `json:"fmin,omitempty"`
	FMax    *float64 `json:"fmax,omitempty"`
	Units   string   `json:"units,omitempty"` // "", "sec", "bytes", "ns", "chars", "pct"
	Pattern string   `json:"pattern,omitempty"`
	// enums
	EnumS     []string          `json:"enum_s,omitempty"`
	EnumI     []int64           `json:"enum_i,omitempty"`
	EnumNames map[string]string `json:"enum_names,omitempty"` // key (as text) -> display name
	// Literal: the enum schema is written as a struct literal (all its fields are exported) instead of through a
	// constructor; members without a display name then have a nil display value
	Literal bool `json:"literal,omitempty"`
	// containers
	Item *Spec `json:"item,omitempty"`
	Key  *Spec `json:"key,omitempty"`
	Val  *Spec `json:"val,omitempty"`
	// object
	ID         string `json:"id,omitempty"`
	Unenforced bool   `json:"id_unenforced,omitempty"`
	Props      []Prop `json:"props,omitempty"`
	Struct     string `json:"struct,omitempty"` // "" = map based; otherwise a shape from the struct menu
	// one-of
	Members       []Member `json:"members,omitempty"`
	Discriminator string   `json:"discriminator,omitempty"`
	Inlined       bool     `json:"inlined,omitempty"`
	// ref
	RefID string `json:"ref_id,omitempty"`
	RefNS string `json:"ref_ns,omitempty"`
	// scope
	Objects []*Spec `json:"objects,omitempty"` // object specs
	Root    string  `json:"root,omitempty"`

	resolved *Spec // ref: what it denotes (set by Link / ApplyNS)
}

func I64(v int64) *int64     { return &v }
func F64(v float64) *float64 { return &v }
func Str(v string) *string   { return &v }

// String renders a compact description (used in evidence samples and violation details).
func (s *Spec) String() string {
	if s == nil {
		return "nil"
	}
	var b strings.Builder
	s.write(&b)
	return b.String()
}

func optI(p *int64) string {
	if p == nil {
		return "_"
	}
	return fmt.Sprint(*p)
}

func optF(p *float64) string {
	if p == nil {
		return "_"
	}
	return fmt.Sprint(*p)
}

func (s *Spec) write(b *strings.Builder) {
	switch s.Kind {
	case KInt:
		fmt.Fprintf(b, "int[%s..%s]", optI(s.Min), optI(s.Max))
		if s.Units != "" {
			b.WriteString("/" + s.Units)
		}
	case KFloat:
		fmt.Fprintf(b, "float[%s..%s]", optF(s.FMin), optF(s.FMax))
		if s.Units != "" {
			b.WriteString("/" + s.Units)
		}
	case KString:
		fmt.Fprintf(b, "string[%s..%s]", optI(s.Min), optI(s.Max))
		if s.Pattern != "" {
			fmt.Fprintf(b, "~%q", s.Pattern)
		}
	case KIntEnum:
		fmt.Fprintf(b, "enum%v", s.EnumI)
		if s.Units != "" {
			b.WriteString("/" + s.Units)
		}
		if len(s.EnumNames) > 0 {
			b.WriteString("+names")
		}
		if s.Literal {
			b.WriteString("+literal")
		}
	case KStrEnum, KTypedEnum:
		fmt.Fprintf(b, "%s%q", s.Kind, s.EnumS)
		if len(s.EnumNames) > 0 {
			b.WriteString("+names")
		}
		if s.Literal {
			b.WriteString("+literal")
		}
	case KList:
		b.WriteString("list<")
		s.Item.write(b)
		fmt.Fprintf(b, ">[%s..%s]", optI(s.Min), optI(s.Max))
	case KMap:
		b.WriteString("map<")
		s.Key.write(b)
		b.WriteString(",")
		s.Val.write(b)
		fmt.Fprintf(b, ">[%s..%s]", optI(s.Min), optI(s.Max))
	case KObject:
		fmt.Fprintf(b, "object %s", s.ID)
		if s.Struct != "" {
			b.WriteString(":" + s.Struct)
		}
		b.WriteString("{")
		for i, p := range s.Props {
			if i > 0 {
				b.WriteString("; ")
			}
			b.WriteString(p.Name + ":")
			p.Type.write(b)
			if p.Required {
				b.WriteString(" req")
			}
			if len(p.RequiredIf) > 0 {
				fmt.Fprintf(b, " req_if%v", p.RequiredIf)
			}
			if len(p.RequiredIfNot) > 0 {
				fmt.Fprintf(b, " req_if_not%v", p.RequiredIfNot)
			}
			if len(p.Conflicts) > 0 {
				fmt.Fprintf(b, " conflicts%v", p.Conflicts)
			}
			if p.Default != nil {
				fmt.Fprintf(b, " default=%s", *p.Default)
			}
			if p.Disabled {
				b.WriteString(" disabled")
				if p.DisabledLate {
					b.WriteString("(late)")
				}
			}
			if p.EmptyDefault {
				b.WriteString(" empty=default")
			}
		}
		b.WriteString("}")
	case KOneOfStr, KOneOfInt:
		fmt.Fprintf(b, "%s(%s", s.Kind, s.Discriminator)
		if s.Inlined {
			b.WriteString(",inlined")
		}
		b.WriteString("){")
		for i, m := range s.Members {
			if i > 0 {
				b.WriteString(" | ")
			}
			if s.Kind == KOneOfStr {
				fmt.Fprintf(b, "%q=>", m.KeyS)
			} else {
				fmt.Fprintf(b, "%d=>", m.KeyI)
			}
			m.Type.write(b)
		}
		b.WriteString("}")
	case KRef:
		fmt.Fprintf(b, "ref(%s", s.RefID)
		if s.RefNS != "" {
			b.WriteString("@" + s.RefNS)
		}
		b.WriteString(")")
	case KScope:
		fmt.Fprintf(b, "scope(root=%s){", s.Root)
		for i, o := range s.Objects {
			if i > 0 {
				b.WriteString(" ;; ")
			}
			o.write(b)
		}
		b.WriteString("}")
	default:
		b.WriteString(string(s.Kind))
	}
}

// UnitsOf returns the SDK's units definition for a spec's unit name.
func UnitsOf(name string) *schema.UnitsDefinition {
	switch name {
	case "":
		return nil
	case "sec":
		return freshUnits(schema.UnitDurationSeconds)
	case "bytes":
		return freshUnits(schema.UnitBytes)
	case "ns":
		return freshUnits(schema.UnitDurationNanoseconds)
	case "chars":
		return freshUnits(schema.UnitCharacters)
	case "pct":
		return freshUnits(schema.UnitPercentage)
	}
	panic("unknown units " + name)
}

// SharedUnits makes Build use the package-level unit definitions themselves instead of copies
// (needed when first use of the globals is the point of the check).
var SharedUnits = false

func freshUnits(u *schema.UnitsDefinition) *schema.UnitsDefinition {
	if SharedUnits {
		return u
	}
	m := map[int64]*schema.UnitDefinition{}
	for k, v := range u.MultipliersValue {
		c := *v
		m[k] = &c
	}
	b := *u.BaseUnitValue
	var mm map[int64]*schema.UnitDefinition
	if u.MultipliersValue != nil {
		mm = m
	}
	return schema.NewUnits(&b, mm)
}

func display(name string) *schema.DisplayValue {
	if name == "" {
		return nil
	}
	return schema.NewDisplayValue(schema.PointerTo(name), nil, nil)
}

// OnBuild, when set, is told which real schema node was built for which spec node.
var OnBuild func(s *Spec, t schema.Type)

// Build constructs the real schema through the public constructors only.
func Build(s *Spec) schema.Type {
	t := build(s)
	if OnBuild != nil {
		OnBuild(s, t)
	}
	return t
}

func build(s *Spec) schema.Type {
	switch s.Kind {
	case KInt:
		return schema.NewIntSchema(s.Min, s.Max, UnitsOf(s.Units))
	case KFloat:
		return schema.NewFloatSchema(s.FMin, s.FMax, UnitsOf(s.Units))
	case KString:
		var re *regexp.Regexp
		if s.Pattern != "" {
			re = regexp.MustCompile(s.Pattern)
		}
		return schema.NewStringSchema(s.Min, s.Max, re)
	case KBool:
		return schema.NewBoolSchema()
	case KPattern:
		return schema.NewPatternSchema()
	case KAny:
		return schema.NewAnySchema()
	case KIntEnum:
		m := map[int64]*schema.DisplayValue{}
		for _, v := range s.EnumI {
			m[v] = display(s.EnumNames[fmt.Sprint(v)])
		}
		if s.Literal {
			return &schema.IntEnumSchema{EnumSchema: schema.EnumSchema[int64, int64]{ValidValuesMap: m}, IntUnits: UnitsOf(s.Units)}
		}
		return schema.NewIntEnumSchema(m, UnitsOf(s.Units))
	case KStrEnum:
		m := map[string]*schema.DisplayValue{}
		for _, v := range s.EnumS {
			m[v] = display(s.EnumNames[v])
		}
		if s.Literal {
			return &schema.StringEnumSchema{TypedStringEnumSchema: schema.TypedStringEnumSchema[string]{EnumSchema: schema.EnumSchema[string, string]{ValidValuesMap: m}}}
		}
		return schema.NewStringEnumSchema(m)
	case KTypedEnum:
		m := map[MyStr]*schema.DisplayValue{}
		for _, v := range s.EnumS {
			m[MyStr(v)] = display(s.EnumNames[v])
		}
		if s.Literal {
			return &schema.TypedStringEnumSchema[MyStr]{EnumSchema: schema.EnumSchema[string, MyStr]{ValidValuesMap: m}}
		}
		return schema.NewTypedStringEnumSchema[MyStr](m)
	case KList:
		return schema.NewListSchema(Build(s.Item), s.Min, s.Max)
	case KMap:
		return schema.NewMapSchema(Build(s.Key), Build(s.Val), s.Min, s.Max)
	case KObject:
		return BuildObject(s)
	case KOneOfStr:
		m := map[string]schema.Object{}
		for _, mem := range s.Members {
			m[mem.KeyS] = Build(mem.Type).(schema.Object)
		}
		return schema.NewOneOfStringSchema[any](m, s.Discriminator, s.Inlined)
	case KOneOfInt:
		m := map[int64]schema.Object{}
		for _, mem := range s.Members {
			m[mem.KeyI] = Build(mem.Type).(schema.Object)
		}
		return schema.NewOneOfIntSchema[any](m, s.Discriminator, s.Inlined)
	case KRef:
		if s.RefNS != "" {
			return schema.NewNamespacedRefSchema(s.RefID, s.RefNS, nil)
		}
		return schema.NewRefSchema(s.RefID, nil)
	case KScope:
		return BuildScope(s)
	}
	panic("ukit.Build: unknown kind " + string(s.Kind))
}

func buildProps(s *Spec) map[string]*schema.PropertySchema {
	props := map[string]*schema.PropertySchema{}
	for _, p := range s.Props {
		var disp schema.Display
		if p.DisplayName != "" {
			disp = display(p.DisplayName)
		}
		ps := schema.NewPropertySchema(Build(p.Type), disp, p.Required, p.RequiredIf, p.RequiredIfNot, p.Conflicts, p.Default, nil)
		if p.Disabled && !p.DisabledLate {
			if p.DisabledNoReason {
				ps.Disabled = true
			} else {
				ps.Disable("disabled for the test")
			}
		}
		if p.EmptyDefault {
			ps.TreatEmptyAsDefaultValue()
		}
		props[p.Name] = ps
	}
	return props
}

// BuildObject builds an object spec (map based or struct mapped).
// Share, when set, makes BuildObject return one schema object per distinct object spec (keyed by its printed form):
// two schemas built while it is set share the objects of their common parts by identity.
var Share map[string]*schema.ObjectSchema

func BuildObject(s *Spec) *schema.ObjectSchema {
	if Share != nil {
		k := s.String()
		if o, ok := Share[k]; ok {
			return o
		}
		o := buildObject(s)
		Share[k] = o
		if OnBuild != nil {
			OnBuild(s, o)
		}
		return o
	}
	o := buildObject(s)
	if OnBuild != nil {
		OnBuild(s, o)
	}
	return o
}

func buildObject(s *Spec) *schema.ObjectSchema {
	props := buildProps(s)
	o := constructObject(s, props)
	for _, p := range s.Props {
		if p.Disabled && p.DisabledLate {
			props[p.Name].Disable("disabled after construction")
		}
	}
	return o
}

func constructObject(s *Spec, props map[string]*schema.PropertySchema) *schema.ObjectSchema {
	if s.Struct == "" {
		if s.Unenforced {
			return schema.NewUnenforcedIDObjectSchema(s.ID, props)
		}
		return schema.NewObjectSchema(s.ID, props)
	}
	shape, ok := Shapes[s.Struct]
	if !ok {
		panic("unknown struct shape " + s.Struct)
	}
	return shape.New(s.ID, props)
}

// BuildScope builds a scope spec.
func BuildScope(s *Spec) *schema.ScopeSchema {
	var root *schema.ObjectSchema
	var others []*schema.ObjectSchema
	for _, o := range s.Objects {
		ob := BuildObject(o)
		if o.ID == s.Root && root == nil {
			root = ob
		} else {
			others = append(others, ob)
		}
	}
	if root == nil {
		panic("scope spec without root object " + s.Root)
	}
	return schema.NewScopeSchema(root, others...)
}

// Walk visits every spec node (pre-order).
func (s *Spec) Walk(f func(*Spec)) {
	if s == nil {
		return
	}
	f(s)
	s.Item.Walk(f)
	s.Key.Walk(f)
	s.Val.Walk(f)
	for i := range s.Props {
		s.Props[i].Type.Walk(f)
	}
	for i := range s.Members {
		s.Members[i].Type.Walk(f)
	}
	for _, o := range s.Objects {
		o.Walk(f)
	}
}

// Clone deep-copies a spec.
func (s *Spec) Clone() *Spec {
	if s == nil {
		return nil
	}
	c := *s
	if s.Min != nil {
		c.Min = I64(*s.Min)
	}
	if s.Max != nil {
		c.Max = I64(*s.Max)
	}
	if s.FMin != nil {
		c.FMin = F64(*s.FMin)
	}
	if s.FMax != nil {
		c.FMax = F64(*s.FMax)
	}
	c.EnumS = append([]string(nil), s.EnumS...)
	c.EnumI = append([]int64(nil), s.EnumI...)
	if s.EnumNames != nil {
		c.EnumNames = map[string]string{}
		for k, v := range s.EnumNames {
			c.EnumNames[k] = v
		}
	}
	c.Item, c.Key, c.Val = s.Item.Clone(), s.Key.Clone(), s.Val.Clone()
	c.Props = nil
	for _, p := range s.Props {
		q := p
		q.Type = p.Type.Clone()
		q.RequiredIf = append([]string(nil), p.RequiredIf...)
		q.RequiredIfNot = append([]string(nil), p.RequiredIfNot...)
		q.Conflicts = append([]string(nil), p.Conflicts...)
		if p.Default != nil {
			q.Default = Str(*p.Default)
		}
		c.Props = append(c.Props, q)
	}
	c.Members = nil
	for _, m := range s.Members {
		q := m
		q.Type = m.Type.Clone()
		c.Members = append(c.Members, q)
	}
	c.Objects = nil
	for _, o := range s.Objects {
		c.Objects = append(c.Objects, o.Clone())
	}
	return &c
}

// PropNames returns the sorted property names of an object spec.
func (s *Spec) PropNames() []string {
	var n []string
	for _, p := range s.Props {
		n = append(n, p.Name)
	}
	sort.Strings(n)
	return n
}

// Prop returns the named property.
func (s *Spec) Prop(name string) *Prop {
	for i := range s.Props {
		if s.Props[i].Name == name {
			return &s.Props[i]
		}
	}
	return nil
}
