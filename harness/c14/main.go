// C14: references resolve lexically; inlining a reference never changes behaviour.
//
// Scope trees with colliding object ids, references under properties / lists / maps / one-ofs, three
// namespaces and recursive objects are enumerated. For each tree an explicit-state breadth-first search
// runs over all sequences of ApplyNamespace calls; in every state the set of linked references (and what
// each one points to) must equal the reference resolver's. Fully linked trees are compared with their
// mechanically inlined twin on every input; recursive graphs are run on inputs of depth 0..50.
package main

import (
	"encoding/json"
	"fmt"
	"go.flow.arcalot.io/pluginsdk/mcrt"
	"sort"
	"strings"
	"time"

	"go.flow.arcalot.io/pluginsdk/schema"
	"verif/engine/lib"
	"verif/engine/ux"
	"verif/harness/ukit"
)

func obj(id, marker string, extra ...ukit.Prop) *ukit.Spec {
	o := &ukit.Spec{Kind: ukit.KObject, ID: id, Props: []ukit.Prop{
		// the marker makes objects with the same id distinguishable by behaviour
		{Name: "tag", Type: &ukit.Spec{Kind: ukit.KStrEnum, EnumS: []string{marker}}, Required: true},
	}}
	o.Props = append(o.Props, extra...)
	return o
}

func ref(id, ns string) *ukit.Spec { return &ukit.Spec{Kind: ukit.KRef, RefID: id, RefNS: ns} }

// position of a reference inside the root / inner object
func wrap(pos string, r *ukit.Spec) *ukit.Spec {
	switch pos {
	case "list":
		return &ukit.Spec{Kind: ukit.KList, Item: r, Max: ukit.I64(2)}
	case "map":
		return &ukit.Spec{Kind: ukit.KMap, Key: &ukit.Spec{Kind: ukit.KString}, Val: r}
	case "oneof":
		// two members that belong to different namespaces (the second one cyclically the next namespace)
		other := map[string]string{"": "n1", "n1": "n2", "n2": ""}[r.RefNS]
		return &ukit.Spec{Kind: ukit.KOneOfStr, Discriminator: "_t", Members: []ukit.Member{{KeyS: "x", Type: r}, {KeyS: "y", Type: ref("B", other)}}}
	}
	return r
}

var positions = []string{"prop", "list", "map", "oneof"}
var nss = []string{"", "n1", "n2"}

// trees enumerates scope trees: outer scope {Root, A, B}; Root holds one reference at each of two chosen positions
// and a nested scope {I, A'} whose object id A collides with the outer one and which holds two references itself.
func trees(tier string) []*ukit.Spec {
	var out []*ukit.Spec
	for _, p1 := range positions {
		for _, ns1 := range nss {
			for _, p2 := range positions {
				for _, ns2 := range nss {
					if tier != "thorough" && p1 != "prop" && p2 != "prop" && p1 != p2 {
						continue
					}
					inner := &ukit.Spec{Kind: ukit.KScope, Root: "I", Objects: []*ukit.Spec{
						obj("I", "inner-root", ukit.Prop{Name: "ia", Type: wrap(p2, ref("A", ns2))}, ukit.Prop{Name: "ib", Type: ref("B", "n1")}),
						obj("A", "inner-A"),
						obj("B", "inner-B"),
					}}
					root := obj("Root", "outer-root",
						ukit.Prop{Name: "ra", Type: wrap(p1, ref("A", ns1))},
						ukit.Prop{Name: "rb", Type: ref("B", "")},
						ukit.Prop{Name: "inner", Type: inner},
					)
					out = append(out, &ukit.Spec{Kind: ukit.KScope, Root: "Root", Objects: []*ukit.Spec{root, obj("A", "outer-A"), obj("B", "outer-B", ukit.Prop{Name: "back", Type: ref("A", "")})}})
				}
			}
		}
	}
	out = append(out, chainTrees()...)
	// references by a table key that is not the id of the object found under it (an alias in a namespace table)
	for _, pos := range []string{"prop", "list", "oneof"} {
		root := obj("Root", "outer-root",
			ukit.Prop{Name: "ra", Type: ref("A", "")},
			ukit.Prop{Name: "al", Type: wrap(pos, ref("Alias", "n1"))},
		)
		out = append(out, &ukit.Spec{Kind: ukit.KScope, Root: "Root", Objects: []*ukit.Spec{root, obj("A", "outer-A"), obj("B", "outer-B")}})
	}
	// a one-of whose member is a struct-mapped object of another namespace (and one of the scope's own)
	for _, ns := range []string{"n1", "n2"} {
		root := obj("Root", "outer-root",
			ukit.Prop{Name: "u", Type: &ukit.Spec{Kind: ukit.KOneOfStr, Discriminator: "_t", Members: []ukit.Member{{KeyS: "x", Type: ref("SA", ns)}, {KeyS: "y", Type: ref("B", "")}}}},
		)
		out = append(out, &ukit.Spec{Kind: ukit.KScope, Root: "Root", Objects: []*ukit.Spec{root, obj("A", "outer-A"), obj("B", "outer-B")}})
	}
	// a struct-mapped root whose pointer field is a reference to a pointer-mapped struct of another namespace (and whose
	// by-value field is one of the scope's own)
	for _, ns := range []string{"n1", "n2"} {
		root := &ukit.Spec{Kind: ukit.KObject, ID: "Root", Struct: "SNest", Props: []ukit.Prop{
			{Name: "sub", Type: ref("Own", "")},
			{Name: "p", Type: ref("SP", ns)},
			{Name: "x", Type: &ukit.Spec{Kind: ukit.KString}},
		}}
		own := &ukit.Spec{Kind: ukit.KObject, ID: "Own", Struct: "SA", Props: []ukit.Prop{
			{Name: "s", Type: &ukit.Spec{Kind: ukit.KString}, Required: true},
			{Name: "i", Type: &ukit.Spec{Kind: ukit.KInt}}}}
		out = append(out, &ukit.Spec{Kind: ukit.KScope, Root: "Root", Objects: []*ukit.Spec{root, own}})
	}
	// references below a disabled property (disabled before anything is linked, as the builders and a loaded
	// description do it): a disabled property rejects values, its type is still part of the schema
	for _, ns := range nss {
		for _, pos := range []string{"prop", "list"} {
			root := obj("Root", "outer-root",
				ukit.Prop{Name: "ra", Type: ref("A", "")},
				ukit.Prop{Name: "off", Type: wrap(pos, ref("A", ns)), Disabled: true},
				ukit.Prop{Name: "offb", Type: ref("B", "n1"), Disabled: true, DisabledNoReason: true},
			)
			out = append(out, &ukit.Spec{Kind: ukit.KScope, Root: "Root", Objects: []*ukit.Spec{root, obj("A", "outer-A"), obj("B", "outer-B")}})
		}
	}
	return out
}

// chainTrees: chains of single-property objects (so that a lone value is legal shorthand all the way down) that pass
// through two DIFFERENT objects with the same id - an inner scope's object shadowing the outer one, a same-named
// object of another namespace, a reference that resolves inside a nested scope.
func chainTrees() []*ukit.Spec {
	one := func(id, prop string, t *ukit.Spec) *ukit.Spec {
		return &ukit.Spec{Kind: ukit.KObject, ID: id, Props: []ukit.Prop{{Name: prop, Type: t}}}
	}
	leaf := func() *ukit.Spec { return &ukit.Spec{Kind: ukit.KInt, Min: ukit.I64(0), Max: ukit.I64(5)} }
	scope := func(root string, objs ...*ukit.Spec) *ukit.Spec {
		return &ukit.Spec{Kind: ukit.KScope, Root: root, Objects: objs}
	}
	return []*ukit.Spec{
		// Root.a -> outer A -> (nested scope) inner A -> int
		scope("Root", one("Root", "a", ref("A", "")), one("A", "inner", scope("A", one("A", "v", leaf())))),
		// Root.a -> outer A -> n1's A (one property: its marker tag)
		scope("Root", one("Root", "a", ref("A", "")), one("A", "far", ref("A", "n1"))),
		// Root.a -> outer A -> nested scope I -> reference resolved to the inner A -> int
		scope("Root", one("Root", "a", ref("A", "")), one("A", "in", scope("I", one("I", "x", ref("A", "")), one("A", "v", leaf())))),
		// the same object reached twice on one chain is a real cycle and must stay rejected: Root.a -> A -> A ...
		scope("Root", one("Root", "a", ref("A", "")), one("A", "again", ref("A", ""))),
		// a struct-mapped root whose absent map-typed field is filled with the defaults of the objects below it; the
		// same object is referenced twice in that sub-tree (siblings; cousins): being used twice is not a cycle
		scope("Root",
			&ukit.Spec{Kind: ukit.KObject, ID: "Root", Struct: "SLink", Props: []ukit.Prop{{Name: "name", Type: &ukit.Spec{Kind: ukit.KString}, Required: true}, {Name: "link", Type: ref("Link", "")}}},
			&ukit.Spec{Kind: ukit.KObject, ID: "Link", Props: []ukit.Prop{{Name: "src", Type: ref("Ep", "")}, {Name: "dst", Type: ref("Ep", "")}}},
			&ukit.Spec{Kind: ukit.KObject, ID: "Ep", Props: []ukit.Prop{{Name: "port", Type: leaf(), Default: ukit.Str("5")}, {Name: "host", Type: &ukit.Spec{Kind: ukit.KString}}}}),
		scope("Root",
			&ukit.Spec{Kind: ukit.KObject, ID: "Root", Struct: "SLink", Props: []ukit.Prop{{Name: "name", Type: &ukit.Spec{Kind: ukit.KString}, Required: true}, {Name: "link", Type: ref("Link", ""), Required: true}}},
			&ukit.Spec{Kind: ukit.KObject, ID: "Link", Props: []ukit.Prop{{Name: "a", Type: ref("MidA", ""), Required: true}, {Name: "b", Type: ref("MidB", ""), Required: true}}},
			one("MidA", "e", ref("Ep", "")), one("MidB", "e", ref("Ep", "")),
			&ukit.Spec{Kind: ukit.KObject, ID: "Ep", Props: []ukit.Prop{{Name: "port", Type: leaf(), Default: ukit.Str("5")}}}),
	}
}

// external tables applied for the foreign namespaces
func external(ns string) []*ukit.Spec {
	return []*ukit.Spec{obj("A", ns+"-A"), obj("B", ns+"-B"),
		// a struct-mapped object: its values are Go structs, which a one-of recognises by their type
		// the same mapped to a pointer (*SA): the type of a pointer field
		{Kind: ukit.KObject, ID: "SP", Struct: "SA*", Props: []ukit.Prop{
			{Name: "s", Type: &ukit.Spec{Kind: ukit.KString}, Required: true},
			{Name: "i", Type: &ukit.Spec{Kind: ukit.KInt}}}},
		{Kind: ukit.KObject, ID: "SA", Struct: "SA", Props: []ukit.Prop{
			{Name: "s", Type: &ukit.Spec{Kind: ukit.KString}, Required: true},
			{Name: "i", Type: &ukit.Spec{Kind: ukit.KInt, Min: ukit.I64(0), Max: ukit.I64(5)}, Default: ukit.Str("2")}}}}
}

type batch struct {
	Kind string `json:"kind"` // tree / recursive
	Idx  int    `json:"idx"`
}

type replay struct {
	Kind string     `json:"kind"`
	Spec *ukit.Spec `json:"spec"`
	Seq  []string   `json:"namespaces_applied,omitempty"`
	Idx  int        `json:"idx"`
}

type built struct {
	scope *schema.ScopeSchema
	nodes map[*ukit.Spec]schema.Type
	ext   map[string]map[string]*schema.ObjectSchema
	extS  map[string]map[string]*ukit.Spec
}

// buildTree builds a fresh instance of the tree (self namespace applied by the constructor) and fresh externals.
func buildTree(spec *ukit.Spec) (*built, *ukit.Spec) {
	s := spec.Clone()
	b := &built{nodes: map[*ukit.Spec]schema.Type{}, ext: map[string]map[string]*schema.ObjectSchema{}, extS: map[string]map[string]*ukit.Spec{}}
	ukit.OnBuild = func(n *ukit.Spec, t schema.Type) { b.nodes[n] = t }
	b.scope = ukit.BuildScope(s)
	ukit.OnBuild = nil
	ukit.Link(s)
	for _, ns := range []string{"n1", "n2"} {
		b.ext[ns] = map[string]*schema.ObjectSchema{}
		b.extS[ns] = map[string]*ukit.Spec{}
		for _, o := range external(ns) {
			b.ext[ns][o.ID] = ukit.BuildObject(o)
			b.extS[ns][o.ID] = o
		}
		// an alias: the table also lists object A under another key (a reference is resolved by the key of the table,
		// whatever id the object it finds there carries)
		b.ext[ns]["Alias"] = b.ext[ns]["A"]
		b.extS[ns]["Alias"] = b.extS[ns]["A"]
	}
	return b, s
}

func (b *built) apply(s *ukit.Spec, ns string) {
	if strings.HasSuffix(ns, "!") {
		// a failed application: the table lacks every object, so the first reference of that namespace that is reached
		// panics (the documented answer to a dangling reference). A caller that recovers must find every reference as it
		// was: nothing of that namespace can have been linked by this call, whatever the order.
		ukit.Call(func() { b.scope.ApplyNamespace(map[string]*schema.ObjectSchema{}, strings.TrimSuffix(ns, "!")) })
		return
	}
	switch ns {
	case "":
		b.scope.ApplySelf()
		ukit.Link(s)
	default:
		b.scope.ApplyNamespace(b.ext[ns], ns)
		ukit.ApplyNS(s, b.extS[ns], ns)
	}
}

// marker returns the tag value an object accepts (identifies which object a reference points to).
func markerOf(o schema.Object) string {
	p := o.Properties()["tag"]
	if p == nil {
		return "?"
	}
	if e, ok := p.Type().(*schema.StringEnumSchema); ok {
		for k := range e.ValidValues() {
			return k
		}
	}
	return "?"
}

func specMarker(o *ukit.Spec) string {
	if p := o.Prop("tag"); p != nil && len(p.Type.EnumS) > 0 {
		return p.Type.EnumS[0]
	}
	return "?"
}

// linkState compares the implementation's linked references with the reference resolver's and returns the state key.
func (b *built) linkState(s *ukit.Spec) (key string, diff string) {
	var parts []string
	allLinked := true
	for _, r := range s.Refs() {
		real, ok := b.nodes[r].(*schema.RefSchema)
		if !ok {
			continue
		}
		want := "unlinked"
		if r.Resolved() != nil {
			want = specMarker(r.Resolved())
		} else {
			allLinked = false
		}
		got := "unlinked"
		if real.ObjectReady() {
			got = markerOf(real.GetObject())
		}
		parts = append(parts, fmt.Sprintf("%s@%s=%s", r.RefID, r.RefNS, got))
		if got != want {
			diff += fmt.Sprintf("reference %s (namespace %q): implementation %s, lexical resolution %s\n", r.RefID, r.RefNS, got, want)
		}
	}
	verr := b.scope.ValidateReferences()
	if (verr == nil) != allLinked {
		diff += fmt.Sprintf("ValidateReferences -> %v although all-linked=%v\n", verr, allLinked)
	}
	sort.Strings(parts)
	return strings.Join(parts, ","), diff
}

// inlineTwin replaces every reference by a copy of the object it denotes (non-recursive trees only).
func inlineTwin(s *ukit.Spec) *ukit.Spec {
	inlined := 0
	var conv func(n *ukit.Spec, depth int) *ukit.Spec
	conv = func(n *ukit.Spec, depth int) *ukit.Spec {
		if n == nil {
			return nil
		}
		if n.Kind == ukit.KRef {
			if n.Resolved() == nil || depth > 6 {
				return n.Clone()
			}
			// the copy gets an id of its own: an inlined object is a different object, and nothing may depend on its name
			c := conv(n.Resolved(), depth+1)
			inlined++
			c.ID = fmt.Sprintf("%s_inlined%d", c.ID, inlined)
			return c
		}
		c := *n
		c.Item, c.Key, c.Val = conv(n.Item, depth), conv(n.Key, depth), conv(n.Val, depth)
		c.Props = nil
		for _, p := range n.Props {
			q := p
			q.Type = conv(p.Type, depth)
			c.Props = append(c.Props, q)
		}
		c.Members = nil
		for _, m := range n.Members {
			q := m
			q.Type = conv(m.Type, depth)
			c.Members = append(c.Members, q)
		}
		c.Objects = nil
		for _, o := range n.Objects {
			c.Objects = append(c.Objects, conv(o, depth))
		}
		return &c
	}
	return conv(s, 0)
}

func outcome(v any, err error) string {
	if err != nil {
		return "reject"
	}
	return "accept " + ukit.Snapshot(v)
}

func checkTree(spec *ukit.Spec, idx int, res *ux.Result) {
	fail := func(sig, detail string, seq []string) {
		res.Add(sig, detail+"\ntree: "+spec.String(), replay{"tree", spec, seq, idx})
	}
	alphabet := []string{"n1", "n2", "", "n1!", "n2!"}
	type node struct{ seq []string }
	seen := map[string]bool{}
	frontier := []node{{nil}}
	var fullyLinkedSeq []string
	for depth := 0; depth <= 3 && len(frontier) > 0; depth++ {
		var next []node
		for _, nd := range frontier {
			// every iteration order (one deviating map iteration at a time, all permutations) of building the tree and
			// applying the namespaces must give the same, lexically correct, link state
			var key, diff string
			var panicked, lsPanic string
			keys := map[string]string{}
			e := &mcrt.Explorer{Embedded: true, MaxPreempt: 0, MaxDelay: -1, MaxDeviate: 1, MaxSteps: 1 << 20, Body: func() {
				b, sp := buildTree(spec)
				for _, ns := range nd.seq {
					b.apply(sp, ns)
				}
				lsPanic = ""
				if pan, val, stack := ukit.Call(func() { key, diff = b.linkState(sp) }); pan {
					lsPanic = fmt.Sprintf("%s: %s", lib.PanicSite(stack), lib.PanicClass(fmt.Sprint(val)))
					key = "panic"
				}
			}, Check: func(r *mcrt.Result) bool {
				res.Evaluations++
				res.Transitions += len(nd.seq)
				if r.Status == mcrt.StComplete && lsPanic != "" {
					fail("panic while inspecting the references: "+lsPanic, fmt.Sprintf("after applying namespaces %q (a name ending in ! is an application with an empty table, recovered)", nd.seq), nd.seq)
				}
				switch r.Status {
				case mcrt.StPanic:
					panicked = fmt.Sprintf("panic in %s: %s", lib.PanicSite(r.PanicStack), lib.PanicClass(r.PanicValue))
				case mcrt.StComplete:
					if diff != "" {
						fail("references are not resolved lexically", fmt.Sprintf("after applying namespaces %q (map orders %v):\n%s", nd.seq, r.Choices, diff), nd.seq)
					}
					if _, ok := keys[key]; !ok {
						keys[key] = fmt.Sprint(r.Choices)
					}
				}
				return true
			}}
			e.All()
			if panicked != "" {
				fail(panicked, fmt.Sprintf("applying namespaces %q panicked", nd.seq), nd.seq)
				continue
			}
			if len(keys) > 1 {
				fail("which references get linked depends on map iteration order", fmt.Sprintf("after applying namespaces %q: %v", nd.seq, keys), nd.seq)
			}
			if seen[key] {
				continue
			}
			seen[key] = true
			if !strings.Contains(key, "unlinked") && fullyLinkedSeq == nil {
				fullyLinkedSeq = append([]string{}, nd.seq...)
				if fullyLinkedSeq == nil {
					fullyLinkedSeq = []string{}
				}
			}
			if depth < 3 {
				for _, ns := range alphabet {
					next = append(next, node{append(append([]string{}, nd.seq...), ns)})
				}
			}
		}
		frontier = next
	}
	res.States += len(seen)
	if len(seen) > 1 {
		res.Nontrivial++
	}
	if fullyLinkedSeq == nil {
		return
	}
	// fully linked: compare with the inlined twin on every input
	pan, val, stack := ukit.Call(func() {
		// native values of this tree (as its inlined twin unserializes them: structs where objects are struct-mapped)
		var probes []any
		{
			b0, s0 := buildTree(spec)
			for _, ns := range fullyLinkedSeq {
				b0.apply(s0, ns)
			}
			t0 := ukit.BuildScope(inlineTwin(s0))
			for _, v := range ukit.ValidValues(s0, 3) {
				if n, err := t0.Unserialize(ukit.DeepCopy(v)); err == nil {
					probes = append(probes, n)
				}
			}
		}
		b, s := buildTree(spec)
		// the schema is used while it is still being linked (validation attempts with native values before and between
		// the applications; before everything is linked they fail): what it does once fully linked must not depend on that
		probe := func() {
			for _, n := range probes {
				n := n
				ukit.Call(func() { _ = b.scope.Validate(n) })
				ukit.Call(func() { _, _ = b.scope.Serialize(n) })
			}
		}
		for _, ns := range fullyLinkedSeq {
			probe()
			b.apply(s, ns)
		}
		probe()
		twinSpec := inlineTwin(s)
		twin := ukit.BuildScope(twinSpec)
		// A comparison that fails half-way must not be remembered. The inlined twin (every object declared in place) is
		// asked whether it can consume single-feature mutants of the tree while their foreign references are still
		// unlinked - the comparison ends in an error or in the documented panic for an unlinked reference, which the
		// caller recovers; the mutant is then linked and compared again with the same twin and with a fresh one: same
		// verdict. (Trees with reference cycles are left out: comparing them does not terminate - C15's finding.)
		if !ukit.IsRecursive(spec) {
			used := ukit.BuildScope(inlineTwin(s))
			muts := ukit.Mutations(spec)
			for mi, m := range muts {
				if mi >= 40 {
					break
				}
				var bm *built
				var sm *ukit.Spec
				if pan, _, _ := ukit.Call(func() { bm, sm = buildTree(m) }); pan {
					continue // the constructors refuse this mutant
				}
				ukit.Call(func() { _ = used.ValidateCompatibility(bm.scope) })
				linked := true
				for _, ns := range fullyLinkedSeq {
					if pan, _, _ := ukit.Call(func() { bm.apply(sm, ns) }); pan {
						linked = false
					}
				}
				if !linked || bm.scope.ValidateReferences() != nil {
					continue
				}
				res.Evaluations++
				verdict := func(c schema.Type) string {
					out := "panic"
					ukit.Call(func() {
						if err := c.ValidateCompatibility(bm.scope); err != nil {
							out = "reject"
						} else {
							out = "accept"
						}
					})
					return out
				}
				if vu, vf := verdict(used), verdict(ukit.BuildScope(inlineTwin(s))); vu != vf {
					fail("a schema comparison depends on an earlier comparison that failed", fmt.Sprintf("consumer: the inlined twin; producer: mutant #%d of the tree, first compared while its references were unlinked (failed), then linked: the same consumer now says %s, a fresh one %s\nmutant: %s", mi, vu, vf, m), fullyLinkedSeq)
				}
			}
		}
		// the same tree as an engine gets it: described, loaded from the description, the same namespaces applied
		var loaded *schema.ScopeSchema
		if !ukit.PureMapBased(s) {
			// a struct-mapped tree and its (map-based) loaded copy do not denote the same values
		} else if d, err := b.scope.SelfSerialize(); err != nil {
			fail("a linked tree cannot describe itself", err.Error(), fullyLinkedSeq)
		} else if l, err := schema.UnserializeScope(d); err != nil {
			fail("a linked tree's own description is rejected", err.Error(), fullyLinkedSeq)
		} else {
			loaded = l
			fresh, _ := buildTree(spec) // fresh external tables for the loaded copy
			for _, ns := range fullyLinkedSeq {
				if ns != "" && !strings.HasSuffix(ns, "!") {
					loaded.ApplyNamespace(fresh.ext[ns], ns)
				}
			}
			if err := loaded.ValidateReferences(); err != nil {
				fail("references of a tree loaded from its description are not all linked after the same applications", err.Error(), fullyLinkedSeq)
				loaded = nil
			}
		}
		inputs := append(ukit.ValidValues(s, 3), ukit.RawValues(s)...)
		for _, v := range ukit.ValidValues(s, 3) {
			// the same inputs with one-property objects given as their lone value
			if sh, changed := ukit.Shorthand(s, v); changed {
				inputs = append(inputs, sh)
			}
		}
		inputs = append(inputs, int64(3), "n1-A", "outer-A")
		for _, in := range inputs {
			res.Evaluations++
			uo, eo := b.scope.Unserialize(ukit.DeepCopy(in))
			ut, et := twin.Unserialize(ukit.DeepCopy(in))
			if outcome(uo, eo) != outcome(ut, et) {
				fail("inlining references changes Unserialize", fmt.Sprintf("input %s: with references -> %s, inlined -> %s", ukit.Show(in), outcome(uo, eo), outcome(ut, et)), fullyLinkedSeq)
				continue
			}
			if loaded != nil {
				ul, el := loaded.Unserialize(ukit.DeepCopy(in))
				if outcome(ul, el) != outcome(uo, eo) {
					fail("a tree loaded from its description resolves references differently", fmt.Sprintf("input %s: built -> %s, loaded -> %s", ukit.Show(in), outcome(uo, eo), outcome(ul, el)), fullyLinkedSeq)
					continue
				}
			}
			if eo != nil {
				continue
			}
			if (b.scope.Validate(uo) == nil) != (twin.Validate(ut) == nil) {
				fail("inlining references changes Validate", ukit.Show(uo), fullyLinkedSeq)
			}
			wo, e1 := b.scope.Serialize(uo)
			wt, e2 := twin.Serialize(ut)
			if outcome(wo, e1) != outcome(wt, e2) {
				fail("inlining references changes Serialize", fmt.Sprintf("value %s: with references -> %s, inlined -> %s", ukit.Show(uo), outcome(wo, e1), outcome(wt, e2)), fullyLinkedSeq)
			}
		}
	})
	if pan {
		fail(fmt.Sprintf("panic in %s: %s", lib.PanicSite(stack), lib.PanicClass(fmt.Sprint(val))), fmt.Sprintf("twin comparison panicked: %v", val), fullyLinkedSeq)
	}
}

// recursive graphs on inputs of depth 0..50
func recursiveSpecs() []*ukit.Spec {
	ss := ukit.ScopeSpecs()
	return []*ukit.Spec{ss[2], ss[3], {Kind: ukit.KScope, Root: "T", Objects: []*ukit.Spec{
		{Kind: ukit.KObject, ID: "T", Props: []ukit.Prop{
			{Name: "v", Type: &ukit.Spec{Kind: ukit.KInt, Min: ukit.I64(0)}, Required: true},
			{Name: "kids", Type: &ukit.Spec{Kind: ukit.KMap, Key: &ukit.Spec{Kind: ukit.KString}, Val: ref("T", "")}},
			{Name: "alt", Type: &ukit.Spec{Kind: ukit.KOneOfStr, Discriminator: "_t", Members: []ukit.Member{{KeyS: "t", Type: ref("T", "")}}}},
		}},
	}}}
}

func deepInput(specIdx, depth int, bad bool) any {
	var leaf any
	switch specIdx {
	case 0: // N{v, next}
		leaf = map[string]any{"v": int64(0)}
		if bad {
			leaf = map[string]any{"v": "not a number"}
		}
		for i := 0; i < depth; i++ {
			leaf = map[string]any{"v": int64(i), "next": leaf}
		}
	case 1: // P{kids: list<Q{name, parent: P}>}
		leaf = map[string]any{"kids": []any{}}
		if bad {
			leaf = map[string]any{"kids": "not a list"}
		}
		for i := 0; i < depth; i++ {
			leaf = map[string]any{"kids": []any{map[string]any{"name": fmt.Sprint(i), "parent": leaf}}}
		}
	default: // T{v, kids: map<string,T>, alt: oneof{t: T}}
		leaf = map[string]any{"v": int64(1)}
		if bad {
			leaf = map[string]any{"v": int64(-5)}
		}
		for i := 0; i < depth; i++ {
			if i%2 == 0 {
				leaf = map[string]any{"v": int64(i), "kids": map[any]any{"k": leaf}}
			} else {
				m := map[string]any{"_t": "t"}
				for k, v := range leaf.(map[string]any) {
					m[k] = v
				}
				leaf = map[string]any{"v": int64(i), "alt": m}
			}
		}
	}
	return leaf
}

func checkRecursive(idx int, res *ux.Result) {
	spec := recursiveSpecs()[idx]
	sch := ukit.BuildScope(spec)
	for depth := 0; depth <= 50; depth++ {
		for _, bad := range []bool{false, true} {
			in := deepInput(idx, depth, bad)
			res.Evaluations++
			pan, val, stack := ukit.Call(func() {
				u, err := sch.Unserialize(in)
				if (err == nil) == bad {
					res.Add("recursive schema gives the wrong verdict on a deep input", fmt.Sprintf("schema %s, nesting depth %d, offending leaf=%v: Unserialize -> %v", spec, depth, bad, err), replay{"recursive", spec, nil, idx})
					return
				}
				if err == nil {
					if verr := sch.Validate(u); verr != nil {
						res.Add("recursive schema rejects its own unserialized value", fmt.Sprintf("depth %d: %v", depth, verr), replay{"recursive", spec, nil, idx})
					}
					if _, serr := sch.Serialize(u); serr != nil {
						res.Add("recursive schema cannot serialize its own unserialized value", fmt.Sprintf("depth %d: %v", depth, serr), replay{"recursive", spec, nil, idx})
					}
				}
			})
			if pan {
				res.Add(fmt.Sprintf("panic in %s: %s", lib.PanicSite(stack), lib.PanicClass(fmt.Sprint(val))), fmt.Sprintf("depth %d: %v", depth, val), replay{"recursive", spec, nil, idx})
			}
		}
	}
	res.Nontrivial++
}

func main() {
	ux.Main(ux.Harness{
		Property:   "C14",
		Level:      "model_checking",
		Exhaustive: true,
		ModelCheck: true,
		Batches: func(tier string) []any {
			var out []any
			for i := range trees(tier) {
				out = append(out, batch{"tree", i})
			}
			for i := range recursiveSpecs() {
				out = append(out, batch{"recursive", i})
			}
			return out
		},
		Run: func(tier string, raw json.RawMessage, from int, deadline time.Time) ux.Result {
			var b batch
			_ = json.Unmarshal(raw, &b)
			var res ux.Result
			ux.Progress(0)
			if b.Kind == "tree" {
				spec := trees(tier)[b.Idx]
				checkTree(spec, b.Idx, &res)
				if b.Idx%29 == 0 {
					res.Samples = append(res.Samples, map[string]any{"tree": spec.String(), "states": res.States, "transitions": res.Transitions})
				}
			} else {
				checkRecursive(b.Idx, &res)
			}
			return res
		},
		Replay: func(raw json.RawMessage) []ux.Finding {
			var r replay
			if json.Unmarshal(raw, &r) != nil {
				return nil
			}
			var res ux.Result
			if r.Kind == "tree" {
				checkTree(r.Spec, r.Idx, &res)
			} else {
				checkRecursive(r.Idx, &res)
			}
			return res.Findings
		},
		Rule: "scope trees = outer scope {Root, A, B} with a nested scope {I, A} whose object id collides with the outer one; one reference to A at each of 4 positions (property, list item, map value, one-of member) x 3 namespaces in the outer root and likewise in the inner root, plus fixed references to B (self and n1) and a back-reference; objects with equal ids carry different marker enums so that what a reference denotes is observable. For every tree: breadth-first search over all sequences (depth <= 3) of ApplyNamespace calls over {n1, n2, self, n1 with an empty table, n2 with an empty table} (the last two fail with the documented panic for a dangling reference, which is recovered: every reference must be as before); state = which reference is linked to which object; every state is compared with the lexical reference resolver (ObjectReady, target, ValidateReferences). The first fully linked state is compared with the mechanically inlined twin (and with the same tree loaded from its own description, the same namespaces applied) on every raw value of V(tree) for Unserialize / Validate / Serialize. Three recursive graphs (list, mutual, map + one-of) are run on valid and invalid inputs of nesting depth 0..50; non-trivial = trees with more than one link state",
		Assumptions: []string{
			"states are rebuilt from a fresh instance per BFS node (live schemas cannot be cloned)",
			"inlining is only defined for non-recursive graphs",
		},
	})
}
