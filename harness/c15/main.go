// C15: compatibility checking terminates, is reflexive, deterministic and kind-sound.
package main

import (
	"encoding/json"
	"fmt"
	"runtime/debug"
	"time"

	"go.flow.arcalot.io/pluginsdk/mcrt"
	"go.flow.arcalot.io/pluginsdk/schema"
	"verif/engine/lib"
	"verif/engine/ux"
	"verif/harness/ukit"
)

func universe(tier string) []*ukit.Spec {
	out := ukit.Universe(2, tier == "thorough")
	// one-ofs with an inlined discriminator whose members declare a second property of the discriminator's type (so that
	// "another discriminator" exists as a single-feature mutation of them, see ukit.Mutations), and one-ofs without
	// members
	for _, k := range []ukit.Kind{ukit.KOneOfStr, ukit.KOneOfInt} {
		t := &ukit.Spec{Kind: ukit.KString}
		if k == ukit.KOneOfInt {
			t = &ukit.Spec{Kind: ukit.KInt}
		}
		two := func(o *ukit.Spec) *ukit.Spec {
			c := o.Clone()
			c.Props = append(c.Props, ukit.Prop{Name: "_type", Type: t.Clone(), Required: true}, ukit.Prop{Name: "_alt", Type: t.Clone(), Required: true})
			return c
		}
		out = append(out,
			&ukit.Spec{Kind: k, Discriminator: "_type", Inlined: true, Members: []ukit.Member{
				{KeyS: "a", KeyI: 1, Type: two(ukit.MapObjA("A"))}, {KeyS: "b", KeyI: 2, Type: two(ukit.MapObjB("B"))}}},
			&ukit.Spec{Kind: k, Discriminator: "_type", Inlined: true},
			&ukit.Spec{Kind: k, Discriminator: "_type", Inlined: false})
	}
	return out
}

// unrelated is a fixed set used as producers for every consumer.
func unrelated() []*ukit.Spec {
	out := []*ukit.Spec{}
	out = append(out, ukit.RepLeaves()...)
	out = append(out,
		&ukit.Spec{Kind: ukit.KList, Item: &ukit.Spec{Kind: ukit.KInt}},
		&ukit.Spec{Kind: ukit.KList, Item: &ukit.Spec{Kind: ukit.KString}},
		&ukit.Spec{Kind: ukit.KMap, Key: &ukit.Spec{Kind: ukit.KString}, Val: &ukit.Spec{Kind: ukit.KInt}},
		&ukit.Spec{Kind: ukit.KMap, Key: &ukit.Spec{Kind: ukit.KInt}, Val: &ukit.Spec{Kind: ukit.KString}},
		ukit.MapObjA("A"), ukit.MapObjB("B"), ukit.MapObjA("Other"),
		ukit.ShapeSpecs()[0], ukit.ShapeSpecs()[2],
	)
	out = append(out, ukit.OneOfSpecs()[0], ukit.OneOfSpecs()[3])
	out = append(out, ukit.ScopeSpecs()[0], ukit.ScopeSpecs()[1])
	// bound presence combinations for int / float / string / map sizes (overlapping and disjoint)
	for _, mn := range []*int64{nil, ukit.I64(-1), ukit.I64(7)} {
		for _, mx := range []*int64{nil, ukit.I64(0), ukit.I64(9)} {
			out = append(out, &ukit.Spec{Kind: ukit.KInt, Min: mn, Max: mx})
			out = append(out, &ukit.Spec{Kind: ukit.KString, Min: mn, Max: mx})
			out = append(out, &ukit.Spec{Kind: ukit.KMap, Key: &ukit.Spec{Kind: ukit.KString}, Val: &ukit.Spec{Kind: ukit.KInt}, Min: mn, Max: mx})
		}
	}
	for _, mn := range []*float64{nil, ukit.F64(-1), ukit.F64(7)} {
		for _, mx := range []*float64{nil, ukit.F64(0), ukit.F64(9)} {
			out = append(out, &ukit.Spec{Kind: ukit.KFloat, FMin: mn, FMax: mx})
		}
	}
	return out
}

type batch struct {
	Spec int `json:"spec"`
}

type replay struct {
	Consumer *ukit.Spec `json:"consumer"`
	Producer *ukit.Spec `json:"producer"`
	What     string     `json:"what"`
}

type pair struct {
	p    *ukit.Spec
	what string
}

func producers(c *ukit.Spec, tier string) []pair {
	out := []pair{{c.Clone(), "itself (second instance)"}}
	if ukit.PureMapBased(c) {
		out = append(out, pair{c.Clone(), rebuiltWhat})
	}
	for _, m := range ukit.Mutations(c) {
		out = append(out, pair{m, "single-feature mutation"})
	}
	for _, u := range unrelated() {
		out = append(out, pair{u, "unrelated"})
	}
	return out
}

func link(s *ukit.Spec) {
	s.Walk(func(n *ukit.Spec) {
		if n.Kind == ukit.KScope {
			ukit.Link(n)
		}
	})
}

func buildSafe(s *ukit.Spec) (t schema.Type, ok bool) {
	pan, _, _ := ukit.Call(func() { t = ukit.Build(s) })
	return t, !pan
}

const rebuiltWhat = "itself, rebuilt from its own description"

func checkPair(c *ukit.Spec, cs schema.Type, pr pair, tier string, res *ux.Result) {
	if pr.what == rebuiltWhat {
		// the same schema as an engine holds it: described, and loaded from the description without constructors;
		// compatible in both directions
		var rebuilt schema.Type
		if pan, _, _ := ukit.Call(func() {
			l, err := ukit.LoadType(pr.p)
			if err == nil {
				rebuilt = l
			}
		}); pan || rebuilt == nil {
			return // describing / loading is C09's business
		}
		link(c)
		evaluatePair(c, cs, rebuilt, pr, "", res)
		evaluatePair(c, rebuilt, cs, pr, " [the rebuilt schema as consumer, the built one as producer]", res)
		return
	}
	ps, ok := buildSafe(pr.p)
	if !ok {
		return // the mutation produced a schema the constructors refuse
	}
	link(c)
	link(pr.p)
	evaluatePair(c, cs, ps, pr, "", res)
	// The same pair with consumer and producer sharing the schema objects of their common parts (one plugin's schema
	// used on both sides of a connection): identity of parts must not stand in for comparing the whole.
	if shareable(c) && shareable(pr.p) {
		ukit.Share = map[string]*schema.ObjectSchema{}
		cs2, ok1 := buildSafe(c)
		ps2, ok2 := buildSafe(pr.p)
		ukit.Share = nil
		if ok1 && ok2 {
			evaluatePair(c, cs2, ps2, pr, " [common parts shared by identity]", res)
		}
	}
}

// shareable: the spec has objects, and no references (a shared object's references would be linked into two scopes).
func shareable(s *ukit.Spec) bool {
	objs, refs := false, false
	s.Walk(func(n *ukit.Spec) {
		if n.Kind == ukit.KObject {
			objs = true
		}
		if n.Kind == ukit.KRef || n.Kind == ukit.KScope {
			refs = true
		}
	})
	return objs && !refs
}

func evaluatePair(c *ukit.Spec, cs, ps schema.Type, pr pair, tag string, res *ux.Result) {
	rp := replay{c, pr.p, pr.what}
	desc := fmt.Sprintf("consumer %s\nproducer (%s) %s%s", c, pr.what, pr.p, tag)
	verdicts := map[string]string{}
	var first string
	execs := 0
	dev := 1
	e := &mcrt.Explorer{Embedded: true, MaxPreempt: 0, MaxDelay: -1, MaxDeviate: dev, MaxSteps: 1 << 20, Body: func() {
		if err := cs.ValidateCompatibility(ps); err != nil {
			first = "reject: " + err.Error()
		} else {
			first = "accept"
		}
	}, Check: func(r *mcrt.Result) bool {
		execs++
		switch r.Status {
		case mcrt.StPanic:
			res.Add(fmt.Sprintf("panic in %s: %s", lib.PanicSite(r.PanicStack), lib.PanicClass(r.PanicValue)), desc+"\npanic: "+r.PanicValue, rp)
		case mcrt.StComplete:
			k := first
			if len(k) > 6 {
				k = k[:6]
			}
			if _, seen := verdicts[k]; !seen {
				verdicts[k] = fmt.Sprintf("%s [orders %v]", first, r.Choices)
			}
		}
		return true
	}}
	e.Deadline = ux.BatchDeadline()
	e.All()
	res.Evaluations += execs
	if e.Stats.Capped {
		res.Capped = true // no verdict is drawn from a search that was cut short
		return
	}
	res.Nontrivial++
	if len(verdicts) > 1 {
		res.Add(fmt.Sprintf("compatibility verdict of %s depends on map iteration order", c.Kind), fmt.Sprintf("%s\n%v", desc, verdicts), rp)
		return
	}
	accepted := false
	msg := ""
	for k, v := range verdicts {
		accepted = k == "accept"
		msg = v
	}
	if len(verdicts) == 0 {
		return
	}
	if pr.what == "itself (second instance)" && !accepted && !degenerate(c) {
		res.Add(fmt.Sprintf("schema of kind %s is not compatible with itself", c.Kind), desc+"\n"+msg, rp)
	}
	if pr.what == rebuiltWhat && !accepted && !degenerate(c) {
		res.Add(fmt.Sprintf("schema of kind %s is not compatible with itself rebuilt from its own description", c.Kind), desc+"\n"+msg, rp)
	}
	if must, why := ukit.MustReject(c, pr.p); must && accepted && !degenerate(c) && !degenerate(pr.p) {
		res.Add(fmt.Sprintf("incompatible producer accepted: %s", classOf(why)), desc+"\nmust be rejected: "+why, rp)
	}
}

// degenerate: some node declares min > max, i.e. accepts nothing; reflexivity and 'ranges cannot overlap'
// contradict each other there, so no verdict is demanded.
func degenerate(s *ukit.Spec) bool {
	d := false
	s.Walk(func(n *ukit.Spec) {
		if (n.Min != nil && n.Max != nil && *n.Min > *n.Max) || (n.FMin != nil && n.FMax != nil && *n.FMin > *n.FMax) {
			d = true
		}
	})
	return d
}

func classOf(why string) string {
	for _, k := range []string{"different base kind", "ranges cannot overlap", "enum offers", "undeclared property", "lacks the required", "different enforced object id", "different discriminator", "member missing"} {
		if idx := indexOf(why, k); idx >= 0 {
			return k
		}
	}
	return "other"
}

func indexOf(s, sub string) int {
	for i := 0; i+len(sub) <= len(s); i++ {
		if s[i:i+len(sub)] == sub {
			return i
		}
	}
	return -1
}

func main() {
	debug.SetMaxStack(128 << 20) // unbounded recursion is detected after 128 MB instead of 1 GB
	ux.Main(ux.Harness{
		Property:    "C15",
		Level:       "exploration",
		Exhaustive:  true,
		MemLimitKB:  4 << 20,
		TaskTimeout: 240 * time.Second,
		Batches: func(tier string) []any {
			var out []any
			for i := range universe(tier) {
				out = append(out, batch{i})
			}
			return out
		},
		Run: func(tier string, raw json.RawMessage, from int, deadline time.Time) ux.Result {
			var b batch
			_ = json.Unmarshal(raw, &b)
			c := universe(tier)[b.Spec]
			var res ux.Result
			cs, ok := buildSafe(c)
			if !ok {
				return res
			}
			ps := producers(c, tier)
			for i := from; i < len(ps); i++ {
				if ux.Stop() {
					res.Capped = true
					break
				}
				ux.Progress(i)
				checkPair(c, cs, ps[i], tier, &res)
			}
			if b.Spec%89 == 0 {
				res.Samples = append(res.Samples, map[string]any{"consumer": c.String(), "producers": len(ps), "example_producer": ps[len(ps)/2].p.String()})
			}
			return res
		},
		CaseName: func(tier string, raw json.RawMessage, i int) (string, any) {
			var b batch
			_ = json.Unmarshal(raw, &b)
			c := universe(tier)[b.Spec]
			ps := producers(c, tier)
			if i >= len(ps) {
				return fmt.Sprintf("consumer %s producer #%d", c, i), replay{c, nil, "?"}
			}
			return fmt.Sprintf("consumer %s\nproducer (%s) %s", c, ps[i].what, ps[i].p), replay{c, ps[i].p, ps[i].what}
		},
		Replay: func(raw json.RawMessage) []ux.Finding {
			var r replay
			if json.Unmarshal(raw, &r) != nil || r.Producer == nil {
				return nil
			}
			var res ux.Result
			cs, ok := buildSafe(r.Consumer)
			if !ok {
				return nil
			}
			checkPair(r.Consumer, cs, pair{r.Producer, r.What}, "quick", &res)
			return res.Findings
		},
		Rule: "every spec A of U_2 as consumer x producers {a second instance of A; A rebuilt from its own description (both directions; map-based schemas); every single-feature mutation of A at any depth (range shifted out of reach, leaf kind, container kind, enum value, property added/removed, object id, discriminator (for an inlined one: another property that every member declares with the same type; member-less one-ofs: renamed), member removed, required flag, bound dropped, item type); a fixed set of ~70 unrelated specs incl. all nil/non-nil (min,max) combinations for int, float, string and map sizes with overlapping and disjoint ranges}; each ValidateCompatibility call runs under the sorted and under every single deviating map iteration order; oracle: a verdict is returned (panic / stack exhaustion / hang are violations), same verdict in every order, A accepts itself, and pairs in the reference MustReject relation are rejected",
		Assumptions: []string{
			"nothing is claimed about pairs outside MustReject and reflexivity",
			"any as consumer or producer is never in MustReject; int/int-enum and string/string-enum share a base kind",
			"one-of 'missing members' = the producer lacks a member the consumer declares (the direction the implementation checks)",
		},
	})
}
