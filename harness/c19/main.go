// C19: the code generator is total, deterministic, and emits one typed field per property.
//
// The generator's gen.go is compiled from the working tree with its map iteration routed through the
// map-order seam; for every small schema document and argument form, every iteration order of every map
// is executed (twice) and the outputs are compared with each other and with a reference description.
package main

import (
	"bufio"
	"encoding/json"
	"fmt"
	"go/ast"
	"go/parser"
	"go/token"
	"io"
	"os"
	"os/exec"
	"path/filepath"
	"sort"
	"strings"
	"time"
	"unicode"
	"unicode/utf8"

	"verif/engine/lib"
	"verif/engine/ux"
)

var typeIDs = []string{"integer", "float", "string", "bool", "ref", "list"}

// the other type ids of the schema language: each as the only property and next to an integer property
var moreTypeIDs = []string{"pattern", "enum_integer", "enum_string", "map", "object", "one_of_string", "one_of_int", "scope", "any"}

type propT struct {
	Name string
	Type string
	Ref  string
	// further fields of a real schema document that the generator has no use for (bounds, units, patterns, display
	// data, defaults, presence rules): lines added under the type / under the property
	TypeExtra []string
	PropExtra []string
}

type objT struct {
	Name  string
	Props []propT
}

type doc struct {
	Objects []objT
	// Style "merge": the document spells the same content with YAML anchors - the first object's properties carry an
	// anchor, the second object's properties start with a merge key (<<: *anchor) followed by its own; the second
	// object's Props list is the merged result (the first object's properties, then its own). Style "alias": every
	// property body of the second object that equals one of the first is written as an alias of it.
	Style string
	// IDs: what the objects' own `id` fields say ("" = the key they are listed under, as the generator's own test
	// data does; "none" = no id field; "empty" = id: ""; "same" = every object carries the id "shared"; "swapped" =
	// each object carries the next object's key). The generator names structs after the keys; the id field has no
	// bearing on the output.
	IDs string
}

func (d doc) yaml() string {
	var b strings.Builder
	b.WriteString("steps:\n  create:\n    id: create\n    input:\n      root: " + "root" + "\n      objects:")
	if len(d.Objects) == 0 {
		b.WriteString(" {}\n")
		return b.String()
	}
	b.WriteString("\n")
	for oi, o := range d.Objects {
		switch d.IDs {
		case "none":
			fmt.Fprintf(&b, "        %s:\n          properties:", o.Name)
		case "empty":
			fmt.Fprintf(&b, "        %s:\n          id: \"\"\n          properties:", o.Name)
		case "same":
			fmt.Fprintf(&b, "        %s:\n          id: shared\n          properties:", o.Name)
		case "swapped":
			fmt.Fprintf(&b, "        %s:\n          id: %s\n          properties:", o.Name, d.Objects[(oi+1)%len(d.Objects)].Name)
		default:
			fmt.Fprintf(&b, "        %s:\n          id: %s\n          properties:", o.Name, o.Name)
		}
		props := o.Props
		if d.Style == "merge" && oi == 0 {
			b.WriteString(" &shared")
		}
		if d.Style == "merge" && oi == 1 {
			b.WriteString("\n            <<: *shared")
			props = props[len(d.Objects[0].Props):]
			if len(props) == 0 {
				b.WriteString("\n")
				continue
			}
		} else if len(props) == 0 {
			b.WriteString(" {}\n")
			continue
		}
		b.WriteString("\n")
		for pi, p := range props {
			if d.Style == "alias" && oi == 0 {
				fmt.Fprintf(&b, "            %s: &body%d\n              type:\n                type_id: %s\n", p.Name, pi, p.Type)
			} else if d.Style == "alias" && oi == 1 && pi < len(d.Objects[0].Props) && sameBody(p, d.Objects[0].Props[pi]) {
				fmt.Fprintf(&b, "            %s: *body%d\n", p.Name, pi)
				continue
			} else {
				fmt.Fprintf(&b, "            %s:\n              type:\n                type_id: %s\n", p.Name, p.Type)
			}
			for _, l := range p.TypeExtra {
				fmt.Fprintf(&b, "                %s\n", l)
			}
			if p.Type == "ref" {
				fmt.Fprintf(&b, "                id: %s\n", p.Ref)
			}
			b.WriteString("              required: true\n")
			for _, l := range p.PropExtra {
				fmt.Fprintf(&b, "              %s\n", l)
			}
		}
	}
	return b.String()
}

// emitsMapKeyword: some object that is not ignored has a property of type map.
func emitsMapKeyword(d doc, args []string) bool {
	for _, o := range d.Objects {
		if len(args) > 1 && args[1] == o.Name {
			continue
		}
		for _, p := range o.Props {
			if p.Type == "map" {
				return true
			}
		}
	}
	return false
}

func sameBody(a, b propT) bool {
	return a.Type == b.Type && a.Ref == b.Ref && len(a.TypeExtra) == 0 && len(b.TypeExtra) == 0 && len(a.PropExtra) == 0 && len(b.PropExtra) == 0
}

func propVariants(names []string, other string) [][]propT {
	out := [][]propT{{}}
	mk := func(n, t string) propT {
		p := propT{Name: n, Type: t}
		if t == "ref" {
			p.Ref = other
		}
		return p
	}
	for _, t := range typeIDs {
		out = append(out, []propT{mk(names[0], t)})
	}
	for _, t1 := range typeIDs {
		for _, t2 := range typeIDs {
			out = append(out, []propT{mk(names[0], t1), mk(names[1], t2)})
		}
	}
	return out
}

func moreVariants(names []string) [][]propT {
	var out [][]propT
	for _, t := range moreTypeIDs {
		out = append(out, []propT{{Name: names[0], Type: t}}, []propT{{Name: names[0], Type: "integer"}, {Name: names[1], Type: t}})
	}
	return out
}

var thoroughDocs bool

func docs() []doc {
	out := docsQuick()
	if thoroughDocs {
		// appended (indices of the quick tier's documents stay): three objects with 0-1 properties each over all six core
		// type ids, references pointing round the ring; one object with three properties over the core type ids
		names := []string{"alpha", "beta", "gamma"}
		one := func(oi int) [][]propT {
			v := [][]propT{{}}
			for _, t := range typeIDs {
				p := propT{Name: "p" + names[oi], Type: t}
				if t == "ref" {
					p.Ref = names[(oi+1)%3]
				}
				v = append(v, []propT{p})
			}
			return v
		}
		for _, a := range one(0) {
			for _, b := range one(1) {
				for _, c := range one(2) {
					out = append(out, doc{Objects: []objT{{"alpha", a}, {"beta", b}, {"gamma", c}}})
				}
			}
		}
		for _, t1 := range typeIDs {
			for _, t2 := range typeIDs {
				for _, t3 := range typeIDs {
					mk := func(n, t string) propT {
						p := propT{Name: n, Type: t}
						if t == "ref" {
							p.Ref = "alpha"
						}
						return p
					}
					out = append(out, doc{Objects: []objT{{"alpha", []propT{mk("one", t1), mk("two", t2), mk("three", t3)}}}})
				}
			}
		}
	}
	return out
}

func docsQuick() []doc {
	out := []doc{{}}
	for _, pa := range propVariants([]string{"one", "two"}, "Beta") {
		out = append(out, doc{Objects: []objT{{"alpha", pa}}})
	}
	for _, pa := range propVariants([]string{"one", "two"}, "beta") {
		for _, pb := range propVariants([]string{"uno", "dos"}, "alpha") {
			out = append(out, doc{Objects: []objT{{"alpha", pa}, {"beta", pb}}})
		}
	}
	// every other type id of the schema language
	for _, pa := range moreVariants([]string{"one", "two"}) {
		out = append(out, doc{Objects: []objT{{"alpha", pa}}}, doc{Objects: []objT{{"alpha", pa}, {"beta", []propT{{Name: "uno", Type: "ref", Ref: "alpha"}}}}})
	}
	// full-featured property bodies: everything a schema document may say about a property besides its type id
	rich := []propT{
		{Name: "count", Type: "integer", TypeExtra: []string{"min: 0", "max: 9223372036854775807", "units: {base_unit: {name_short_singular: B, name_short_plural: B, name_long_singular: byte, name_long_plural: bytes}, multipliers: {1024: {name_short_singular: kB, name_short_plural: kB, name_long_singular: kilobyte, name_long_plural: kilobytes}}}"},
			PropExtra: []string{"display: {name: Count, description: how many}", "default: \"5\"", "examples: [\"1\", \"2\"]"}},
		{Name: "ratio", Type: "float", TypeExtra: []string{"min: -1.5", "max: 1.0e+19"}, PropExtra: []string{"required_if: [count]", "conflicts: [label]"}},
		{Name: "spread", Type: "float", TypeExtra: []string{"min: -.inf", "max: .inf"}},
		{Name: "label", Type: "string", TypeExtra: []string{"min: 1", "max: 18446744073709551615", "pattern: \"^[a-z]+$\""}, PropExtra: []string{"required_if_not: [count, ratio]", "disabled: true", "disabled_reason: not yet"}},
		{Name: "flags", Type: "list", TypeExtra: []string{"items: {type_id: bool}", "min: 0.5", "max: 3"}},
	}
	out = append(out, doc{Objects: []objT{{"alpha", rich}}}, doc{Objects: []objT{{"alpha", rich[:2]}, {"beta", rich[2:]}}})
	// the same content spelled with YAML anchors, aliases and merge keys (what a hand-maintained schema file uses to
	// avoid repeating common properties)
	for _, pa := range propVariants([]string{"one", "two"}, "beta") {
		for _, pb := range [][]propT{{}, {{Name: "uno", Type: "bool"}}, {{Name: "uno", Type: "ref", Ref: "alpha"}, {Name: "dos", Type: "float"}}} {
			merged := append(append([]propT{}, pa...), pb...)
			out = append(out, doc{Objects: []objT{{"alpha", pa}, {"beta", merged}}, Style: "merge"})
		}
		if len(pa) > 0 {
			same := append([]propT{}, pa...)
			for i := range same {
				same[i].Name = []string{"uno", "dos"}[i]
			}
			out = append(out, doc{Objects: []objT{{"alpha", pa}, {"beta", same}}, Style: "alias"})
		}
	}
	// objects whose own id field is missing, empty, shared with the other object, or names the other object
	for _, ids := range []string{"none", "empty", "same", "swapped"} {
		for _, pa := range propVariants([]string{"one", "two"}, "beta")[:3] {
			out = append(out, doc{Objects: []objT{{"alpha", pa}, {"beta", []propT{{Name: "uno", Type: "ref", Ref: "alpha"}}}}, IDs: ids},
				doc{Objects: []objT{{"beta", pa}, {"alpha", nil}, {"gamma", []propT{{Name: "g", Type: "integer"}}}}, IDs: ids})
		}
	}
	// names that are valid, distinct identifiers but compare equal or adjacent under case folding, prefixes of
	// each other, and names with digits / underscores
	for _, names := range [][4]string{
		{"nodeSpec", "nodespec", "apiVersion", "apiversion"},
		{"abc", "abcd", "item", "items"},
		{"a_b", "aB", "x1", "x10"},
		{"zeta", "Alpha2", "Zed", "able"},
		// identifiers whose first letter is not ASCII
		{"ölstand", "émission", "größe", "ñu"},
		// one object's name is a proper part of the other's (and of an ignore argument below)
		{"pod", "podspec", "spec", "pods"},
		{"podspec", "pod", "spec", "pods"},
	} {
		for _, t := range []string{"integer", "ref"} {
			mk := func(n string) propT {
				p := propT{Name: n, Type: t}
				if t == "ref" {
					p.Ref = names[1]
				}
				return p
			}
			out = append(out, doc{Objects: []objT{{names[0], []propT{mk(names[2]), mk(names[3])}}, {names[1], []propT{mk(names[3]), mk(names[2])}}}})
		}
	}
	return out
}

var argForms = [][]string{
	{"schema_input.yaml"},         // no ignore argument
	{"schema_input.yaml", "beta"}, // ignore an object that may exist
	{"schema_input.yaml", "nodespec"},
	{"schema_input.yaml", "Other"}, // ignore an object that does not exist
	{"schema_input.yaml", "podspec"},
	{"schema_input.yaml", "pod"},
}

type batch struct {
	Lo int `json:"lo"`
	Hi int `json:"hi"`
}

type replay struct {
	Doc  int      `json:"doc"`
	Args []string `json:"args"`
	YAML string   `json:"yaml"`
}

type dOut struct {
	Output  string `json:"output"`
	Panic   string `json:"panic,omitempty"`
	Stack   string `json:"stack,omitempty"`
	Choices string `json:"choices"`
	Count   int    `json:"count"`
}

type dAnswer struct {
	Outcomes   []dOut `json:"outcomes"`
	Executions int    `json:"executions"`
	Infra      string `json:"infra,omitempty"`
}

type driver struct {
	cmd *exec.Cmd
	in  io.WriteCloser
	out *bufio.Reader
}

func startDriver() (*driver, error) {
	path := os.Getenv("VERIF_C19_DRIVER")
	if path == "" {
		return nil, fmt.Errorf("VERIF_C19_DRIVER not set")
	}
	cmd := exec.Command(path)
	cmd.Env = append(os.Environ(), "VERIF_C19_SCRATCH="+filepath.Join(lib.Root, ".work", "C19", "scratch"))
	cmd.Stderr = os.Stderr
	in, _ := cmd.StdinPipe()
	out, _ := cmd.StdoutPipe()
	if err := cmd.Start(); err != nil {
		return nil, err
	}
	return &driver{cmd, in, bufio.NewReaderSize(out, 1<<20)}, nil
}

func (d *driver) ask(yaml string, args []string) (dAnswer, error) {
	b, _ := json.Marshal(map[string]any{"yaml": yaml, "args": args, "runs": 2})
	if _, err := d.in.Write(append(b, '\n')); err != nil {
		return dAnswer{}, err
	}
	line, err := d.out.ReadBytes('\n')
	if err != nil {
		return dAnswer{}, err
	}
	var a dAnswer
	return a, json.Unmarshal(line, &a)
}

func title(s string) string {
	if s == "" {
		return s
	}
	r, n := utf8.DecodeRuneInString(s)
	return string(unicode.ToUpper(r)) + s[n:]
}

func goType(p propT) string {
	switch p.Type {
	case "integer":
		return "int64"
	case "float":
		return "float64"
	case "ref":
		return p.Ref
	}
	return p.Type
}

// checkOutput compares the generated source with the reference description of the document.
func checkOutput(d doc, args []string, src string) string {
	fset := token.NewFileSet()
	f, err := parser.ParseFile(fset, "typedef_output.go", src, 0)
	if err != nil {
		return "output is not valid Go: " + err.Error()
	}
	ignore := ""
	if len(args) > 1 {
		ignore = args[1]
	}
	want := map[string]objT{}
	for _, o := range d.Objects {
		if o.Name == ignore {
			continue
		}
		want[title(o.Name)] = o
	}
	got := map[string]*ast.StructType{}
	for _, decl := range f.Decls {
		gd, ok := decl.(*ast.GenDecl)
		if !ok || gd.Tok != token.TYPE {
			continue
		}
		for _, sp := range gd.Specs {
			ts := sp.(*ast.TypeSpec)
			st, ok := ts.Type.(*ast.StructType)
			if !ok {
				continue
			}
			if _, dup := got[ts.Name.Name]; dup {
				return "struct " + ts.Name.Name + " emitted twice"
			}
			got[ts.Name.Name] = st
		}
	}
	if len(got) != len(want) {
		return fmt.Sprintf("%d structs emitted for %d non-ignored objects", len(got), len(want))
	}
	for name, o := range want {
		st, ok := got[name]
		if !ok {
			return "no struct for object " + o.Name
		}
		fields := map[string][2]string{}
		for _, fl := range st.Fields.List {
			if len(fl.Names) != 1 {
				return "struct " + name + ": field list entry without exactly one name"
			}
			tag := ""
			if fl.Tag != nil {
				tag = fl.Tag.Value
			}
			typ := ""
			if id, ok := fl.Type.(*ast.Ident); ok {
				typ = id.Name
			}
			fields[fl.Names[0].Name] = [2]string{typ, tag}
		}
		if len(fields) != len(o.Props) {
			return fmt.Sprintf("struct %s has %d fields for %d properties", name, len(fields), len(o.Props))
		}
		for _, p := range o.Props {
			fl, ok := fields[title(p.Name)]
			if !ok {
				return fmt.Sprintf("struct %s lacks a field for property %s", name, p.Name)
			}
			if fl[0] != goType(p) {
				return fmt.Sprintf("field %s.%s has type %q, want %q", name, title(p.Name), fl[0], goType(p))
			}
			if fl[1] != fmt.Sprintf("`json:\"%s\"`", p.Name) {
				return fmt.Sprintf("field %s.%s has tag %s, want json:%q", name, title(p.Name), fl[1], p.Name)
			}
		}
	}
	return ""
}

func checkCase(drv *driver, di int, d doc, args []string, res *ux.Result) error {
	ans, err := drv.ask(d.yaml(), args)
	if err != nil {
		return err
	}
	if ans.Infra != "" {
		return fmt.Errorf("driver: %s", ans.Infra)
	}
	res.Evaluations += ans.Executions
	rp := replay{di, args, d.yaml()}
	desc := fmt.Sprintf("gen %s on a document with objects %v", strings.Join(args, " "), describe(d))
	var outputs []dOut
	for _, o := range ans.Outcomes {
		if o.Panic != "" {
			sig := fmt.Sprintf("generator panics in %s: %s", lib.PanicSite(o.Stack, "main.", "codegen"), lib.PanicClass(o.Panic))
			if emitsMapKeyword(d, args) && strings.Contains(o.Panic, "expected '['") {
				// the cause is named, not the position: the type id "map" is written out as a Go field type, and map is a keyword
				sig = "generator panics on a property of type map: the type id is emitted as the field's Go type, and 'map' alone is not a type"
			}
			res.Add(sig, desc+"\npanic: "+o.Panic+"\nmap orders: "+o.Choices, rp)
			continue
		}
		outputs = append(outputs, o)
		if msg := checkOutput(d, args, o.Output); msg != "" {
			res.Add("generated code does not match the document: "+classify(msg), desc+"\n"+msg+"\n--- output ---\n"+o.Output, rp)
		}
	}
	if len(outputs) > 1 {
		res.Add("output is not byte-identical across map iteration orders and repeated runs (second run: another working directory, an older output file present)", fmt.Sprintf("%s\n%d different outputs over %d executions, e.g.\n--- orders %s ---\n%s\n--- orders %s ---\n%s", desc, len(outputs), ans.Executions, outputs[0].Choices, outputs[0].Output, outputs[1].Choices, outputs[1].Output), rp)
	}
	return nil
}

func classify(msg string) string {
	for _, k := range []string{"not valid Go", "structs emitted", "emitted twice", "no struct", "fields for", "lacks a field", "has type", "has tag"} {
		if strings.Contains(msg, k) {
			return k
		}
	}
	return "other"
}

func describe(d doc) string {
	var parts []string
	for _, o := range d.Objects {
		var ps []string
		for _, p := range o.Props {
			ps = append(ps, p.Name+":"+p.Type)
		}
		sort.Strings(ps)
		parts = append(parts, o.Name+"{"+strings.Join(ps, ",")+"}")
	}
	return "[" + strings.Join(parts, " ") + "]"
}

func main() {
	ux.Main(ux.Harness{
		Property:   "C19",
		Level:      "exploration",
		Exhaustive: true,
		Batches: func(tier string) []any {
			thoroughDocs = tier == "thorough"
			n := len(docs())
			var out []any
			for lo := 0; lo < n; lo += 60 {
				hi := lo + 60
				if hi > n {
					hi = n
				}
				out = append(out, batch{lo, hi})
			}
			return out
		},
		Run: func(tier string, raw json.RawMessage, from int, deadline time.Time) ux.Result {
			thoroughDocs = thoroughDocs || tier == "thorough"
			var b batch
			_ = json.Unmarshal(raw, &b)
			var res ux.Result
			drv, err := startDriver()
			if err != nil {
				res.Add("INFRA driver", err.Error(), nil)
				return res
			}
			defer func() { drv.in.Close(); _ = drv.cmd.Wait() }()
			ds := docs()
			cases := 0
			for di := b.Lo; di < b.Hi; di++ {
				for _, args := range argForms {
					ux.Progress(cases)
					cases++
					if err := checkCase(drv, di, ds[di], args, &res); err != nil {
						// the driver died: a fatal error inside the generator
						res.Add("generator process died", fmt.Sprintf("doc %d args %v: %v", di, args, err), replay{di, args, ds[di].yaml()})
						drv, err = startDriver()
						if err != nil {
							return res
						}
					}
				}
			}
			res.Nontrivial = cases
			res.Count("documents_x_argument_forms", cases)
			if b.Lo == 0 {
				res.Samples = append(res.Samples, map[string]any{"document": describe(ds[len(ds)/2]), "args": argForms[1]})
			}
			return res
		},
		Replay: func(raw json.RawMessage) []ux.Finding {
			var r replay
			if json.Unmarshal(raw, &r) != nil {
				return nil
			}
			drv, err := startDriver()
			if err != nil {
				fmt.Println("INFRA", err)
				return nil
			}
			defer func() { drv.in.Close(); _ = drv.cmd.Wait() }()
			var res ux.Result
			thoroughDocs = true // a superset with the same indices
			_ = checkCase(drv, r.Doc, docs()[r.Doc], r.Args, &res)
			return res.Findings
		},
		Rule: "every schema document with 0-2 objects (alpha, beta) x 0-2 properties each x type ids {integer, float, string, bool, ref, list} (1893 documents) x argument forms {no ignore argument, ignore 'beta', ignore a non-existent object}; for each, every iteration order of every map the generator ranges over (all permutations), once in an empty directory and once in a directory that still holds an older, longer output file; non-trivial = distinct (document, argument form) pairs; evaluations = generator executions",
		Assumptions: []string{
			"object and property names are valid identifiers (ASCII, and a few starting with a non-ASCII letter); the expected identifier is the name with its first letter upper-cased",
			"gen.go is compiled from the working tree with `range` over maps routed through the map-order seam and main renamed; nothing else is changed",
		},
	})
}
