// C04: schema operations are total - bad data yields an error, never a panic or hang.
//
// For every spec of the universe and a valid value of it, every position of the value is replaced by
// every hostile value (single substitution); the four operations are applied to the result and to the
// spec's own raw-value set. Workers are supervised: a fatal runtime error or a hang is attributed to the
// case in flight.
package main

import (
	"encoding/json"
	"fmt"
	"reflect"
	"strings"
	"time"

	"go.flow.arcalot.io/pluginsdk/schema"
	"verif/engine/lib"
	"verif/engine/ux"
	"verif/harness/ukit"
)

type batch struct {
	Spec int `json:"spec"`
}

type kase struct {
	Op   string
	Val  any
	Desc string
}

type replay struct {
	Spec  *ukit.Spec `json:"spec"`
	Index int        `json:"case_index"`
	Desc  string     `json:"case"`
	Tier  string     `json:"tier"`
}

var ops = []string{"Unserialize", "ValidateCompatibility", "Validate", "Serialize"}

func universe(tier string) []*ukit.Spec {
	return ukit.Universe(2, tier == "thorough")
}

// cases enumerates the cases of one spec in a fixed order.
func cases(spec *ukit.Spec, sch schema.Type, tier string) []kase {
	var out []kase
	hostile := ukit.Hostile()
	addAll := func(v any, desc string, decoder bool) {
		for _, op := range ops {
			if !decoder && (op == "Unserialize" || op == "ValidateCompatibility") {
				continue
			}
			out = append(out, kase{op, v, desc})
		}
	}
	// the spec's own raw values (boundaries, representations, wrong types)
	for _, v := range ukit.RawValues(spec) {
		addAll(v, "raw "+ukit.Show(v), true)
	}
	// hostile values at every position of valid raw values
	nValid := 2
	if tier == "thorough" {
		nValid = 3
	}
	valids := ukit.ValidValues(spec, nValid)
	if len(valids) == 0 {
		valids = []any{nil}
	}
	for vi, valid := range valids {
		for _, pos := range ukit.Positions(valid) {
			for _, h := range hostile {
				nv := pos.Replace(h.V)
				if pos.IsKey && nv == nil {
					continue
				}
				addAll(nv, fmt.Sprintf("valid#%d with %s at %s", vi, h.Name, pos.Path), h.Decoder)
			}
		}
		if tier == "thorough" && vi == len(valids)-1 {
			// two hostile values at two different positions of the fullest valid value (a reduced hostile set: the first ten
			// a decoder can produce)
			var h10 []ukit.HV
			for _, h := range hostile {
				if h.Decoder && len(h10) < 10 {
					h10 = append(h10, h)
				}
			}
			for _, p1 := range ukit.Positions(valid) {
				if p1.IsKey || p1.Path == "$" {
					continue
				}
				for _, h1 := range h10 {
					nv1 := p1.Replace(h1.V)
					for _, p2 := range ukit.Positions(nv1) {
						if p2.IsKey || p2.Path == "$" || p2.Path <= p1.Path || strings.HasPrefix(p2.Path, p1.Path) || strings.HasPrefix(p1.Path, p2.Path) {
							continue
						}
						for _, h2 := range h10 {
							addAll(p2.Replace(h2.V), fmt.Sprintf("valid#%d with %s at %s and %s at %s", vi, h1.Name, p1.Path, h2.Name, p2.Path), true)
						}
					}
				}
			}
		}
		// the unserialized (native) form, whole and with hostile values at its positions
		pan, _, _ := ukit.Call(func() {
			native, err := sch.Unserialize(ukit.DeepCopy(valid))
			if err != nil {
				return
			}
			out = append(out, kase{"Validate", native, fmt.Sprintf("native of valid#%d", vi)}, kase{"Serialize", native, fmt.Sprintf("native of valid#%d", vi)})
			for _, pos := range ukit.Positions(native) {
				if pos.Path == "$" {
					continue
				}
				for _, h := range hostile {
					nv := pos.Replace(h.V)
					if pos.IsKey && nv == nil {
						continue
					}
					out = append(out, kase{"Validate", nv, fmt.Sprintf("native of valid#%d with %s at %s", vi, h.Name, pos.Path)},
						kase{"Serialize", nv, fmt.Sprintf("native of valid#%d with %s at %s", vi, h.Name, pos.Path)})
				}
			}
		})
		_ = pan
	}
	return out
}

func apply(sch schema.Type, k kase) (err error) {
	switch k.Op {
	case "Unserialize":
		_, err = sch.Unserialize(k.Val)
	case "ValidateCompatibility":
		err = sch.ValidateCompatibility(k.Val)
	case "Validate":
		err = sch.Validate(k.Val)
	case "Serialize":
		_, err = sch.Serialize(k.Val)
	}
	return err
}

func runCase(sch schema.Type, spec *ukit.Spec, k kase, i int, tier string, res *ux.Result) (errored bool) {
	var err error
	pan, val, stack := ukit.Call(func() {
		err = apply(sch, k)
		errored = err != nil
	})
	if !pan && err != nil {
		// "returns an error": an error value a caller can use. A non-nil error interface around a nil pointer, or one
		// whose Error method panics, is the panic handed to the caller to trigger.
		if rv := reflect.ValueOf(err); rv.Kind() == reflect.Ptr && rv.IsNil() {
			res.Add(fmt.Sprintf("%s returns a non-nil error that holds a nil %T", k.Op, err),
				fmt.Sprintf("%s(%s) on %s", k.Op, k.Desc, spec), replay{spec, i, k.Op + " " + k.Desc, tier})
			return
		}
		pan, val, stack = ukit.Call(func() { _ = err.Error() })
		if pan {
			res.Add(fmt.Sprintf("the error returned by %s panics when asked for its text: %s", k.Op, lib.PanicClass(fmt.Sprint(val))),
				fmt.Sprintf("%s(%s) on %s\npanic: %v\n%s", k.Op, k.Desc, spec, val, stack), replay{spec, i, k.Op + " " + k.Desc, tier})
			return
		}
	}
	if pan {
		sig := fmt.Sprintf("panic in %s: %s", lib.PanicSite(stack), lib.PanicClass(fmt.Sprint(val)))
		res.Add(sig, fmt.Sprintf("%s(%s) on %s\npanic: %v", k.Op, k.Desc, spec, val), replay{spec, i, k.Op + " " + k.Desc, tier})
	}
	return
}

func main() {
	ux.Main(ux.Harness{
		Property:   "C04",
		Level:      "exploration",
		Exhaustive: true,
		MemLimitKB: 6 << 20,
		Batches: func(tier string) []any {
			var out []any
			for i := range universe(tier) {
				out = append(out, batch{i})
			}
			return out
		},
		Run: func(tier string, raw json.RawMessage, from int, deadline time.Time) ux.Result {
			var b batch
			_ = json.Unmarshal(raw, &b)
			spec := universe(tier)[b.Spec]
			var res ux.Result
			sch := ukit.Build(spec)
			cs := cases(spec, sch, tier)
			errs := 0
			for i := from; i < len(cs); i++ {
				if ux.Stop() {
					res.Capped = true
					break
				}
				ux.Progress(i)
				if runCase(sch, spec, cs[i], i, tier, &res) {
					errs++
				}
				res.Evaluations++
			}
			// distinct non-trivial: cases that the operation rejected with an error or accepted - all of them are
			// distinct (spec, op, value) triples; trivial = none (every case exercises the operation)
			res.Nontrivial = res.Evaluations
			res.Count("returned_error", errs)
			res.Count("returned_ok", res.Evaluations-errs)
			if from == 0 && len(cs) > 0 && b.Spec%97 == 0 {
				res.Samples = append(res.Samples, map[string]any{"spec": spec.String(), "case": cs[len(cs)/2].Op + " " + cs[len(cs)/2].Desc})
			}
			return res
		},
		CaseName: func(tier string, raw json.RawMessage, i int) (string, any) {
			var b batch
			_ = json.Unmarshal(raw, &b)
			spec := universe(tier)[b.Spec]
			cs := cases(spec, ukit.Build(spec), tier)
			if i >= len(cs) {
				return fmt.Sprintf("spec %s case %d", spec, i), replay{spec, i, "?", tier}
			}
			return fmt.Sprintf("%s(%s) on %s", cs[i].Op, cs[i].Desc, spec), replay{spec, i, cs[i].Op + " " + cs[i].Desc, tier}
		},
		Replay: func(raw json.RawMessage) []ux.Finding {
			var r replay
			if err := json.Unmarshal(raw, &r); err != nil {
				return nil
			}
			sch := ukit.Build(r.Spec)
			cs := cases(r.Spec, sch, r.Tier)
			var res ux.Result
			if r.Index < len(cs) {
				fmt.Printf("replaying %s(%s) on %s\n", cs[r.Index].Op, cs[r.Index].Desc, r.Spec)
				runCase(sch, r.Spec, cs[r.Index], r.Index, r.Tier, &res)
			}
			return res.Findings
		},
		Rule: "every spec of U_2 (all leaf kinds x bound presence combinations x units/patterns/enums; lists, maps, map-based and struct-mapped objects, one-ofs, scopes with references incl. recursive; containers of those) x {its own raw-value set V(spec); a valid value with each of ~55 hostile values substituted at every position (values and map keys); the unserialized native value likewise} x {Unserialize, data-mode ValidateCompatibility (decoder-producible values only), Validate, Serialize}; every case is a distinct (spec, operation, value) triple and exercises the operation",
		Assumptions: []string{
			"quick tier: a single substitution per value; thorough tier: also two substitutions at two different positions of the fullest valid value, over the first ten decoder-producible hostile values",
			"nesting depth of hostile values bounded by 1000",
			"a panic is caught per case; a fatal runtime error or a hang (120 s per batch that normally takes < 1 s) kills the worker and is attributed to the case in flight",
		},
	})
}
