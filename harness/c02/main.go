// C02: Unserialize accepts exactly the values meeting every declared value constraint; Validate and
// Serialize enforce the same constraints on native values.
package main

import (
	"encoding/json"
	"fmt"
	"reflect"
	"time"

	"go.flow.arcalot.io/pluginsdk/mcrt"
	"go.flow.arcalot.io/pluginsdk/schema"
	"verif/engine/lib"
	"verif/engine/ux"
	"verif/harness/ukit"
)

func specs(tier string) []*ukit.Spec {
	ukit.Dense = tier == "thorough" // wider value neighbourhoods (see ukit.Dense)
	out := ukit.LeafSpecs()
	for _, s := range ukit.Depth1() {
		if (s.Kind == ukit.KList && leafish(s.Item)) || (s.Kind == ukit.KMap && leafish(s.Val)) {
			out = append(out, s)
		}
	}
	i05 := &ukit.Spec{Kind: ukit.KInt, Min: ukit.I64(0), Max: ukit.I64(5)}
	str := &ukit.Spec{Kind: ukit.KString, Min: ukit.I64(1), Max: ukit.I64(3)}
	out = append(out,
		&ukit.Spec{Kind: ukit.KList, Item: &ukit.Spec{Kind: ukit.KList, Item: i05, Min: ukit.I64(1), Max: ukit.I64(2)}, Max: ukit.I64(2)},
		&ukit.Spec{Kind: ukit.KMap, Key: str, Val: &ukit.Spec{Kind: ukit.KList, Item: i05, Max: ukit.I64(2)}, Min: ukit.I64(1)},
		&ukit.Spec{Kind: ukit.KList, Item: &ukit.Spec{Kind: ukit.KMap, Key: i05, Val: str, Max: ukit.I64(2)}, Min: ukit.I64(1)},
		&ukit.Spec{Kind: ukit.KMap, Key: &ukit.Spec{Kind: ukit.KIntEnum, EnumI: []int64{1, 2}}, Val: &ukit.Spec{Kind: ukit.KMap, Key: str, Val: &ukit.Spec{Kind: ukit.KFloat, FMax: ukit.F64(1)}}},
		&ukit.Spec{Kind: ukit.KList, Item: &ukit.Spec{Kind: ukit.KAny}, Max: ukit.I64(3)},
	)
	if tier == "thorough" {
		// every list / map of U_2 that is made of leaves, lists and maps only (containers of containers)
		for _, s := range ukit.Depth2(true) {
			if (s.Kind == ukit.KList || s.Kind == ukit.KMap) && valueOnly(s) {
				out = append(out, s)
			}
		}
	}
	return out
}

func valueOnly(s *ukit.Spec) bool {
	ok := true
	s.Walk(func(n *ukit.Spec) {
		switch n.Kind {
		case ukit.KObject, ukit.KOneOfStr, ukit.KOneOfInt, ukit.KScope, ukit.KRef:
			ok = false
		}
	})
	return ok
}

func leafish(s *ukit.Spec) bool {
	switch s.Kind {
	case ukit.KList, ukit.KMap, ukit.KObject, ukit.KOneOfInt, ukit.KOneOfStr, ukit.KRef, ukit.KScope:
		return false
	}
	return true
}

// twin removes every value constraint (the native type stays the same).
func twin(s *ukit.Spec) *ukit.Spec {
	c := s.Clone()
	c.Walk(func(n *ukit.Spec) {
		n.Min, n.Max, n.FMin, n.FMax, n.Pattern = nil, nil, nil, nil, ""
		switch n.Kind {
		case ukit.KIntEnum:
			n.Kind, n.EnumI, n.EnumNames = ukit.KInt, nil, nil
		case ukit.KStrEnum:
			n.Kind, n.EnumS, n.EnumNames = ukit.KString, nil, nil
		}
	})
	return c
}

type batch struct {
	Spec int `json:"spec"`
}

type replay struct {
	Spec *ukit.Spec `json:"spec"`
	Path string     `json:"path"`
	Idx  int        `json:"index"`
	Desc string     `json:"value"`
}

func kindOf(s *ukit.Spec) string { return string(s.Kind) }

func check(spec *ukit.Spec, res *ux.Result, only *replay) {
	sch := ukit.Build(spec)
	tw := twin(spec)
	raws := ukit.RawValues(spec)
	fail := func(sig, detail, path string, i int, v any) {
		res.Add(sig, detail+"\nschema: "+spec.String(), replay{spec, path, i, ukit.Show(v)})
	}
	guard := func(path string, i int, v any, f func()) {
		if only != nil && (only.Path != path || only.Idx != i) {
			return
		}
		pan, val, stack := ukit.Call(f)
		if pan {
			fail(fmt.Sprintf("panic in %s: %s", lib.PanicSite(stack), lib.PanicClass(fmt.Sprint(val))), fmt.Sprintf("%s(%s) panicked: %v", path, ukit.Show(v), val), path, i, v)
		}
	}
	var natives []any
	for i, raw := range raws {
		if ux.Stop() {
			res.Capped = true
			break
		}
		ux.Progress(i)
		want, denoted := ukit.Denote(spec, raw)
		if tv, tn := ukit.Denote(tw, raw); tv == ukit.Yes {
			natives = append(natives, tn)
			res.Nontrivial++
		}
		if want == ukit.Unknown {
			// the reference does not say whether this input is to be accepted; but whatever Unserialize returns for it must
			// itself meet the declared constraints (e.g. a map built from two raw keys that denote one key must still have
			// the declared minimum size)
			res.Skipped++
			guard("Unserialize", i, raw, func() {
				got, err := sch.Unserialize(ukit.DeepCopy(raw))
				if err == nil && ukit.ValidNative(spec, got) == ukit.No {
					fail(fmt.Sprintf("Unserialize returns a value that violates the declared constraints (%s)", kindOf(spec)),
						fmt.Sprintf("Unserialize(%s) = %s", ukit.Show(raw), ukit.Show(got)), "Unserialize", i, raw)
				}
				if err == nil {
					// whichever way an open question is settled (a length counted in bytes or in characters), the three entry
					// points must settle it the same way: a value Unserialize lets in meets the constraints as Validate and
					// Serialize read them
					if verr := sch.Validate(got); verr != nil {
						fail(fmt.Sprintf("Unserialize and Validate read the declared constraints differently (%s)", kindOf(spec)),
							fmt.Sprintf("Unserialize(%s) = %s, but Validate of that value -> %v", ukit.Show(raw), ukit.Show(got), verr), "Unserialize", i, raw)
					} else if _, serr := sch.Serialize(got); serr != nil {
						fail(fmt.Sprintf("Unserialize and Serialize read the declared constraints differently (%s)", kindOf(spec)),
							fmt.Sprintf("Unserialize(%s) = %s, but Serialize of that value -> %v", ukit.Show(raw), ukit.Show(got), serr), "Unserialize", i, raw)
					}
				}
			})
			continue
		}
		res.Evaluations++
		guard("Unserialize", i, raw, func() {
			got, err := sch.Unserialize(ukit.DeepCopy(raw))
			switch {
			case err == nil && want == ukit.No:
				fail(fmt.Sprintf("Unserialize accepts a value that violates the declared constraints (%s)", kindOf(spec)),
					fmt.Sprintf("Unserialize(%s) = %s, expected a rejection", ukit.Show(raw), ukit.Show(got)), "Unserialize", i, raw)
			case err != nil && want == ukit.Yes:
				fail(fmt.Sprintf("Unserialize rejects a value that meets every declared constraint (%s)", kindOf(spec)),
					fmt.Sprintf("Unserialize(%s) -> error %v, expected %s", ukit.Show(raw), err, ukit.Show(denoted)), "Unserialize", i, raw)
			case err == nil && !ukit.Equiv(got, denoted):
				fail(fmt.Sprintf("Unserialize returns another value than the one denoted (%s)", kindOf(spec)),
					fmt.Sprintf("Unserialize(%s) = %s, expected %s", ukit.Show(raw), ukit.Show(got), ukit.Show(denoted)), "Unserialize", i, raw)
			}
		})
	}
	// the typed entry points are the same operations with a static type: same verdicts, same values
	for i, raw := range raws {
		if ux.Stop() {
			res.Capped = true
			break
		}
		guard("UnserializeType", i, raw, func() {
			res.Evaluations++
			if d := ukit.TypedDisagreement(sch, raw); d != "" {
				fail(fmt.Sprintf("%s (%s)", ukit.DisagreementClass(d), kindOf(spec)), d, "UnserializeType", i, raw)
			}
		})
	}
	// native path: values of the native type, inside and outside the bounds
	if spec.Kind == ukit.KTypedEnum {
		natives = append(natives, ukit.MyStr("a"), ukit.MyStr("zzz"), ukit.MyStr(""))
	}
	// values of the native type that only exist in Go: a nil *regexp.Regexp where a pattern belongs (alone, as a list
	// item, as a map value) - of the right type, and not a pattern
	for _, nv := range natives[:len(natives):len(natives)] {
		for _, c := range ukit.NativeCorruptions(spec, nv) {
			if c.Kind == "missing pattern" {
				natives = append(natives, c.Value)
			}
		}
	}
	seen := map[string]bool{}
	for i, nv := range natives {
		k := ukit.Snapshot(nv)
		if seen[k] {
			continue
		}
		seen[k] = true
		if reflect.TypeOf(nv) != ukit.NativeType(spec) && spec.Kind != ukit.KAny {
			continue
		}
		guard("ValidateType", i, nv, func() {
			res.Evaluations++
			if d := ukit.TypedNativeDisagreement(sch, nv); d != "" {
				fail(fmt.Sprintf("%s (%s)", ukit.DisagreementClass(d), kindOf(spec)), d, "ValidateType", i, nv)
			}
		})
		want := ukit.ValidNative(spec, nv)
		if want == ukit.Unknown {
			res.Skipped++
			continue
		}
		res.Evaluations += 2
		guard("Validate", i, nv, func() {
			err := sch.Validate(nv)
			if (err == nil) != (want == ukit.Yes) {
				verdict := "accepts a native value that violates the declared constraints"
				if err != nil {
					verdict = "rejects a native value that meets every declared constraint"
				}
				fail(fmt.Sprintf("Validate %s (%s)", verdict, kindOf(spec)), fmt.Sprintf("Validate(%s) -> %v", ukit.Show(nv), err), "Validate", i, nv)
			}
		})
		guard("Serialize", i, nv, func() {
			w, err := sch.Serialize(nv)
			if (err == nil) != (want == ukit.Yes) {
				verdict := "accepts a native value that violates the declared constraints"
				if err != nil {
					verdict = "rejects a native value that meets every declared constraint"
				}
				fail(fmt.Sprintf("Serialize %s (%s)", verdict, kindOf(spec)), fmt.Sprintf("Serialize(%s) -> %s, %v", ukit.Show(nv), ukit.Show(w), err), "Serialize", i, nv)
				return
			}
			if err == nil {
				exp := ukit.Wire(spec, nv)
				if !ukit.Equiv(w, exp) || !ukit.IsWireValue(w) {
					fail(fmt.Sprintf("Serialize returns an unexpected wire form (%s)", kindOf(spec)), fmt.Sprintf("Serialize(%s) = %s, expected %s", ukit.Show(nv), ukit.Show(w), ukit.Show(exp)), "Serialize", i, nv)
				}
			}
		})
	}
	_ = schema.TypeIDAny
	if only == nil || only.Path == "firstuse" {
		firstUse(spec, raws, res)
	}
}

// firstUse: schemas with units build their parsing caches on first use. Two threads unserialize accepted unit
// strings on ONE fresh schema under the cooperative scheduler (all schedules with <= 2 preemptions); every execution
// is scanned for happens-before races and both results must be the denoted values - a number parsed while the other
// thread is still filling the caches is not the value the input denotes.
func firstUse(spec *ukit.Spec, raws []any, res *ux.Result) {
	units := false
	spec.Walk(func(n *ukit.Spec) {
		if n.Units != "" {
			units = true
		}
	})
	if !units {
		return
	}
	var in []any
	var want []any
	for pass := 0; pass < 2 && len(in) < 2; pass++ {
		for _, raw := range raws {
			_, isStr := raw.(string)
			if (pass == 0) != isStr || len(in) >= 2 {
				continue
			}
			if v, d := ukit.Denote(spec, raw); v == ukit.Yes {
				in, want = append(in, raw), append(want, d)
			}
		}
	}
	if len(in) < 2 {
		return
	}
	got := make([]any, 2)
	errs := make([]error, 2)
	rp := replay{spec, "firstuse", 0, ukit.Show(in)}
	e := &mcrt.Explorer{Embedded: true, MaxPreempt: 2, MaxDelay: 2, MaxSteps: 1 << 20, Races: true, Body: func() {
		sch := ukit.Build(spec)
		var wg mcrt.WaitGroup
		for t := range in {
			t := t
			wg.Add(1)
			mcrt.GoNamed(fmt.Sprintf("unserialize-%d", t), func() { defer wg.Done(); got[t], errs[t] = sch.Unserialize(ukit.DeepCopy(in[t])) })
		}
		wg.Wait()
	}, Check: func(r *mcrt.Result) bool {
		res.Evaluations++
		switch r.Status {
		case mcrt.StPanic:
			res.Add(fmt.Sprintf("panic in %s: %s", lib.PanicSite(r.PanicStack), lib.PanicClass(r.PanicValue)), "concurrent first use panicked: "+r.PanicValue+"\nschema: "+spec.String(), rp)
		case mcrt.StComplete:
			for t := range in {
				if errs[t] != nil || !ukit.Equiv(got[t], want[t]) {
					res.Add(fmt.Sprintf("Unserialize returns another value than the one denoted when two callers make the first use of the schema (%s)", kindOf(spec)),
						fmt.Sprintf("Unserialize(%s) = %s, %v; expected %s (schedule %v)\nschema: %s", ukit.Show(in[t]), ukit.Show(got[t]), errs[t], ukit.Show(want[t]), r.Choices, spec), rp)
				}
			}
		default:
			res.Add("concurrent first use of a schema does not complete: "+r.Status.String(), fmt.Sprint(r.Blocked)+"\nschema: "+spec.String(), rp)
		}
		for _, rc := range r.Races {
			a, b := rc.First, rc.Then
			if a > b {
				a, b = b, a
			}
			res.Add("data race on first use of a schema with units: "+a+" <-> "+b, rc.String()+"\nschema: "+spec.String(), rp)
		}
		return true
	}}
	e.All()
}

func main() {
	ux.Main(ux.Harness{
		Property:   "C02",
		Level:      "exploration",
		Exhaustive: true,
		Batches: func(tier string) []any {
			var out []any
			for i := range specs(tier) {
				out = append(out, batch{i})
			}
			return out
		},
		Run: func(tier string, raw json.RawMessage, from int, deadline time.Time) ux.Result {
			var b batch
			_ = json.Unmarshal(raw, &b)
			spec := specs(tier)[b.Spec]
			var res ux.Result
			check(spec, &res, nil)
			if b.Spec%37 == 0 {
				rv := ukit.RawValues(spec)
				res.Samples = append(res.Samples, map[string]any{"schema": spec.String(), "raw_values": len(rv), "example": ukit.Show(rv[len(rv)/3])})
			}
			return res
		},
		Replay: func(raw json.RawMessage) []ux.Finding {
			var r replay
			if json.Unmarshal(raw, &r) != nil {
				return nil
			}
			var res ux.Result
			check(r.Spec, &res, &r)
			return res.Findings
		},
		Rule: "U_leaf (int/float x 9 (min,max) presence combinations incl. min>max x units; strings x length bounds x pattern; bool; pattern; int/string/typed enums with and without display names; any) plus lists and maps over one representative leaf per kind x 6 size-bound combinations x 4 key kinds, plus 5 depth-2 nestings; x V(spec): every bound +-1 in every Go representation (int/uint widths, float32/64, decimal and unit strings), 2^63 edges, NaN/Inf, boolean words in 3 casings, wrong-type probes; three paths: Unserialize(raw) vs the reference denotation, Validate/Serialize(native) for every value of the native type obtained from the constraint-free twin; thorough tier: every list / map of U_2 built from leaves, lists and maps only, and dense value neighbourhoods (every integer within 3 of a bound and around 2^7..2^63 in every representation, floats within 3 representable steps of a bound and at the precision edges in three notations, all strings over {a,b,e-acute} up to length 4, all well-formed unit strings of 1-3 components over counts {0,1,59,61}); first use: every spec with units, two threads unserializing accepted unit strings on one fresh schema, all schedules with <= 2 preemptions under the cooperative scheduler (sync shim + access events on schema/), race scan and denoted results; non-trivial = raw values of the right type whose verdict depends only on the declared constraints",
		Assumptions: []string{
			"reference conversions delegate to strconv.ParseInt(base 10), strconv.ParseFloat, %d and %f as the SDK's 'fixed lenient conversions'",
			"Unknown (skipped, counted): bool into numbers and strings, non-string into pattern, floats into bool, byte strings, arrays, non-ASCII strings against length bounds, signed/exponent/decimal-on-multiplier unit strings, two raw keys denoting one key, Go-only values for Unserialize, native values of a convertible but different Go type",
			"NaN is not within any declared bound",
		},
	})
}
