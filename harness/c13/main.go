// C13: schemas are safe for concurrent use, from their very first use.
//
// schema/ is compiled with the sync shim and access events (reads / writes of every lazily written field,
// package variable and map object). Two (thorough: three) threads issue operations on ONE freshly built (or
// freshly rebuilt from its description) schema; all schedules within the bound are explored, every
// execution is scanned for happens-before races by vector clocks, and every result is compared with the
// result of the same call in isolation. Package-level unit definitions are raced in a fresh process per
// trial so that first use really is first.
package main

import (
	"context"
	"encoding/json"
	"fmt"
	"os"
	"os/exec"
	"sort"
	"strings"
	"time"

	"go.flow.arcalot.io/pluginsdk/mcrt"
	"go.flow.arcalot.io/pluginsdk/schema"
	"verif/engine/lib"
	"verif/engine/mc"
	"verif/harness/stepkit"
	"verif/harness/ukit"
)

type subject struct {
	Name  string
	Spec  *ukit.Spec
	Units bool // has unit strings among its inputs
	Bad   any  // the rejected raw value to use (default: the first map among the raw values that the schema rejects)
}

func subjects() []subject {
	nestWithDefault := ukit.ShapeSpecs()[5].Clone()
	nestWithDefault.ID = "NestD"
	nestWithDefault.Props[0].Default = ukit.Str("{\"s\": \"d\"}")
	ss := ukit.ScopeSpecs()
	return []subject{
		{"int/sec", ukit.WrapScope(&ukit.Spec{Kind: ukit.KInt, Units: "sec"}), true, nil},
		{"float/sec in list", ukit.WrapScope(&ukit.Spec{Kind: ukit.KList, Item: &ukit.Spec{Kind: ukit.KFloat, Units: "sec"}}), true, nil},
		{"enum/bytes", ukit.WrapScope(&ukit.Spec{Kind: ukit.KIntEnum, EnumI: []int64{1024, 2048}, Units: "bytes"}), true, nil},
		{"object with defaults", ukit.WrapScope(ukit.MapObjA("A")), false, nil},
		{"struct-mapped with sub-object defaults", ukit.WrapScope(ukit.ShapeSpecs()[5]), false, nil},
		{"struct-mapped with defaulted sub-object", ukit.WrapScope(nestWithDefault), false, nil},
		{"struct-mapped three levels deep with defaulted middle object", ukit.WrapScope(ukit.DeepShapeSpec()), false, nil},
		{"references", ss[0], false, nil},
		{"recursive references", ss[2], false, nil},
		{"one-of over references", ss[4], false, nil},
		{"treat-empty-as-default", ukit.WrapScope(ukit.ShapeSpecs()[8]), false, nil},
		// collection defaults of any-typed properties: every caller gets a value of its own (each thread overwrites what it
		// was handed, see doOp)
		{"any-typed properties with collection defaults", ukit.WrapScope(&ukit.Spec{Kind: ukit.KObject, ID: "AnyDef", Props: []ukit.Prop{
			{Name: "l", Type: &ukit.Spec{Kind: ukit.KAny}, Default: ukit.Str("[1, 2]")},
			{Name: "m", Type: &ukit.Spec{Kind: ukit.KAny}, Default: ukit.Str("{\"k\": [\"x\"], \"n\": {\"d\": 1}}")},
			{Name: "s", Type: &ukit.Spec{Kind: ukit.KString}},
		}}), false, nil},
		// a rejection that comes from a property's own guard (disabled without a reason, as a received description
		// states it): both threads are refused at the same place
		{"disabled properties", ukit.WrapScope(&ukit.Spec{Kind: ukit.KObject, ID: "Dis", Props: []ukit.Prop{
			{Name: "on", Type: &ukit.Spec{Kind: ukit.KString}},
			{Name: "off", Type: &ukit.Spec{Kind: ukit.KString}, Disabled: true, DisabledNoReason: true},
		}}), false, map[string]any{"on": "a", "off": "b"}},
	}
}

var opNames = []string{"Unserialize", "Unserialize2", "UnserializeRejected", "Validate", "Serialize", "ValidateCompatibility", "ValidateCompatibilitySchema", "SelfSerialize"}

type scen struct {
	Subject int
	Rebuilt bool
	Ops     []string
}

func (s scen) name() string {
	m := "built"
	if s.Rebuilt {
		m = "rebuilt"
	}
	return fmt.Sprintf("%s/%s/%s", subjects()[s.Subject].Name, m, strings.Join(s.Ops, "|"))
}

func scenarios(tier string) []scen {
	var out []scen
	for si := range subjects() {
		for _, rb := range []bool{false, true} {
			for i, a := range opNames {
				for j, b := range opNames {
					if j < i {
						continue // unordered pairs: both threads are symmetric
					}
					out = append(out, scen{si, rb, []string{a, b}})
				}
			}
			if tier == "thorough" {
				out = append(out, scen{si, rb, []string{"Unserialize", "Unserialize2", "Validate"}}, scen{si, rb, []string{"Unserialize", "Serialize", "ValidateCompatibility"}},
					scen{si, rb, []string{"Unserialize", "Unserialize", "Unserialize"}})
			}
		}
	}
	return out
}

var scs map[string]scen
var stepScs map[string]stepkit.Scen

// inputs of a subject: two raw values (the second one a unit string where applicable) and a native value
type inputs struct {
	raw1, raw2 any
	bad        any // a raw value the schema rejects (for unit-bearing subjects: a string its units cannot parse)
	native     any
	ok         bool
}

func inputsOf(sub subject) inputs {
	var in inputs
	valids := ukit.ValidValues(sub.Spec, 3)
	if len(valids) == 0 {
		return in
	}
	in.raw1, in.raw2 = valids[0], valids[len(valids)-1]
	if sub.Units {
		switch {
		case strings.Contains(sub.Name, "int/sec"):
			in.raw2 = map[string]any{"v": "5m30s"}
		case strings.Contains(sub.Name, "float"):
			in.raw2 = map[string]any{"v": []any{"1m 1.5s", 2.5}}
		default:
			in.raw2 = map[string]any{"v": "1kB"}
		}
	}
	sch := ukit.BuildScope(sub.Spec)
	in.bad = "not a map"
	if sub.Bad != nil {
		in.bad = sub.Bad
	} else if sub.Units {
		switch {
		case strings.Contains(sub.Name, "float"):
			in.bad = map[string]any{"v": []any{"5 parsecs"}}
		default:
			in.bad = map[string]any{"v": "5 parsecs"}
		}
	} else {
		for _, r := range ukit.RawValues(sub.Spec) {
			if _, isMap := r.(map[string]any); !isMap {
				continue
			}
			if pan, _, _ := ukit.Call(func() {
				_, err := sch.Unserialize(ukit.DeepCopy(r))
				if err == nil {
					panic("accepted")
				}
			}); !pan {
				in.bad = r
				break
			}
		}
	}
	n, err := sch.Unserialize(ukit.DeepCopy(in.raw1))
	if err != nil {
		return in
	}
	in.native, in.ok = n, true
	return in
}

func instance(sub subject, rebuilt bool) *schema.ScopeSchema {
	sch := ukit.BuildScope(sub.Spec)
	if !rebuilt {
		return sch
	}
	d, err := sch.SelfSerialize()
	if err != nil {
		panic("SelfSerialize: " + err.Error())
	}
	r, err := schema.UnserializeScope(d)
	if err != nil {
		panic("UnserializeScope: " + err.Error())
	}
	return r
}

func doOp(sch *schema.ScopeSchema, op string, in inputs, sub subject) string {
	var v any
	var err error
	switch op {
	case "Unserialize":
		v, err = sch.Unserialize(ukit.DeepCopy(in.raw1))
	case "Unserialize2":
		v, err = sch.Unserialize(ukit.DeepCopy(in.raw2))
	case "UnserializeRejected":
		v, err = sch.Unserialize(ukit.DeepCopy(in.bad))
	case "Validate":
		err = sch.Validate(in.native)
	case "Serialize":
		v, err = sch.Serialize(in.native)
	case "ValidateCompatibility":
		err = sch.ValidateCompatibility(ukit.DeepCopy(in.raw1))
	case "ValidateCompatibilitySchema":
		if ukit.IsRecursive(sub.Spec) {
			return "skipped"
		}
		err = sch.ValidateCompatibility(ukit.BuildScope(sub.Spec))
	case "SelfSerialize":
		v, err = sch.SelfSerialize()
	}
	if err != nil {
		return "error"
	}
	out := "ok " + ukit.Snapshot(v)
	if strings.HasPrefix(op, "Unserialize") {
		// the caller owns what it was handed: it overwrites all of it in place. Another caller's result (and this schema's
		// later results) must not change with it.
		ukit.Scribble(v)
	}
	return out
}

type obs struct {
	results  []string
	expected []string
	skipped  bool
}

var cur *obs

func body(sc scen) func() {
	sub := subjects()[sc.Subject]
	in := inputsOf(sub)
	rebuildable := true
	if sc.Rebuilt {
		if pan, _, _ := ukit.Call(func() { instance(sub, true) }); pan {
			rebuildable = false
		}
	}
	// expected results: each operation alone on its own fresh instance
	exp := make([]string, len(sc.Ops))
	if in.ok && rebuildable {
		for i, op := range sc.Ops {
			// rebuilt schemas are map-based: natives of struct-mapped originals do not apply to them
			exp[i] = doOp(instance(sub, sc.Rebuilt), op, nativeFor(sub, sc.Rebuilt, in), sub)
		}
	}
	return func() {
		o := &obs{results: make([]string, len(sc.Ops)), expected: exp}
		cur = o
		if !in.ok || !rebuildable {
			o.skipped = true
			return
		}
		sch := instance(sub, sc.Rebuilt)
		in2 := nativeFor(sub, sc.Rebuilt, in)
		var wg mcrt.WaitGroup
		for i, op := range sc.Ops {
			i, op := i, op
			wg.Add(1)
			mcrt.GoNamed(fmt.Sprintf("t%d-%s", i, op), func() {
				defer wg.Done()
				o.results[i] = doOp(sch, op, in2, sub)
			})
		}
		wg.Wait()
	}
}

var nativeCache = map[string]inputs{}

func nativeFor(sub subject, rebuilt bool, in inputs) inputs {
	if !rebuilt {
		return in
	}
	k := sub.Name
	if c, ok := nativeCache[k]; ok {
		return c
	}
	out := in
	n, err := instance(sub, true).Unserialize(ukit.DeepCopy(in.raw1))
	if err == nil {
		out.native = n
	}
	nativeCache[k] = out
	return out
}

func judge(sc scen, r *mcrt.Result) (string, []mc.Finding) {
	o := cur
	var fs []mc.Finding
	add := func(sig, detail string) {
		fs = append(fs, mc.Finding{Signature: sig, Detail: "scenario " + sc.name() + "\n" + detail})
	}
	switch r.Status {
	case mcrt.StPanic:
		add("panic in "+lib.PanicSite(r.PanicStack)+": "+lib.PanicClass(r.PanicValue), r.PanicValue+"\n"+r.PanicStack)
	case mcrt.StBlocked:
		add("deadlock", fmt.Sprint(r.Blocked))
	}
	for _, rc := range r.Races {
		add("data race: "+raceSig(rc), rc.String())
	}
	if r.Status == mcrt.StComplete && o != nil && !o.skipped {
		for i := range sc.Ops {
			if o.results[i] != o.expected[i] {
				add("concurrent call returns something else than in isolation ("+sc.Ops[i]+")", fmt.Sprintf("got %s\nalone %s", clip(o.results[i]), clip(o.expected[i])))
			}
		}
	}
	out := r.Status.String()
	if o != nil && o.skipped {
		out += " skipped"
	}
	return fmt.Sprintf("%s races=%d", out, len(r.Races)), fs
}

func clip(s string) string {
	if len(s) > 200 {
		return s[:200] + "..."
	}
	return s
}

// raceSig identifies a race by the unordered pair of accessing functions.
func raceSig(rc mcrt.Race) string {
	a, b := rc.First, rc.Then
	if a > b {
		a, b = b, a
	}
	return a + " <-> " + b
}

// ---- package-level state: one fresh process per trial -------------------------------------------------

type trial struct {
	Global string
	A, B   string
}

func trials() []trial {
	var out []trial
	for _, g := range []string{"UnitDurationSeconds", "UnitBytes", "UnitDurationNanoseconds", "UnitCharacters", "UnitPercentage"} {
		out = append(out, trial{g, "parse", "parse"}, trial{g, "parse", "format"}, trial{g, "format", "format"})
	}
	// the package-level meta-schemas: loading a description / describing a schema for the first time in the process,
	// from two threads at once
	for _, pr := range [][2]string{{"loadScope", "loadScope"}, {"loadScope", "describe"}, {"describe", "describe"}, {"loadSchema", "loadSchema"}, {"loadSchema", "describe"}, {"loadScope", "loadSchema"}} {
		out = append(out, trial{"meta", pr[0], pr[1]})
	}
	return out
}

// metaDescription is written by hand: producing it with SelfSerialize would already be a first use of the meta-schema.
func metaDescription() map[string]any {
	return map[string]any{"root": "R", "objects": map[string]any{
		"R": map[string]any{"id": "R", "properties": map[string]any{
			"x": map[string]any{"type": map[string]any{"type_id": "string", "min": int64(1)}, "required": true, "default": "\"d\""},
			"n": map[string]any{"type": map[string]any{"type_id": "integer", "units": map[string]any{"base_unit": map[string]any{"name_short_singular": "B", "name_short_plural": "B", "name_long_singular": "byte", "name_long_plural": "bytes"}}}},
			"c": map[string]any{"type": map[string]any{"type_id": "ref", "id": "C"}},
			"l": map[string]any{"type": map[string]any{"type_id": "list", "items": map[string]any{"type_id": "bool"}}},
		}},
		"C": map[string]any{"id": "C", "properties": map[string]any{
			"e": map[string]any{"type": map[string]any{"type_id": "enum_string", "values": map[string]any{"a": map[string]any{"name": "A"}}}},
		}},
	}}
}

func metaUse(kind string) func() string {
	switch kind {
	case "loadScope":
		d := ukit.DeepCopy(metaDescription())
		return func() string {
			sc, err := schema.UnserializeScope(d)
			if err != nil {
				return "error " + err.Error()
			}
			_, err = sc.Unserialize(map[string]any{"x": "a", "n": "5B", "c": map[string]any{"e": "a"}, "l": []any{true}})
			return fmt.Sprint("loaded; first input accepted: ", err == nil)
		}
	case "loadSchema":
		d := map[string]any{"steps": map[string]any{"s": map[string]any{"id": "s", "input": ukit.DeepCopy(metaDescription()),
			"outputs": map[string]any{"ok": map[string]any{"schema": ukit.DeepCopy(metaDescription())}}}}}
		return func() string {
			_, err := schema.UnserializeSchema(d)
			if err != nil {
				return "error " + err.Error()
			}
			return "loaded"
		}
	}
	sc := schema.NewScopeSchema(schema.NewObjectSchema("R", map[string]*schema.PropertySchema{
		"x": schema.NewPropertySchema(schema.NewStringSchema(schema.IntPointer(1), nil, nil), nil, true, nil, nil, nil, schema.PointerTo("\"d\""), nil),
		"f": schema.NewPropertySchema(schema.NewFloatSchema(nil, nil, schema.UnitBytes), nil, false, nil, nil, nil, nil, nil),
	}))
	return func() string {
		d, err := sc.SelfSerialize()
		if err != nil {
			return "error " + err.Error()
		}
		return "described " + ukit.Snapshot(d)
	}
}

func globalUnits(name string) (*schema.UnitsDefinition, string) {
	switch name {
	case "UnitDurationSeconds":
		return schema.UnitDurationSeconds, "5m30s"
	case "UnitBytes":
		return schema.UnitBytes, "1kB"
	case "UnitDurationNanoseconds":
		return schema.UnitDurationNanoseconds, "5ms"
	case "UnitCharacters":
		return schema.UnitCharacters, "5chars"
	}
	return schema.UnitPercentage, "5%"
}

func runTrial(i int) {
	t := trials()[i]
	if t.Global == "meta" {
		runMetaTrial(t)
		return
	}
	u, text := globalUnits(t.Global)
	sch := schema.NewIntSchema(nil, nil, u)
	use := func(kind string) func() {
		return func() {
			if kind == "parse" {
				_, _ = sch.Unserialize(text)
			} else {
				_ = u.FormatShortInt(3661)
			}
		}
	}
	r := mcrt.Run(nil, func() {
		var wg mcrt.WaitGroup
		wg.Add(2)
		mcrt.GoNamed("a", func() { defer wg.Done(); use(t.A)() })
		mcrt.GoNamed("b", func() { defer wg.Done(); use(t.B)() })
		wg.Wait()
	}, mcrt.RunOpts{Races: true})
	var sigs []string
	for _, rc := range r.Races {
		sigs = append(sigs, raceSig(rc)+"\t"+rc.String())
	}
	sort.Strings(sigs)
	b, _ := json.Marshal(map[string]any{"status": r.Status.String(), "races": sigs, "panic": r.PanicValue})
	fmt.Println(string(b))
}

// runMetaTrial: both uses run concurrently in this fresh process; each result must be what the same use returns
// alone afterwards (when every lazily built part of the meta-schema exists).
func runMetaTrial(t trial) {
	a, b := metaUse(t.A), metaUse(t.B)
	var ra, rb string
	// the schedule to follow (a prefix of choices; what comes after takes the default): this process is fresh, and only
	// the very first execution in it meets the package-level schemas unused - so every schedule gets a process of its own
	var prefix []mcrt.Choice
	if p := os.Getenv("VERIF_C13_PREFIX"); p != "" {
		_ = json.Unmarshal([]byte(p), &prefix)
	}
	r := mcrt.Run(prefix, func() {
		var wg mcrt.WaitGroup
		wg.Add(2)
		mcrt.GoNamed("a", func() { defer wg.Done(); ra = a() })
		mcrt.GoNamed("b", func() { defer wg.Done(); rb = b() })
		wg.Wait()
	}, mcrt.RunOpts{Races: true})
	var sigs []string
	for _, rc := range r.Races {
		sigs = append(sigs, raceSig(rc)+"\t"+rc.String())
	}
	sort.Strings(sigs)
	diff := ""
	if r.Status == mcrt.StComplete {
		if alone := metaUse(t.A)(); alone != ra {
			diff += fmt.Sprintf("%s: concurrently %s, alone %s; ", t.A, clip(ra), clip(alone))
		}
		if alone := metaUse(t.B)(); alone != rb {
			diff += fmt.Sprintf("%s: concurrently %s, alone %s; ", t.B, clip(rb), clip(alone))
		}
	}
	out, _ := json.Marshal(map[string]any{"status": r.Status.String(), "races": sigs, "panic": r.PanicValue, "diff": diff, "a": clip(ra), "b": clip(rb), "choices": r.Choices, "infra": r.Infra})
	fmt.Println(string(out))
}

func pre(tier string, rep *lib.Report) (int, map[string]any) {
	self, _ := os.Executable()
	n := 0
	type job struct {
		i      int
		prefix string
	}
	var jobs []job
	for i := range trials() {
		jobs = append(jobs, job{i, ""})
	}
	for ji := 0; ji < len(jobs); ji++ {
		i, t := jobs[ji].i, trials()[jobs[ji].i]
		cmd := exec.Command(self)
		cmd.Env = append(os.Environ(), fmt.Sprintf("VERIF_C13_TRIAL=%d", i), "GOMAXPROCS=1", "VERIF_C13_PREFIX="+jobs[ji].prefix)
		out, err := cmd.Output()
		n++
		if err != nil {
			rep.InfraError(fmt.Sprintf("trial %v failed: %v", t, err))
			continue
		}
		var res struct {
			Status  string
			Races   []string
			Panic   string
			Diff    string
			Infra   string
			Choices []mcrt.Choice
		}
		if json.Unmarshal(out, &res) != nil {
			rep.InfraError("bad trial output: " + string(out))
			continue
		}
		if t.Global == "meta" && jobs[ji].prefix == "" && res.Status == "complete" {
			// every schedule that differs from the default one in a single choice (one preemption or one other thread at a
			// blocking point), each in a fresh process
			for k, c := range res.Choices {
				for alt := 1; alt < c.N; alt++ {
					p := append(append([]mcrt.Choice{}, res.Choices[:k]...), mcrt.Choice{I: alt, N: c.N})
					b, _ := json.Marshal(p)
					jobs = append(jobs, job{i, string(b)})
				}
			}
		}
		if res.Status == "infra" && jobs[ji].prefix != "" {
			continue // the prefix did not apply (the execution took another course before it): not a schedule of this trial
		}
		if res.Diff != "" {
			rep.Violate("first concurrent use of the package-level meta-schema returns something else than in isolation", fmt.Sprintf("%v: %s", t, res.Diff), map[string]any{"trial": i})
		}
		if res.Status == "infra" {
			rep.InfraError(fmt.Sprintf("trial %v: scheduler infrastructure error", t))
			continue
		}
		if res.Status != "complete" && res.Status != "panic" {
			rep.Violate("first concurrent use of a package-level definition does not complete: "+res.Status, fmt.Sprintf("%v", t), map[string]any{"trial": i})
		}
		if res.Status == "panic" {
			rep.Violate("panic in a first use of a package-level unit definition", fmt.Sprintf("%v: %s", t, res.Panic), map[string]any{"trial": i})
		}
		for _, r := range res.Races {
			parts := strings.SplitN(r, "\t", 2)
			rep.Violate("data race: "+parts[0], fmt.Sprintf("first concurrent use of the package-level %s (%s || %s) in a fresh process, schedule %s\n%s", t.Global, t.A, t.B, jobs[ji].prefix, parts[1]), map[string]any{"trial": i, "prefix": jobs[ji].prefix})
		}
	}
	return n, map[string]any{"package_level_trials_in_fresh_processes": n}
}

func main() {
	if v := os.Getenv("VERIF_C13_TRIAL"); v != "" && os.Getenv("VERIF_WORKER") == "" {
		var i int
		fmt.Sscan(v, &i)
		ukit.SharedUnits = true
		runTrial(i)
		return
	}
	_ = context.Background
	mc.Main(mc.Harness{
		Property: "C13",
		Level:    "model_checking",
		Scenarios: func(tier string) []mc.Scenario {
			scs = map[string]scen{}
			var out []mc.Scenario
			for _, s := range scenarios(tier) {
				scs[s.name()] = s
				levels := []mc.Bounds{{Preempt: 0, Delay: 0}, {Preempt: 1, Delay: 1}, {Preempt: 2, Delay: 2}}
				out = append(out, mc.Scenario{Name: s.name(), Levels: levels, Races: true})
			}
			// step calls on one callable schema (the way the ATP server uses it)
			stepScs = map[string]stepkit.Scen{}
			for _, s := range stepkit.Scens(tier) {
				name := "step calls/" + s.Name
				stepScs[name] = s
				levels := []mc.Bounds{{Preempt: 0, Delay: 0}, {Preempt: 1, Delay: 1}, {Preempt: 2, Delay: 2}, {Preempt: 3, Delay: 3}}
				out = append(out, mc.Scenario{Name: name, Levels: levels, Races: true})
			}
			return out
		},
		Body: func(sc mc.Scenario) func() {
			if s, ok := stepScs[sc.Name]; ok {
				return stepkit.Body(s)
			}
			return body(scs[sc.Name])
		},
		Judge: func(sc mc.Scenario, r *mcrt.Result) (string, []mc.Finding) {
			if s, ok := stepScs[sc.Name]; ok {
				return stepkit.Judge(s, r)
			}
			return judge(scs[sc.Name], r)
		},
		Pre:  pre,
		Rule: "stateless depth-first search over thread schedules of the real schema code under a cooperative scheduler (sync shim; access events on every lazily written field, package variable and map object): 13 subjects (units, defaults, collection defaults of any-typed properties, struct-mapped sub-objects, references, one-ofs) x {freshly built, freshly rebuilt from the description} x every unordered pair of {Unserialize, Unserialize of a second value, Unserialize of a value the schema rejects (an unparsable unit string where there are units), Validate, Serialize, ValidateCompatibility with data, ValidateCompatibility with a schema, SelfSerialize} (thorough: plus triples), all schedules within the bound; plus step calls on one callable schema: CallStep / CallSignal for run ids r1, r2 from 2-4 threads (thorough 5), first use of a run id raced between step and signal; every execution: vector-clock race scan, result of every call equal to the call in isolation (every caller overwrites in place what Unserialize handed it as soon as it has it), initializer once per run id, signal handler sees its run's step data; package-level unit definitions: first use raced in a fresh process per trial",
		Budget: func(tier string) time.Duration {
			if tier == "thorough" {
				return 20 * time.Minute
			}
			return 300 * time.Second
		},
		Assumptions: []string{
			"schema code contains no synchronisation, so each call is one atomic block under the scheduler and the interleavings are the orders of the blocks; whether that atomicity assumption is legitimate is what the race scan decides: two conflicting accesses (instrumented field, package variable or map object) not ordered by happens-before in any explored execution are a race",
			"access events cover struct fields and package variables that are written somewhere in the package outside composite literals, and every map object; writes through reflect and inside dependencies are not seen",
			"two threads suffice for race existence (a race is a pair of accesses); the thorough tier adds triples",
			"unit definitions are private copies per instance except in the package-level trials, which run in a fresh process each",
		},
	})
}
