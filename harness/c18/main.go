// C18: functions - handlers accepted iff signatures match; calls report faithfully.
//
// The full matrix of handler signatures (reflect.MakeFunc) x declarations is enumerated for both
// constructors; accepted functions are called with argument lists of every length 0..4.
package main

import (
	"encoding/json"
	"errors"
	"fmt"
	"reflect"
	"strings"
	"time"

	"go.flow.arcalot.io/pluginsdk/mcrt"
	"go.flow.arcalot.io/pluginsdk/schema"
	"verif/engine/lib"
	"verif/engine/ux"
	"verif/harness/ukit"
)

// a non-error type whose name is "error"
type fake struct{}

func (fake) decl() {
	type error int //nolint
	fakeErrorType = reflect.TypeOf(error(0))
}

var fakeErrorType reflect.Type

func init() { fake{}.decl() }

var errorType = reflect.TypeOf((*error)(nil)).Elem()

// types that implement error without being the predeclared interface
type ptrErr struct{ msg string }

func (e *ptrErr) Error() string { return e.msg }

type valErr struct{ msg string }

func (e valErr) Error() string { return e.msg }

type wideErr interface {
	error
	Code() int
}

var (
	ptrErrType  = reflect.TypeOf((*ptrErr)(nil))
	valErrType  = reflect.TypeOf(valErr{})
	wideErrType = reflect.TypeOf((*wideErr)(nil)).Elem()
)

type native struct {
	Name   string
	Type   reflect.Type
	Schema func() schema.Type
	Value  any
}

var anyType = reflect.TypeOf((*any)(nil)).Elem()

var natives = []native{
	{"int", reflect.TypeOf(int64(0)), func() schema.Type { return schema.NewIntSchema(nil, nil, nil) }, int64(42)},
	{"string", reflect.TypeOf(""), func() schema.Type { return schema.NewStringSchema(nil, nil, nil) }, "text"},
	{"float", reflect.TypeOf(float64(0)), func() schema.Type { return schema.NewFloatSchema(nil, nil, nil) }, 2.5},
	{"bool", reflect.TypeOf(false), func() schema.Type { return schema.NewBoolSchema() }, true},
	{"list<string>", reflect.TypeOf([]string{}), func() schema.Type { return schema.NewListSchema(schema.NewStringSchema(nil, nil, nil), nil, nil) }, []string{"a", "b"}},
	{"map<string,int>", reflect.TypeOf(map[string]int64{}), func() schema.Type {
		return schema.NewMapSchema(schema.NewStringSchema(nil, nil, nil), schema.NewIntSchema(nil, nil, nil), nil, nil)
	}, map[string]int64{"k": 1}},
	{"any", anyType, func() schema.Type { return schema.NewAnySchema() }, any("dynamic")},
	// types that differ from the above only in one component (key type, item type)
	{"map<int,int>", reflect.TypeOf(map[int64]int64{}), func() schema.Type {
		return schema.NewMapSchema(schema.NewIntSchema(nil, nil, nil), schema.NewIntSchema(nil, nil, nil), nil, nil)
	}, map[int64]int64{1: 1}},
	{"list<int>", reflect.TypeOf([]int64{}), func() schema.Type { return schema.NewListSchema(schema.NewIntSchema(nil, nil, nil), nil, nil) }, []int64{1, 2}},
	{"list<map<string,int>>", reflect.TypeOf([]map[string]int64{}), func() schema.Type {
		return schema.NewListSchema(schema.NewMapSchema(schema.NewStringSchema(nil, nil, nil), schema.NewIntSchema(nil, nil, nil), nil, nil), nil, nil)
	}, []map[string]int64{{"k": 1}}},
	{"list<map<int,int>>", reflect.TypeOf([]map[int64]int64{}), func() schema.Type {
		return schema.NewListSchema(schema.NewMapSchema(schema.NewIntSchema(nil, nil, nil), schema.NewIntSchema(nil, nil, nil), nil, nil), nil, nil)
	}, []map[int64]int64{{1: 1}}},
	// a list whose items have a NAMED scalar type: its Go type is []MyStr, not []string
	{"list<typed enum>", reflect.TypeOf([]ukit.MyStr{}), func() schema.Type {
		return schema.NewListSchema(schema.NewTypedStringEnumSchema[ukit.MyStr](map[ukit.MyStr]*schema.DisplayValue{"a": nil, "b": nil}), nil, nil)
	}, []ukit.MyStr{"a"}},
	{"typed enum", reflect.TypeOf(ukit.MyStr("")), func() schema.Type {
		return schema.NewTypedStringEnumSchema[ukit.MyStr](map[ukit.MyStr]*schema.DisplayValue{"a": nil, "b": nil})
	}, ukit.MyStr("a")},
	// the statically typed list and map schemas (same Go types as their untyped counterparts above; they answer the
	// list / map type id without being an UntypedList / UntypedMap)
	{"typed list<int>", reflect.TypeOf([]int64{}), func() schema.Type {
		return schema.NewTypedListSchema[int64](schema.NewIntSchema(nil, nil, nil), nil, nil)
	}, []int64{1, 2}},
	{"typed map<string,int>", reflect.TypeOf(map[string]int64{}), func() schema.Type {
		return schema.NewTypedMapSchema[string, int64](schema.NewStringSchema(nil, nil, nil), schema.NewIntSchema(nil, nil, nil), nil, nil)
	}, map[string]int64{"k": 1}},
}

// paramLists: 0..2 parameters over all 7 natives, 3 parameters over the first 3
func paramLists() [][]int {
	out := [][]int{{}}
	for a := range natives {
		out = append(out, []int{a})
	}
	for a := range natives {
		for b := range natives {
			out = append(out, []int{a, b})
		}
	}
	for a := 0; a < 3; a++ {
		for b := 0; b < 3; b++ {
			for c := 0; c < 3; c++ {
				out = append(out, []int{a, b, c})
			}
		}
	}
	if thoroughTier {
		// appended, so that the indices of the quick tier's lists stay what they are: three parameters over the first six
		// native types (the combinations above excluded)
		for a := 0; a < 6; a++ {
			for b := 0; b < 6; b++ {
				for c := 0; c < 6; c++ {
					if a < 3 && b < 3 && c < 3 {
						continue
					}
					out = append(out, []int{a, b, c})
				}
			}
		}
	}
	return out
}

var thoroughTier bool

// result shapes
type shape struct {
	Name string
	Outs func(v reflect.Type) []reflect.Type
}

var shapes = []shape{
	{"none", func(v reflect.Type) []reflect.Type { return nil }},
	{"V", func(v reflect.Type) []reflect.Type { return []reflect.Type{v} }},
	{"error", func(v reflect.Type) []reflect.Type { return []reflect.Type{errorType} }},
	{"V,error", func(v reflect.Type) []reflect.Type { return []reflect.Type{v, errorType} }},
	{"V,V", func(v reflect.Type) []reflect.Type { return []reflect.Type{v, v} }},
	{"V,V,error", func(v reflect.Type) []reflect.Type { return []reflect.Type{v, v, errorType} }},
	{"error,V", func(v reflect.Type) []reflect.Type { return []reflect.Type{errorType, v} }},
	{"V,bool", func(v reflect.Type) []reflect.Type { return []reflect.Type{v, reflect.TypeOf(false)} }},
	{"V,type-named-error", func(v reflect.Type) []reflect.Type { return []reflect.Type{v, fakeErrorType} }},
	{"type-named-error", func(v reflect.Type) []reflect.Type { return []reflect.Type{fakeErrorType} }},
	// results that implement error but are not the predeclared interface
	{"V,*T-implementing-error", func(v reflect.Type) []reflect.Type { return []reflect.Type{v, ptrErrType} }},
	{"V,struct-implementing-error", func(v reflect.Type) []reflect.Type { return []reflect.Type{v, valErrType} }},
	{"V,wider-error-interface", func(v reflect.Type) []reflect.Type { return []reflect.Type{v, wideErrType} }},
	{"*T-implementing-error", func(v reflect.Type) []reflect.Type { return []reflect.Type{ptrErrType} }},
}

type batch struct {
	Params int `json:"params"`
}

type replay struct {
	Params int    `json:"params"`
	Case   string `json:"case"`
}

type handlerSpec struct {
	ins  []reflect.Type
	outs []reflect.Type
}

func (h handlerSpec) String() string {
	var i, o []string
	for _, t := range h.ins {
		i = append(i, t.String())
	}
	for _, t := range h.outs {
		if t == fakeErrorType {
			o = append(o, "«int type named error»")
		} else {
			o = append(o, t.String())
		}
	}
	return "func(" + strings.Join(i, ", ") + ") (" + strings.Join(o, ", ") + ")"
}

func valueOf(t reflect.Type) reflect.Value {
	for _, n := range natives {
		if n.Type == t {
			v := reflect.New(t).Elem()
			v.Set(reflect.ValueOf(n.Value))
			return v
		}
	}
	return reflect.Zero(t)
}

// makeHandler builds a function of the given type that returns canonical values and retErr as its error results.
func makeHandler(h handlerSpec, retErr error, calls *int) any {
	ft := reflect.FuncOf(h.ins, h.outs, false)
	return reflect.MakeFunc(ft, func(args []reflect.Value) []reflect.Value {
		*calls++
		res := make([]reflect.Value, len(h.outs))
		for i, t := range h.outs {
			switch {
			case t == errorType:
				v := reflect.New(errorType).Elem()
				if retErr != nil {
					v.Set(reflect.ValueOf(retErr))
				}
				res[i] = v
			default:
				res[i] = valueOf(t)
			}
		}
		return res
	}).Interface()
}

type decl struct {
	inputs       []int // native indexes
	output       int   // -1 = nil
	outputsError bool
}

func (d decl) String() string {
	var in []string
	for _, i := range d.inputs {
		in = append(in, natives[i].Name)
	}
	o := "void"
	if d.output >= 0 {
		o = natives[d.output].Name
	}
	return fmt.Sprintf("inputs=[%s] output=%s outputsError=%v", strings.Join(in, ","), o, d.outputsError)
}

func inputDecls(params []int) [][]int {
	out := [][]int{append([]int{}, params...)}
	for i := range params { // one position changed, to every other native
		for d := 1; d < len(natives); d++ {
			alt := append([]int{}, params...)
			alt[i] = (params[i] + d) % len(natives)
			out = append(out, alt)
		}
	}
	if len(params) > 0 {
		out = append(out, append([]int{}, params[:len(params)-1]...))
	}
	out = append(out, append(append([]int{}, params...), 0))
	return out
}

func refAcceptStatic(h handlerSpec, d decl) bool {
	if len(d.inputs) != len(h.ins) {
		return false
	}
	for i, n := range d.inputs {
		if natives[n].Type != h.ins[i] {
			return false
		}
	}
	want := 0
	if d.output >= 0 {
		want++
	}
	if d.outputsError {
		want++
	}
	if len(h.outs) != want {
		return false
	}
	if d.outputsError && h.outs[len(h.outs)-1] != errorType {
		return false
	}
	if d.output >= 0 && h.outs[0] != natives[d.output].Type {
		return false
	}
	return true
}

func refAcceptDynamic(h handlerSpec, inputs []int) bool {
	if len(inputs) != len(h.ins) {
		return false
	}
	for i, n := range inputs {
		if natives[n].Type != h.ins[i] {
			return false
		}
	}
	return len(h.outs) == 2 && h.outs[1] == errorType && h.outs[0].Kind() == reflect.Interface && h.outs[0] != errorType
}

type checker struct {
	res *ux.Result
	pi  int
}

func (c *checker) fail(sig, detail, kase string) {
	c.res.Add(sig, detail, replay{c.pi, kase})
}

func (c *checker) guard(kase string, f func()) {
	pan, val, stack := ukit.Call(f)
	if pan {
		c.fail(fmt.Sprintf("panic in %s: %s", lib.PanicSite(stack), lib.PanicClass(fmt.Sprint(val))), kase+fmt.Sprintf("\npanic: %v", val), kase)
	}
}

func schemasOf(idx []int) []schema.Type {
	out := make([]schema.Type, len(idx))
	for i, n := range idx {
		out[i] = natives[n].Schema()
	}
	return out
}

func (c *checker) exercise(kase string, fn schema.CallableFunction, h handlerSpec, wantVal bool, dynamic bool) {
	boom := errors.New("boom")
	_ = boom
	for nargs := 0; nargs <= 4; nargs++ {
		args := make([]any, nargs)
		for i := range args {
			if i < len(h.ins) {
				args[i] = valueOf(h.ins[i]).Interface()
			} else {
				args[i] = int64(1)
			}
		}
		c.res.Evaluations++
		c.guard(fmt.Sprintf("%s; Call with %d argument(s)", kase, nargs), func() {
			got, err := fn.Call(args)
			if nargs != len(h.ins) {
				if err == nil {
					c.fail("call with a wrong argument count does not return an error", fmt.Sprintf("%s; %d args -> %v", kase, nargs, got), kase)
					return
				}
				var fce *schema.FunctionCallError
				if errors.As(err, &fce) && fce.IsFunctionReportedError {
					c.fail("call-shape problem reported as function-reported error", fmt.Sprintf("%s; %d args -> %v", kase, nargs, err), kase)
				}
				return
			}
			if err != nil {
				c.fail("correct call of an accepted function returns an error", fmt.Sprintf("%s -> %v", kase, err), kase)
				return
			}
			if wantVal {
				want := valueOf(h.outs[0]).Interface()
				if !ukit.Equiv(got, want) {
					c.fail("call does not return what the handler returned", fmt.Sprintf("%s -> %s, handler returned %s", kase, ukit.Show(got), ukit.Show(want)), kase)
				}
			} else if got != nil {
				c.fail("void function returns a value", fmt.Sprintf("%s -> %s", kase, ukit.Show(got)), kase)
			}
		})
	}
}

// sameGoValue: identical dynamic type, identical nil-ness, equal content.
func sameGoValue(a, b any) bool {
	if a == nil || b == nil {
		return a == nil && b == nil
	}
	va, vb := reflect.ValueOf(a), reflect.ValueOf(b)
	if va.Type() != vb.Type() {
		return false
	}
	switch va.Kind() {
	case reflect.Slice, reflect.Map, reflect.Pointer:
		if va.IsNil() != vb.IsNil() {
			return false
		}
	}
	return reflect.DeepEqual(a, b)
}

// echoCalls: "returns exactly what the handler returned" presupposes that the handler was given exactly what the
// caller passed. For every native type T a handler func(T) T (and func(T, T) T returning its second parameter) that
// records what it receives is called with every value of T's argument alphabet - the canonical value, the zero
// value, nil and empty-but-non-nil lists and maps, and for an `any` parameter values of several dynamic types
// including typed nils: the handler has to receive the argument itself (same dynamic type, same nil-ness, same
// content) and the call has to return it.
func echoCalls(res *ux.Result) {
	c := &checker{res: res, pi: -2}
	for _, n := range natives {
		n := n
		var alphabet []any
		alphabet = append(alphabet, n.Value)
		if n.Type != anyType {
			alphabet = append(alphabet, reflect.Zero(n.Type).Interface())
			switch n.Type.Kind() {
			case reflect.Slice:
				alphabet = append(alphabet, reflect.MakeSlice(n.Type, 0, 0).Interface())
			case reflect.Map:
				alphabet = append(alphabet, reflect.MakeMap(n.Type).Interface())
			}
		} else {
			alphabet = append(alphabet, int64(0), "", false, 0.0, []any{}, []any(nil), []string(nil), []string{}, map[string]any(nil),
				map[string]any{}, map[any]any(nil), []any{nil}, map[string]any{"k": nil})
		}
		for arity := 1; arity <= 2; arity++ {
			var received []any
			ins := make([]reflect.Type, arity)
			schemas := make([]schema.Type, arity)
			for i := range ins {
				ins[i] = n.Type
				schemas[i] = n.Schema()
			}
			ft := reflect.FuncOf(ins, []reflect.Type{n.Type}, false)
			handler := reflect.MakeFunc(ft, func(args []reflect.Value) []reflect.Value {
				received = received[:0]
				for _, a := range args {
					received = append(received, a.Interface())
				}
				return []reflect.Value{args[len(args)-1]}
			}).Interface()
			for _, dynamic := range []bool{false, true} {
				var fn schema.CallableFunction
				var err error
				if dynamic {
					fn, err = schema.NewDynamicCallableFunction("echo", schemas, nil, handler, func(inputType []schema.Type) (schema.Type, error) { return n.Schema(), nil })
				} else {
					fn, err = schema.NewCallableFunction("echo", schemas, n.Schema(), false, nil, handler)
				}
				kase := fmt.Sprintf("echo handler %s, dynamic=%v", ft, dynamic)
				if err != nil {
					if !dynamic {
						c.fail("matching echo handler rejected", kase+": "+err.Error(), kase)
					}
					continue
				}
				for ai, arg := range alphabet {
					args := []any{arg}
					if arity == 2 {
						args = []any{alphabet[(ai+1)%len(alphabet)], arg}
					}
					res.Evaluations++
					c.guard(kase, func() {
						received = nil
						got, err := fn.Call(args)
						if err != nil {
							c.fail("correct call of an accepted function returns an error", fmt.Sprintf("%s(%s) -> %v", kase, ukit.Show(args), err), kase)
							return
						}
						if len(received) != len(args) {
							c.fail("handler not given the arguments of the call", fmt.Sprintf("%s(%s): handler received %s", kase, ukit.Show(args), ukit.Show(received)), kase)
							return
						}
						for i := range args {
							if !sameGoValue(received[i], args[i]) {
								c.fail("handler is given another value than the caller passed", fmt.Sprintf("%s: argument %d is %#v (%T), handler received %#v (%T)", kase, i, args[i], args[i], received[i], received[i]), kase)
								return
							}
						}
						if !sameGoValue(got, arg) {
							c.fail("call does not return what the handler returned", fmt.Sprintf("%s: handler returned %#v (%T), Call returned %#v (%T)", kase, arg, arg, got, got), kase)
						}
					})
				}
			}
		}
	}
}

// concurrentCalls: one function object called by two threads at once with different arguments (the engine evaluates
// expressions of several workflow steps in parallel): under the cooperative scheduler, all schedules with at most one
// preemption, every execution scanned for happens-before races on the function object (schema/ is built with the
// access rewrite for this check); each call must return what its own arguments give.
func concurrentCalls(res *ux.Result) {
	str := func() schema.Type { return schema.NewStringSchema(nil, nil, nil) }
	type fcase struct {
		name string
		make func() (schema.CallableFunction, error)
		n    int
	}
	cases := []fcase{
		{"NewCallableFunction, three parameters", func() (schema.CallableFunction, error) {
			return schema.NewCallableFunction("join3", []schema.Type{str(), str(), str()}, str(), false, nil,
				func(a, b, c string) string { return a + "|" + b + "|" + c })
		}, 3},
		{"NewCallableFunction, one parameter, error result", func() (schema.CallableFunction, error) {
			return schema.NewCallableFunction("echo", []schema.Type{str()}, str(), true, nil,
				func(a string) (string, error) { return "<" + a + ">", nil })
		}, 1},
		{"NewDynamicCallableFunction, two parameters", func() (schema.CallableFunction, error) {
			return schema.NewDynamicCallableFunction("join2", []schema.Type{str(), str()}, nil,
				func(a, b string) (any, error) { return a + "|" + b, nil },
				func(in []schema.Type) (schema.Type, error) { return schema.NewAnySchema(), nil })
		}, 2},
	}
	for ci, fc := range cases {
		kase := "two concurrent calls of one function object: " + fc.name
		fn, err := fc.make()
		if err != nil {
			res.Add("INFRA concurrent part: constructor refused a matching handler", kase+": "+err.Error(), replay{-1, kase})
			continue
		}
		argsOf := func(who string) []any {
			out := make([]any, fc.n)
			for i := range out {
				out[i] = fmt.Sprintf("%s%d", who, i)
			}
			return out
		}
		want := func(who string) string {
			v, err := fn.Call(argsOf(who))
			return fmt.Sprint(v, err)
		}
		wantA, wantB := want("a"), want("b")
		var gotA, gotB string
		e := &mcrt.Explorer{Embedded: true, MaxPreempt: 1, MaxDelay: 1, MaxSteps: 1 << 20, Races: true, Body: func() {
			var wg mcrt.WaitGroup
			wg.Add(2)
			mcrt.GoNamed("caller-a", func() { defer wg.Done(); v, err := fn.Call(argsOf("a")); gotA = fmt.Sprint(v, err) })
			mcrt.GoNamed("caller-b", func() { defer wg.Done(); v, err := fn.Call(argsOf("b")); gotB = fmt.Sprint(v, err) })
			wg.Wait()
		}, Check: func(r *mcrt.Result) bool {
			res.Evaluations++
			rp := replay{-1 - ci, kase}
			switch r.Status {
			case mcrt.StPanic:
				res.Add(fmt.Sprintf("panic in %s: %s", lib.PanicSite(r.PanicStack), lib.PanicClass(r.PanicValue)), kase+"\npanic: "+r.PanicValue, rp)
			case mcrt.StComplete:
				for _, rc := range r.Races {
					res.Add("data race between two calls of one function object: "+rc.Kind+" "+rc.First+" <-> "+rc.Then, kase+"\n"+rc.String(), rp)
				}
				if gotA != wantA || gotB != wantB {
					res.Add("a call returns something else when another call of the same function runs at the same time", fmt.Sprintf("%s\ncaller a: %s (alone: %s)\ncaller b: %s (alone: %s)", kase, gotA, wantA, gotB, wantB), rp)
				}
			}
			return true
		}}
		e.All()
	}
}

func run(tier string, raw json.RawMessage, from int, deadline time.Time) ux.Result {
	thoroughTier = thoroughTier || tier == "thorough"
	var b batch
	_ = json.Unmarshal(raw, &b)
	var res ux.Result
	if b.Params == -2 {
		echoCalls(&res)
		res.Nontrivial = res.Evaluations
		return res
	}
	if b.Params < 0 {
		concurrentCalls(&res)
		res.Nontrivial = res.Evaluations
		return res
	}
	c := &checker{res: &res, pi: b.Params}
	params := paramLists()[b.Params]
	ins := make([]reflect.Type, len(params))
	for i, n := range params {
		ins[i] = natives[n].Type
	}
	ux.Progress(0)
	accepted := 0
	for _, sh := range shapes {
		vs := natives
		if sh.Name == "none" || sh.Name == "error" || sh.Name == "type-named-error" {
			vs = natives[:1]
		}
		for _, v := range vs {
			h := handlerSpec{ins: ins, outs: sh.Outs(v.Type)}
			for _, inputs := range inputDecls(params) {
				// static constructor
				for out := -1; out < len(natives); out++ {
					for _, oe := range []bool{false, true} {
						d := decl{inputs, out, oe}
						kase := fmt.Sprintf("NewCallableFunction(%s) with handler %s", d, h)
						want := refAcceptStatic(h, d)
						res.Evaluations++
						c.guard(kase, func() {
							calls := 0
							var outS schema.Type
							if out >= 0 {
								outS = natives[out].Schema()
							}
							fn, err := schema.NewCallableFunction("f", schemasOf(inputs), outS, oe, nil, makeHandler(h, nil, &calls))
							if (err == nil) != want {
								verdict := "rejected a handler that matches the declaration"
								if err == nil {
									verdict = "accepted a handler that does not match the declaration"
								}
								c.fail("NewCallableFunction "+verdict, fmt.Sprintf("%s -> err=%v", kase, err), kase)
								if err != nil {
									return
								}
							}
							if err != nil {
								return
							}
							accepted++
							c.exercise(kase, fn, h, out >= 0, false)
							if oe && want {
								// handler reports an error: a plain one, one that is itself a FunctionCallError of a nested call
								// (flag false), and one wrapping such an error - all are errors *returned by the handler*
								inner := schema.NewFunctionCallError(errors.New("boom-inner"), false)
								for ei, herr := range []error{errors.New("boom"), inner, fmt.Errorf("context: %w", inner)} {
									fe, _ := schema.NewCallableFunction("f", schemasOf(inputs), outS, oe, nil, makeHandler(h, herr, &calls))
									args := make([]any, len(h.ins))
									for i := range args {
										args[i] = valueOf(h.ins[i]).Interface()
									}
									_, cerr := fe.Call(args)
									var fce *schema.FunctionCallError
									if cerr == nil || !errors.As(cerr, &fce) || !fce.IsFunctionReportedError || !strings.Contains(cerr.Error(), "boom") ||
										(ei == 2 && !strings.Contains(cerr.Error(), "context")) {
										c.fail("error returned by the handler is not reported faithfully as function-reported", fmt.Sprintf("%s; handler returned %q (%T) -> %v", kase, herr, herr, cerr), kase)
									}
								}
							}
						})
					}
				}
				// dynamic constructor
				kase := fmt.Sprintf("NewDynamicCallableFunction(inputs=%v) with handler %s", inputs, h)
				want := refAcceptDynamic(h, inputs)
				res.Evaluations++
				c.guard(kase, func() {
					calls := 0
					fn, err := schema.NewDynamicCallableFunction("f", schemasOf(inputs), nil, makeHandler(h, nil, &calls),
						func(in []schema.Type) (schema.Type, error) { return schema.NewAnySchema(), nil })
					if (err == nil) != want {
						verdict := "rejected a handler that matches the declaration"
						if err == nil {
							verdict = "accepted a handler that does not match the declaration"
						}
						c.fail("NewDynamicCallableFunction "+verdict, fmt.Sprintf("%s -> err=%v", kase, err), kase)
					}
					if err != nil {
						return
					}
					accepted++
					c.exercise(kase, fn, h, true, true)
				})
			}
		}
	}
	res.Nontrivial = res.Evaluations
	res.Count("accepted_functions", accepted)
	if b.Params%40 == 0 {
		res.Samples = append(res.Samples, map[string]any{"params": fmt.Sprint(params), "accepted": accepted, "evaluations": res.Evaluations})
	}
	return res
}

func main() {
	ux.Main(ux.Harness{
		Property:   "C18",
		Level:      "exploration",
		Exhaustive: true,
		Batches: func(tier string) []any {
			thoroughTier = tier == "thorough"
			var out []any
			for i := range paramLists() {
				out = append(out, batch{i})
			}
			out = append(out, batch{-1}) // the concurrent part
			out = append(out, batch{-2}) // argument fidelity
			return out
		},
		Run: run,
		Replay: func(raw json.RawMessage) []ux.Finding {
			var r replay
			if json.Unmarshal(raw, &r) != nil {
				return nil
			}
			b, _ := json.Marshal(batch{r.Params})
			res := run("thorough", b, 0, time.Time{})
			return res.Findings
		},
		Rule: "handlers built with reflect.MakeFunc for every parameter list of 0-2 parameters over 15 native types (the typed list / map schemas included; int64, string, float64, bool, []string, map[string]int64, any, map[int64]int64, []int64, []map[string]int64, []map[int64]int64, []MyStr (a list of typed enum values), MyStr) and 3 parameters over 3 types (thorough tier: over 6 types) x 14 result shapes (none, V, error, (V,error), (V,V), (V,V,error), (error,V), (V,bool), (V, int type named 'error'), (int type named 'error'), and four with a result that implements error without being the predeclared interface: (V,*T), (V,struct), (V, wider interface), (*T)) x declarations (matching inputs, every single-position mismatch, one fewer, one more; output in {nil, each of the 7}; outputsError in {false,true}) for NewCallableFunction, and the inputs for NewDynamicCallableFunction; every accepted function is called with 0..4 arguments, and once with a handler returning a non-nil error; argument fidelity: for each of the 15 native types an echo handler of one and of two parameters (static and dynamic constructor) that records what it is given, called with the canonical value, the zero value, nil and empty lists / maps, and for an `any` parameter 14 values of different dynamic types including typed nils - the handler must receive the very arguments (dynamic type, nil-ness, content) and the call must return what the handler returned; three function objects are each called by two threads at once with different arguments (all schedules with <= 1 preemption, vector-clock race scan, results as alone)",
		Assumptions: []string{
			"reference predicate: parameter and result types equal the schemas' reflected types; an error result is the predeclared interface type error",
			"interface types other than `error` that embed error are outside the alphabet",
		},
	})
}
