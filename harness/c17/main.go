// C17: a rejection names the offending element - the error path leads to the bad field.
package main

import (
	"encoding/json"
	"errors"
	"fmt"
	"strings"
	"time"

	"go.flow.arcalot.io/pluginsdk/mcrt"
	"go.flow.arcalot.io/pluginsdk/schema"
	"verif/engine/lib"
	"verif/engine/ux"
	"verif/harness/ukit"
)

// longValids: 70-element inputs for the long-collection skeletons.
func longValids(spec *ukit.Spec) []any {
	switch {
	case spec.Kind == ukit.KObject && spec.ID == "Long":
		var recs []any
		for i := 0; i < 70; i++ {
			recs = append(recs, map[string]any{"size": int64(i % 6)})
		}
		return []any{map[string]any{"records": recs}}
	case spec.Kind == ukit.KList && spec.Min != nil && *spec.Min == 66:
		var l []any
		for i := 0; i < 70; i++ {
			l = append(l, int64(i%6))
		}
		return []any{l}
	case spec.Kind == ukit.KMap && spec.Min != nil && *spec.Min == 66:
		m := map[any]any{}
		for i := 0; i < 70; i++ {
			m[int64(i)] = "ab"
		}
		return []any{m}
	}
	return nil
}

func skeletons(tier string) []*ukit.Spec {
	i05 := func() *ukit.Spec { return &ukit.Spec{Kind: ukit.KInt, Min: ukit.I64(0), Max: ukit.I64(5)} }
	str13 := func() *ukit.Spec { return &ukit.Spec{Kind: ukit.KString, Min: ukit.I64(1), Max: ukit.I64(3)} }
	out := []*ukit.Spec{
		// top-level leaves: the path is empty
		i05(), str13(), {Kind: ukit.KFloat, FMin: ukit.F64(0), FMax: ukit.F64(1)}, {Kind: ukit.KBool}, {Kind: ukit.KString, Pattern: "^a+$"},
		{Kind: ukit.KIntEnum, EnumI: []int64{1, 2}}, {Kind: ukit.KStrEnum, EnumS: []string{"a", "b"}},
		// lists and maps
		{Kind: ukit.KList, Item: i05(), Min: ukit.I64(1), Max: ukit.I64(3)},
		{Kind: ukit.KList, Item: &ukit.Spec{Kind: ukit.KList, Item: &ukit.Spec{Kind: ukit.KIntEnum, EnumI: []int64{1, 2}}, Max: ukit.I64(2)}},
		{Kind: ukit.KMap, Key: str13(), Val: &ukit.Spec{Kind: ukit.KList, Item: &ukit.Spec{Kind: ukit.KString, Pattern: "^a+$"}, Max: ukit.I64(2)}},
		{Kind: ukit.KMap, Key: i05(), Val: &ukit.Spec{Kind: ukit.KObject, ID: "V", Props: []ukit.Prop{
			{Name: "v", Type: &ukit.Spec{Kind: ukit.KFloat, FMin: ukit.F64(0), FMax: ukit.F64(1)}, Required: true}, {Name: "w", Type: &ukit.Spec{Kind: ukit.KBool}}}}},
		// objects
		{Kind: ukit.KObject, ID: "S1", Props: []ukit.Prop{
			{Name: "a", Type: &ukit.Spec{Kind: ukit.KList, Item: &ukit.Spec{Kind: ukit.KObject, ID: "In", Props: []ukit.Prop{
				{Name: "b", Type: &ukit.Spec{Kind: ukit.KMap, Key: str13(), Val: i05()}, Required: true}}}, Max: ukit.I64(2)}, Required: true},
			{Name: "t", Type: str13()},
		}},
		{Kind: ukit.KObject, ID: "S8", Props: []ukit.Prop{{Name: "m", Type: &ukit.Spec{Kind: ukit.KMap, Key: &ukit.Spec{Kind: ukit.KStrEnum, EnumS: []string{"a", "b"}}, Val: str13()}, Required: true}}},
		{Kind: ukit.KObject, ID: "S3", Props: []ukit.Prop{{Name: "u", Type: ukit.OneOfSpecs()[0], Required: true}}},
		{Kind: ukit.KObject, ID: "Sh", Props: []ukit.Prop{{Name: "ints", Type: &ukit.Spec{Kind: ukit.KObject, ID: "ShInner", Props: []ukit.Prop{
			{Name: "items", Type: &ukit.Spec{Kind: ukit.KList, Item: i05(), Min: ukit.I64(1), Max: ukit.I64(3)}, Required: true}}}, Required: true},
			{Name: "other", Type: str13()}}},
		{Kind: ukit.KList, Item: &ukit.Spec{Kind: ukit.KObject, ID: "ShL", Props: []ukit.Prop{
			{Name: "objs", Type: &ukit.Spec{Kind: ukit.KList, Item: &ukit.Spec{Kind: ukit.KObject, ID: "ShO", Props: []ukit.Prop{{Name: "k", Type: str13(), Required: true}, {Name: "n", Type: i05()}}}}, Required: true}}}},
		{Kind: ukit.KObject, ID: "S3i", Props: []ukit.Prop{{Name: "u", Type: ukit.OneOfSpecs()[5], Required: true}}},
		ukit.ScopeSpecs()[0], ukit.ScopeSpecs()[1], ukit.ScopeSpecs()[2],
		ukit.ShapeSpecs()[0], ukit.ShapeSpecs()[5], ukit.ShapeSpecs()[6],
		// long collections (70 elements; see longValids): an index is an index, however long the list
		{Kind: ukit.KObject, ID: "Long", Props: []ukit.Prop{{Name: "records", Type: &ukit.Spec{Kind: ukit.KList, Item: &ukit.Spec{Kind: ukit.KObject, ID: "Rec", Props: []ukit.Prop{
			{Name: "size", Type: i05(), Required: true}}}}, Required: true}}},
		{Kind: ukit.KList, Item: i05(), Min: ukit.I64(66)},
		{Kind: ukit.KMap, Key: &ukit.Spec{Kind: ukit.KInt}, Val: str13(), Min: ukit.I64(66)},
	}
	{
		for _, s := range ukit.Universe(2, tier == "thorough") {
			switch s.Kind {
			case ukit.KList, ukit.KMap, ukit.KObject, ukit.KScope:
				out = append(out, s)
			}
		}
	}
	return out
}

type batch struct {
	Spec int `json:"spec"`
}

type replay struct {
	Spec *ukit.Spec `json:"spec"`
	Op   string     `json:"op"`
	Idx  int        `json:"index"`
	Kind string     `json:"corruption"`
	Desc string     `json:"value"`
}

func normalise(path []string) []string {
	var out []string
	for _, p := range path {
		if strings.HasPrefix(p, "{oneof[") {
			continue
		}
		if (strings.HasPrefix(p, "[") && strings.HasSuffix(p, "]")) || (strings.HasPrefix(p, "{") && strings.HasSuffix(p, "}")) {
			p = p[1 : len(p)-1]
		}
		out = append(out, p)
	}
	return out
}

func same(a, b []string) bool {
	if len(a) != len(b) {
		return false
	}
	for i := range a {
		if a[i] != b[i] {
			return false
		}
	}
	return true
}

// underOrders runs body under the sorted iteration order and under every single deviating order of every map the
// code ranges over (map-order seam of engine/mcrt; schema/ is built with the maporder rewrite for this check), and
// calls after for each execution.
func underOrders(body func(), after func(panicSig, panicVal string)) {
	e := &mcrt.Explorer{Embedded: true, MaxPreempt: 0, MaxDelay: -1, MaxDeviate: 1, MaxSteps: 1 << 20, Body: body, Check: func(r *mcrt.Result) bool {
		if r.Status == mcrt.StPanic {
			after(fmt.Sprintf("panic in %s: %s", lib.PanicSite(r.PanicStack), lib.PanicClass(r.PanicValue)), r.PanicValue)
		} else {
			after("", "")
		}
		return true
	}}
	e.Deadline = ux.BatchDeadline()
	e.All()
}

func check(spec *ukit.Spec, tier string, res *ux.Result, only *replay) {
	var sch schema.Type
	if pan, _, _ := ukit.Call(func() { sch = ukit.Build(spec) }); pan {
		return
	}
	spec.Walk(func(n *ukit.Spec) {
		if n.Kind == ukit.KScope {
			ukit.Link(n)
		}
	})
	judge := func(op string, i int, c ukit.Corruption, err error) {
		rp := replay{spec, op, i, c.Kind, ukit.Show(c.Value)}
		what := fmt.Sprintf("%s(%s)\ncorruption: %s at %v\nschema: %s\nerror: %v", op, ukit.Show(c.Value), c.Kind, c.Path, spec, err)
		var ce *schema.ConstraintError
		if !errors.As(err, &ce) {
			res.Add(fmt.Sprintf("%s: rejection is not a constraint error (%s)", op, c.Kind), what, rp)
			return
		}
		got := normalise(ce.Path)
		if same(got, c.Path) || (c.Alt != nil && same(got, c.Alt)) {
			return
		}
		// A missing struct-mapped sub-object given by value is filled in from its own defaults (documented struct
		// mapping, ledgered under C09), so what is reported missing may be a required field inside it: the path then
		// runs through the removed element and on to that field - it still leads to the offending element.
		if c.Kind == "missing required" && len(got) > len(c.Path) && same(got[:len(c.Path)], c.Path) {
			res.Count("missing_required_reported_inside_the_missing_element", 1)
			return
		}
		kind := "names another element"
		if len(got) < len(c.Path) {
			kind = "stops short of the element"
		}
		res.Add(fmt.Sprintf("%s: error path %s (%s)", op, kind, c.Kind), what+fmt.Sprintf("\nerror path: %v (normalised %v); expected %v", ce.Path, got, c.Path), rp)
	}
	valids := append(ukit.ValidValues(spec, 2), longValids(spec)...)
	for _, v := range ukit.ValidValues(spec, 2) {
		// the same inputs with one-property objects given in lone-value shorthand
		if sh, changed := ukit.Shorthand(spec, v); changed {
			valids = append(valids, sh)
		}
	}
	for vi, valid := range valids {
		// single-fault oracle: the uncorrupted input must be accepted, otherwise the error may rightly name its own
		// problem (whether a value the generator believes valid is accepted is what C02 / C03 decide)
		var baseErr error
		if pan, _, _ := ukit.Call(func() { _, baseErr = sch.Unserialize(ukit.DeepCopy(valid)) }); pan || baseErr != nil {
			res.Count("base_input_not_accepted", 1)
			continue
		}
		for ci, c := range ukit.Corruptions(spec, valid) {
			idx := vi*100000 + ci
			if only != nil && (only.Op != "Unserialize" || only.Idx != idx) {
				continue
			}
			if ux.Stop() {
				res.Capped = true
				break
			}
			ux.Progress(idx)
			// every iteration order of every map the operation ranges over (one deviating iteration at a time, all
			// permutations): which element a rejection names must not depend on it
			var err error
			underOrders(func() { _, err = sch.Unserialize(ukit.DeepCopy(c.Value)) }, func(panicSig, panicVal string) {
				res.Evaluations++
				switch {
				case panicSig != "":
					res.Add(panicSig, fmt.Sprintf("Unserialize(%s) on %s: %s", ukit.Show(c.Value), spec, panicVal), replay{spec, "Unserialize", idx, c.Kind, ukit.Show(c.Value)})
				case err == nil:
					res.Count("corruption_accepted", 1)
				default:
					res.Nontrivial++
					judge("Unserialize", idx, c, err)
				}
			})
		}
		var native any
		var nerr error
		if pan, _, _ := ukit.Call(func() { native, nerr = sch.Unserialize(ukit.DeepCopy(valid)) }); pan || nerr != nil {
			continue
		}
		for ci, c := range ukit.NativeCorruptions(spec, native) {
			idx := vi*100000 + ci
			if only != nil && (only.Op != "Validate" || only.Idx != idx) {
				continue
			}
			var err error
			underOrders(func() { err = sch.Validate(c.Value) }, func(panicSig, panicVal string) {
				res.Evaluations++
				switch {
				case panicSig != "":
					res.Add(panicSig, fmt.Sprintf("Validate(%s) on %s: %s", ukit.Show(c.Value), spec, panicVal), replay{spec, "Validate", idx, c.Kind, ukit.Show(c.Value)})
				case err == nil:
					res.Count("corruption_accepted", 1)
				default:
					res.Nontrivial++
					judge("Validate", idx, c, err)
				}
			})
		}
	}
}

func main() {
	ux.Main(ux.Harness{
		Property:   "C17",
		Level:      "exploration",
		Exhaustive: true,
		Batches: func(tier string) []any {
			var out []any
			for i := range skeletons(tier) {
				out = append(out, batch{i})
			}
			return out
		},
		Run: func(tier string, raw json.RawMessage, from int, deadline time.Time) ux.Result {
			var b batch
			_ = json.Unmarshal(raw, &b)
			spec := skeletons(tier)[b.Spec]
			var res ux.Result
			check(spec, tier, &res, nil)
			if b.Spec%7 == 0 {
				res.Samples = append(res.Samples, map[string]any{"schema": spec.String(), "corruptions_rejected": res.Nontrivial})
			}
			return res
		},
		Replay: func(raw json.RawMessage) []ux.Finding {
			var r replay
			if json.Unmarshal(raw, &r) != nil {
				return nil
			}
			var res ux.Result
			check(r.Spec, "quick", &res, &r)
			return res.Findings
		},
		Rule: "every operation runs under the sorted and under every single deviating iteration order of every map it ranges over (map-order seam, all permutations for <= 4 keys); 24 nested skeletons (three of them with 70-element collections) plus every list / map / object / scope of U_2: top-level leaves, lists of lists, maps of lists and objects, objects with nested lists of objects with maps, enum-keyed maps, one-ofs with inlined and non-inlined discriminators, scopes with references (incl. recursive), struct-mapped objects; x 2 valid inputs x every leaf, key, list, map, object of the input corrupted one at a time with each applicable corruption (wrong type (3 variants), below min, above max, pattern miss, not in enum, bad key, size bounds, undeclared key, missing required, unknown discriminator), for Unserialize on raw trees and for Validate on native values; non-trivial = corruptions that the operation rejected (each must carry a constraint error whose normalised path equals the element's path)",
		Assumptions: []string{
			"path segments are compared after stripping the decoration the implementation adds: [i], {key}, [key]; {oneof[..]} segments are ignored",
			"for an undeclared key and an unknown discriminator the path may end at the enclosing object or at the key",
			"corruptions the operation accepts are not this property's business (counted, not judged)",
		},
	})
}
