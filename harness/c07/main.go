// C07: the ATP server survives any client and answers each accepted run exactly once.
//
// Closed system: the real RunATPServer with a plugin whose single step behaves as its input says
// (success / declared error output / undeclared output / non-conforming data / panic / slow) and a signal
// handler <-> a scripted client that writes a byte script and then ends the input. The script is a free
// environment choice: every sequence of <= N messages from an alphabet of valid and invalid client
// behaviour, truncated at every byte offset; all thread schedules within the delay bound.
package main

import (
	"bytes"
	"context"
	"fmt"
	"io"
	"math"
	"sort"
	"strings"
	"time"

	"github.com/fxamacker/cbor/v2"
	"go.flow.arcalot.io/pluginsdk/atp"
	"go.flow.arcalot.io/pluginsdk/mcrt"
	"go.flow.arcalot.io/pluginsdk/schema"
	"verif/engine/lib"
	"verif/engine/mc"
)

type stepIn struct {
	Mode string `json:"mode"`
}
type stepOut struct {
	Message string `json:"message"`
}
type stepErr struct {
	Code int64 `json:"code"`
}
type stepStats struct {
	Ratio float64 `json:"ratio"`
}

func strProp() *schema.PropertySchema {
	return schema.NewPropertySchema(schema.NewStringSchema(nil, nil, nil), nil, true, nil, nil, nil, nil, nil)
}

func newPlugin() *schema.CallableSchema {
	in := schema.NewScopeSchema(schema.NewStructMappedObjectSchema[stepIn]("In", map[string]*schema.PropertySchema{"mode": strProp()}))
	out := schema.NewScopeSchema(schema.NewStructMappedObjectSchema[stepOut]("Out", map[string]*schema.PropertySchema{"message": strProp()}))
	errOut := schema.NewScopeSchema(schema.NewStructMappedObjectSchema[stepErr]("Err", map[string]*schema.PropertySchema{
		"code": schema.NewPropertySchema(schema.NewIntSchema(schema.IntPointer(0), schema.IntPointer(10), nil), nil, true, nil, nil, nil, nil, nil)}))
	statsOut := schema.NewScopeSchema(schema.NewStructMappedObjectSchema[stepStats]("Stats", map[string]*schema.PropertySchema{
		"ratio": schema.NewPropertySchema(schema.NewFloatSchema(nil, nil, nil), nil, true, nil, nil, nil, nil, nil)}))
	sigIn := schema.NewScopeSchema(schema.NewStructMappedObjectSchema[stepIn]("SigIn", map[string]*schema.PropertySchema{"mode": strProp()}))
	sig := schema.NewCallableSignal[any, stepIn]("sig", sigIn, nil, func(_ context.Context, _ any, i stepIn) {
		if i.Mode == "panic" {
			panic("signal handler panics")
		}
	})
	return schema.NewCallableSchema(schema.NewCallableStepWithSignals[any, stepIn]("s", in,
		map[string]*schema.StepOutputSchema{
			"success": schema.NewStepOutputSchema(out, nil, false),
			"error":   schema.NewStepOutputSchema(errOut, nil, true),
			"stats":   schema.NewStepOutputSchema(statsOut, nil, false),
		},
		map[string]schema.CallableSignal{"sig": sig}, nil, nil, nil,
		func(_ context.Context, _ any, i stepIn) (string, any) {
			switch i.Mode {
			case "error":
				return "error", stepErr{Code: 3}
			case "undeclared":
				return "nonexistent", stepOut{"x"}
			case "badvalue":
				return "error", stepErr{Code: 99} // violates max 10
			case "wrongtype":
				return "success", stepErr{Code: 1}
			case "inf":
				// a schema-valid output that not every encoder setting can carry (a ratio with denominator 0)
				return "stats", stepStats{Ratio: math.Inf(1)}
			case "panic":
				panic("step panics")
			case "slow":
				mcrt.Yield()
				mcrt.Yield()
			}
			return "success", stepOut{"done " + i.Mode}
		}))
}

// item is one element of the client script alphabet.
type item struct {
	Name  string
	Bytes []byte
	// what a correct server owes: a terminal message for this run id (non-empty = accepted work-start)
	Run string
	// Kind: which terminal message the run is owed: "done" (the step returned a declared output that conforms),
	// "fatal" (it failed, panicked, was refused its input, returned an undeclared output id or non-conforming data), or
	// "" (not pinned down)
	Kind string
	// MayAnswer: the server may (but need not) answer this malformed work-start with a step-fatal error
	MayAnswer string
	// the server stops reading after this item
	Stops bool
}

func rt(id uint32, run string, data any) []byte {
	b, err := cbor.Marshal(atp.RuntimeMessage{MessageID: id, RunID: run, MessageData: data})
	if err != nil {
		panic(err)
	}
	return b
}

func ws(run, step, mode string) []byte {
	return rt(atp.MessageTypeWorkStart, run, atp.WorkStartMessage{StepID: step, Config: map[string]any{"mode": mode}})
}

func sg(run, sig string, data any) []byte {
	return rt(atp.MessageTypeSignal, run, atp.SignalMessage{SignalID: sig, Data: data})
}

var alphabet []item

func init() {
	kindOf := map[string]string{"success": "done", "error": "done", "slow": "done", "undeclared": "fatal", "badvalue": "fatal", "wrongtype": "fatal", "panic": "fatal"}
	for _, m := range []string{"success", "error", "undeclared", "badvalue", "wrongtype", "panic", "slow", "inf"} {
		alphabet = append(alphabet, item{Name: "start(r1," + m + ")", Bytes: ws("r1", "s", m), Run: "r1", Kind: kindOf[m]})
	}
	alphabet = append(alphabet,
		item{Name: "start(r2,success)", Bytes: ws("r2", "s", "success"), Run: "r2", Kind: "done"},
		item{Name: "start(r1,unknown-step)", Bytes: ws("r1", "nope", "success"), Run: "r1", Kind: "fatal"},
		item{Name: "start(no-run-id)", Bytes: ws("", "s", "success")},
		item{Name: "start(r3,no-step-id)", Bytes: ws("r3", "", "success")},
		item{Name: "start(r1,config=42)", Bytes: rt(atp.MessageTypeWorkStart, "r1", atp.WorkStartMessage{StepID: "s", Config: int64(42)}), Run: "r1"},
		item{Name: "start(r1,rejected-input)", Bytes: rt(atp.MessageTypeWorkStart, "r1", atp.WorkStartMessage{StepID: "s", Config: map[string]any{"mode": []any{int64(1), int64(2)}}}), Run: "r1", Kind: "fatal"},
		item{Name: "start(r1,data=string)", Bytes: rt(atp.MessageTypeWorkStart, "r1", "not a work start"), MayAnswer: "r1"},
		item{Name: "signal(r1,sig)", Bytes: sg("r1", "sig", map[string]any{"mode": "x"})},
		item{Name: "signal(r1,unknown-signal)", Bytes: sg("r1", "nosuch", map[string]any{"mode": "x"})},
		item{Name: "signal(r9,sig)", Bytes: sg("r9", "sig", map[string]any{"mode": "x"})},
		item{Name: "signal(no-run-id)", Bytes: sg("", "sig", map[string]any{"mode": "x"})},
		item{Name: "signal(r1,bad-data)", Bytes: sg("r1", "sig", int64(7))},
		item{Name: "signal(r1,data=string)", Bytes: rt(atp.MessageTypeSignal, "r1", "not a signal")},
		// envelopes with a key left out altogether (an empty value and an absent key are different things to a decoder that
		// fills a struct: what it does not find it does not touch)
		item{Name: "start(run_id key absent)", Bytes: mustCBOR(map[string]any{"id": atp.MessageTypeWorkStart,
			"data": atp.WorkStartMessage{StepID: "s", Config: map[string]any{"mode": "success"}}})},
		item{Name: "start(r3, data key absent)", Bytes: mustCBOR(map[string]any{"id": atp.MessageTypeWorkStart, "run_id": "r3"}), MayAnswer: "r3"},
		item{Name: "signal(run_id key absent)", Bytes: mustCBOR(map[string]any{"id": atp.MessageTypeSignal,
			"data": atp.SignalMessage{SignalID: "sig", Data: map[string]any{"mode": "x"}}})},
		item{Name: "id key absent (r1, work-start data)", Bytes: mustCBOR(map[string]any{"run_id": "r1",
			"data": atp.WorkStartMessage{StepID: "s", Config: map[string]any{"mode": "success"}}})},
		item{Name: "unknown-message-id", Bytes: rt(99, "r1", map[string]any{})},
		item{Name: "client-done", Bytes: rt(atp.MessageTypeClientDone, "", map[string]any{}), Stops: true},
		item{Name: "malformed-cbor", Bytes: []byte{0xFF}, Stops: true},
		item{Name: "wrong-envelope", Bytes: mustCBOR(map[string]any{"id": "one", "run_id": int64(1)}), Stops: true},
	)
}

func mustCBOR(v any) []byte {
	b, err := cbor.Marshal(v)
	if err != nil {
		panic(err)
	}
	return b
}

var startMsg = mustCBOR(nil)

type shape struct {
	Name      string
	Len       int  // number of alphabet items after the handshake
	Truncate  bool // enumerate every truncation offset
	Pipe      bool
	OutFail   bool // server output fails from its j-th write on (thorough)
	NoHandshk bool
	// Burst: a fixed script of six work-starts with distinct run ids whose steps all fail (three panic, three get an
	// input the schema rejects) over an unbuffered pipe whose reader starts late (it first sleeps on a virtual timer,
	// which fires only when nothing else can move): every failure report has to queue up behind a blocked write.
	Burst bool
	// Limits: a fixed script around one message that exceeds a limit of the CBOR decoder (nesting depth, announced
	// element count): 1 = a work-start whose config is nested 40 levels deep, 2 = an array header announcing 2^20 elements
	Limits   int
	maxBytes int
}

func shapes(tier string) []shape {
	s := []shape{
		{Name: "handshake-only-truncated", Len: 0, Truncate: true},
		{Name: "1-message", Len: 1},
		{Name: "1-message-truncated", Len: 1, Truncate: true},
		{Name: "2-messages", Len: 2},
		{Name: "1-message-pipe", Len: 1, Pipe: true},
		{Name: "burst-of-6-failing-runs-slow-reader", Burst: true, Pipe: true},
		{Name: "decoder-limit-nesting-depth", Limits: 1},
		{Name: "decoder-limit-element-count", Limits: 2},
		{Name: "work-start-with-foreign-entries", Limits: 3},
	}
	if tier == "thorough" {
		s = append(s,
			shape{Name: "2-messages-truncated", Len: 2, Truncate: true},
			shape{Name: "2-messages-pipe", Len: 2, Pipe: true},
			shape{Name: "3-messages", Len: 3},
			shape{Name: "2-messages-output-fails", Len: 2, OutFail: true},
		)
	}
	return s
}

var shp map[string]*shape

type obs struct {
	script   []item
	cut      int // bytes of the script actually delivered (-1 = all)
	total    int
	out      []byte
	errs     []*atp.ServerError
	returned bool
	outFail  int
}

var cur *obs

func body(sh *shape) func() {
	return func() {
		o := &obs{cut: -1, outFail: -1}
		cur = o
		n := len(alphabet)
		for i := 0; i < sh.Len; i++ {
			o.script = append(o.script, alphabet[mcrt.Choose(n, "message")])
		}
		if sh.Limits == 3 {
			// work-starts that are well-formed CBOR and carry what a work-start needs, plus an entry the message type has no
			// place for (a boolean key; an array key): whether the server runs them or refuses them, each run id gets at most
			// one terminal message
			for i, extra := range []any{true, 1.5, "unknown_field"} {
				run := fmt.Sprintf("x%d", i+1)
				o.script = append(o.script, item{Name: fmt.Sprintf("start(%s, extra entry keyed %v)", run, extra), MayAnswer: run,
					Bytes: rt(atp.MessageTypeWorkStart, run, map[any]any{"id": "s", "config": map[string]any{"mode": "success"}, extra: int64(1)})})
			}
			o.script = append(o.script, item{Name: "start(r2,success)", Bytes: ws("r2", "s", "success"), Run: "r2", Kind: "done"})
		} else if sh.Limits > 0 {
			o.script = append(o.script, item{Name: "start(r1,success)", Bytes: ws("r1", "s", "success"), Run: "r1"})
			if sh.Limits == 1 {
				var deep any = "bottom"
				for i := 0; i < 40; i++ {
					deep = map[string]any{"d": deep}
				}
				o.script = append(o.script, item{Name: "start(r2,config nested 40 deep)", Stops: true,
					Bytes: rt(atp.MessageTypeWorkStart, "r2", atp.WorkStartMessage{StepID: "s", Config: deep})})
			} else {
				o.script = append(o.script, item{Name: "array header announcing 2^20 elements", Stops: true, Bytes: []byte{0x9a, 0x00, 0x10, 0x00, 0x00}})
			}
			o.script = append(o.script, item{Name: "start(r3,success)", Bytes: ws("r3", "s", "success"), Run: "r3"})
		}
		if sh.Burst {
			for i := 1; i <= 6; i++ {
				run := fmt.Sprintf("b%d", i)
				if i%2 == 1 {
					o.script = append(o.script, item{Name: "start(" + run + ",panic)", Bytes: ws(run, "s", "panic"), Run: run})
				} else {
					o.script = append(o.script, item{Name: "start(" + run + ",rejected-input)", Run: run,
						Bytes: rt(atp.MessageTypeWorkStart, run, atp.WorkStartMessage{StepID: "s", Config: map[string]any{"mode": []any{int64(1), int64(2)}}})})
				}
			}
		}
		var script []byte
		script = append(script, startMsg...)
		for _, it := range o.script {
			script = append(script, it.Bytes...)
		}
		o.total = len(script)
		if sh.Truncate {
			// cut in [0, total): the client vanishes after that many bytes
			o.cut = mcrt.Choose(sh.maxBytes, "truncate")
			if o.cut >= len(script) {
				o.cut = -1
			} else {
				script = script[:o.cut]
			}
		}
		var c2s, s2c *mcrt.Link
		if sh.Pipe {
			c2s, s2c = mcrt.NewPipe("c2s"), mcrt.NewPipe("s2c")
		} else {
			c2s, s2c = mcrt.NewStream("c2s"), mcrt.NewStream("s2c")
		}
		if sh.OutFail {
			j := mcrt.Choose(5, "output fails from write")
			s2c.FailWriteAt, s2c.FailPersist = j, true
			o.outFail = j
		}
		plugin := newPlugin()
		mcrt.GoNamed("server", func() {
			o.errs = atp.RunATPServer(context.Background(), c2s.Reader(), s2c.Writer(), plugin)
			o.returned = true
			_ = s2c.Writer().Close()
		})
		mcrt.GoNamed("drain", func() {
			r := s2c.Reader()
			buf := make([]byte, 4096)
			if sh.Burst {
				// the hello has to be read (the server writes it before anything else); after that the reader is busy
				k, err := r.Read(buf)
				o.out = append(o.out, buf[:k]...)
				if err != nil {
					return
				}
				mcrt.Sleep(time.Second)
			}
			for {
				k, err := r.Read(buf)
				o.out = append(o.out, buf[:k]...)
				if err != nil {
					return
				}
			}
		})
		w := c2s.Writer()
		// one write per message, as a CBOR encoder would do
		pos := 0
		chunks := append([][]byte{startMsg}, nil...)
		for _, it := range o.script {
			chunks = append(chunks, it.Bytes)
		}
		for _, c := range chunks {
			if pos >= len(script) {
				break
			}
			end := pos + len(c)
			if end > len(script) {
				end = len(script)
			}
			if _, err := w.Write(script[pos:end]); err != nil {
				break
			}
			pos = end
		}
		_ = w.Close()
	}
}

type outMsg struct {
	ID    uint32
	RunID string
	Fatal bool // step fatal error
	Srv   bool
}

func parseOutput(b []byte) (hello bool, msgs []outMsg, perr error) {
	dec := cbor.NewDecoder(bytes.NewReader(b))
	var h atp.HelloMessage
	if err := dec.Decode(&h); err != nil {
		if err == io.EOF {
			return false, nil, nil
		}
		return false, nil, fmt.Errorf("hello: %w", err)
	}
	hello = true
	for {
		var m atp.DecodedRuntimeMessage
		if err := dec.Decode(&m); err != nil {
			if err == io.EOF {
				return hello, msgs, nil
			}
			return hello, msgs, err
		}
		om := outMsg{ID: m.MessageID, RunID: m.RunID}
		if m.MessageID == atp.MessageTypeError {
			var e atp.ErrorMessage
			if err := cbor.Unmarshal(m.RawMessageData, &e); err != nil {
				return hello, msgs, fmt.Errorf("error message payload: %w", err)
			}
			om.Fatal, om.Srv = e.StepFatal, e.ServerFatal
		}
		if m.MessageID == atp.MessageTypeWorkDone {
			var d atp.WorkDoneMessage
			if err := cbor.Unmarshal(m.RawMessageData, &d); err != nil {
				return hello, msgs, fmt.Errorf("work done payload: %w", err)
			}
		}
		msgs = append(msgs, om)
	}
}

func judge(sh *shape, r *mcrt.Result) (string, []mc.Finding) {
	o := cur
	var fs []mc.Finding
	desc := func() string {
		if o == nil {
			return ""
		}
		var names []string
		for _, it := range o.script {
			names = append(names, it.Name)
		}
		s := "client script: handshake, " + strings.Join(names, ", ")
		if o.cut >= 0 {
			s += fmt.Sprintf("; input ends after %d of %d bytes", o.cut, o.total)
		} else {
			s += "; then end of input"
		}
		if o.outFail >= 0 {
			s += fmt.Sprintf("; server output fails from write #%d on", o.outFail)
		}
		return s
	}
	add := func(sig, detail string) { fs = append(fs, mc.Finding{Signature: sig, Detail: desc() + "\n" + detail}) }
	switch r.Status {
	case mcrt.StPanic:
		add("panic: "+panicClass(r.PanicValue, r.PanicStack), fmt.Sprintf("thread T%d panicked: %s\n%s", r.PanicTID, r.PanicValue, r.PanicStack))
	case mcrt.StHorizon:
		add("step horizon exceeded (livelock?)", "")
	case mcrt.StBlocked:
		var pat []string
		for _, b := range r.Blocked {
			if b.Name == "drain" {
				continue
			}
			pat = append(pat, fmt.Sprintf("%s@%s[%s]", role(b.Name), b.Op, lastFn(b.Where)))
		}
		sort.Strings(pat)
		add("server does not return: "+strings.Join(pat, ", "), fmt.Sprintf("%v", r.Blocked))
	}
	outcome := r.Status.String()
	if o == nil || r.Status != mcrt.StComplete {
		return outcome, fs
	}
	if !o.returned {
		add("RunATPServer did not return", "")
	}
	if o.outFail >= 0 {
		return outcome + " (output failing)", fs
	}
	hello, msgs, perr := parseOutput(o.out)
	if perr != nil {
		add("server output is not a well-formed CBOR message sequence", perr.Error())
		return outcome, fs
	}
	// which work-starts did the server accept?
	owed := map[string]int{}
	may := map[string]int{}
	wantKind := map[string][]string{}
	delivered := len(startMsg)
	handshook := o.cut < 0 || o.cut >= len(startMsg)
	if handshook {
		for _, it := range o.script {
			delivered += len(it.Bytes)
			if o.cut >= 0 && delivered > o.cut {
				break
			}
			if it.Run != "" {
				owed[it.Run]++
				wantKind[it.Run] = append(wantKind[it.Run], it.Kind)
			}
			if it.MayAnswer != "" {
				may[it.MayAnswer]++
			}
			if it.Stops {
				break
			}
		}
	}
	if handshook && !hello {
		add("no hello message although the start message arrived", "")
	}
	got := map[string]int{}
	gotKind := map[string][]string{}
	nerr := 0
	for _, m := range msgs {
		if m.ID == atp.MessageTypeWorkDone || (m.ID == atp.MessageTypeError && m.Fatal && !m.Srv && m.RunID != "") {
			got[m.RunID]++
			if m.ID == atp.MessageTypeWorkDone {
				gotKind[m.RunID] = append(gotKind[m.RunID], "done")
			} else {
				gotKind[m.RunID] = append(gotKind[m.RunID], "fatal")
			}
		}
		if m.ID == atp.MessageTypeError {
			nerr++
		}
	}
	for run, n := range owed {
		if got[run] < n || got[run] > n+may[run] {
			kind := "missing"
			if got[run] > n {
				kind = "duplicated"
			}
			add(fmt.Sprintf("terminal message %s for an accepted work-start", kind), fmt.Sprintf("run %s: %d accepted work-start(s), %d terminal message(s); output messages: %v", run, n, got[run], msgs))
		}
	}
	// the kind of the terminal message, where the run id was used once and the script pins the kind down
	for run, want := range wantKind {
		if len(want) == 1 && want[0] != "" && may[run] == 0 && len(gotKind[run]) == 1 && gotKind[run][0] != want[0] {
			what := "work-done sent for a run whose step failed or returned undeclared / non-conforming output"
			if want[0] == "done" {
				what = "step-fatal error sent for a run whose step returned a declared, conforming output"
			}
			add("terminal message of the wrong kind: "+what, fmt.Sprintf("run %s; output messages: %v", run, msgs))
		}
	}
	for run, n := range got {
		if owed[run] == 0 && n > may[run] {
			add("terminal message for a run that was never accepted", fmt.Sprintf("run %s: %d terminal message(s)", run, n))
		}
	}
	return fmt.Sprintf("%s msgs=%d errs=%d returned-errors=%d owed=%d", outcome, len(msgs), nerr, len(o.errs), len(owed)), fs
}

func panicClass(v, stack string) string {
	return lib.PanicClass(v) + " in " + lib.PanicSite(stack)
}

func role(name string) string {
	if i := strings.LastIndex(name, ":"); i > 0 {
		name = name[:i]
	}
	return name
}

func lastFn(where string) string {
	if i := strings.Index(where, " < "); i > 0 {
		return where[:i]
	}
	return where
}

func main() {
	mc.Main(mc.Harness{
		Property: "C07",
		Level:    "fault_enumeration",
		Scenarios: func(tier string) []mc.Scenario {
			shp = map[string]*shape{}
			maxItem := 0
			for _, it := range alphabet {
				if len(it.Bytes) > maxItem {
					maxItem = len(it.Bytes)
				}
			}
			var out []mc.Scenario
			for _, s := range shapes(tier) {
				s := s
				s.maxBytes = len(startMsg) + s.Len*maxItem
				shp[s.Name] = &s
				levels := []mc.Bounds{{Preempt: 0, Delay: 0}, {Preempt: 1, Delay: 1}}
				if s.Len <= 1 || tier == "thorough" {
					levels = append(levels, mc.Bounds{Preempt: 2, Delay: 2})
				}
				if s.Len <= 1 && !s.Truncate && tier == "thorough" {
					levels = append(levels, mc.Bounds{Preempt: 3, Delay: 3})
				}
				out = append(out, mc.Scenario{Name: s.Name, Levels: levels, Races: true})
			}
			return out
		},
		Body:  func(sc mc.Scenario) func() { return body(shp[sc.Name]) },
		Judge: func(sc mc.Scenario, r *mcrt.Result) (string, []mc.Finding) { return judge(shp[sc.Name], r) },
		Budget: func(tier string) time.Duration {
			if tier == "thorough" {
				return 25 * time.Minute
			}
			return 300 * time.Second
		},
		Rule: fmt.Sprintf("client scripts = handshake + every sequence of N messages over an alphabet of %d valid/invalid items (work-starts with 8 step behaviours (one returns an infinite float) and an input the step's schema rejects, duplicate/unknown/empty ids, envelopes with the run_id, data or id key absent, wrongly typed payloads, 7 signal variants, unknown message id, client-done, malformed CBOR, wrong envelope), optionally cut at every byte offset, then end of input; for each script every thread schedule within the delay bound; distinct = (shape, outcome) pairs", len(alphabet)),
		Assumptions: []string{
			"the client's input always ends (the property's 'once input has ended')",
			"server output is drained by the client until the server returns; output-failure scripts only check no-panic/no-deadlock/returns",
			"accepted work-start = fully delivered work-start with non-empty run and step id, before any item after which the server stops reading",
			"scheduling points at synchronisation/channel/transport operations; timers (60 s send timeout) virtual",
		},
	})
}
