// C01: Serialize and Unserialize are mutual inverses, in memory and over the CBOR wire; typed entry
// points agree with the untyped ones.
package main

import (
	"encoding/json"
	"fmt"
	"time"

	"github.com/fxamacker/cbor/v2"
	"go.flow.arcalot.io/pluginsdk/mcrt"
	"go.flow.arcalot.io/pluginsdk/schema"
	"verif/engine/lib"
	"verif/engine/ux"
	"verif/harness/ukit"
)

var atpDec = func() cbor.DecMode {
	m, err := cbor.DecOptions{ExtraReturnErrors: cbor.ExtraDecErrorUnknownField}.DecMode()
	if err != nil {
		panic(err)
	}
	return m
}()

func viaCBOR(w any) (any, error) {
	b, err := cbor.Marshal(w)
	if err != nil {
		return nil, err
	}
	var out any
	// the client decodes with its DecMode, the server with the package default; both yield the same dynamic types
	if err := atpDec.Unmarshal(b, &out); err != nil {
		return nil, err
	}
	var out2 any
	if err := cbor.Unmarshal(b, &out2); err != nil {
		return nil, err
	}
	if !ukit.Equiv(out, out2) {
		return nil, fmt.Errorf("client and server decoders disagree: %s vs %s", ukit.Show(out), ukit.Show(out2))
	}
	return out, nil
}

func universe(tier string) []*ukit.Spec {
	return ukit.Universe(2, tier == "thorough")
}

type batch struct {
	Spec  int  `json:"spec"`
	Typed bool `json:"typed,omitempty"`
}

type replay struct {
	Spec  *ukit.Spec `json:"spec,omitempty"`
	Typed string     `json:"typed,omitempty"`
	Idx   int        `json:"index"`
	Desc  string     `json:"value"`
}

type ctx struct {
	res  *ux.Result
	spec *ukit.Spec
	name string
	only int
}

func (c *ctx) fail(sig, detail string, i int, raw any) {
	r := replay{Spec: c.spec, Idx: i, Desc: ukit.Show(raw)}
	if c.spec == nil {
		r.Typed = c.name
	}
	c.res.Add(sig, detail+"\nschema: "+c.name+"\nraw input: "+ukit.Show(raw), r)
}

func (c *ctx) guard(step string, i int, raw any, f func()) bool {
	if step == "round trip" && c.spec != nil && smallObjects(c.spec) {
		// the whole pipeline under the sorted iteration order and under every single deviating order of every map the
		// operations range over (map-order seam; schema/ is built with the maporder rewrite for this check): whether a
		// value is accepted, and what comes back, must not depend on which property or key is visited first
		ok := true
		e := &mcrt.Explorer{Embedded: true, MaxPreempt: 0, MaxDelay: -1, MaxDeviate: 1, MaxSteps: 1 << 20, Body: f, Check: func(r *mcrt.Result) bool {
			c.res.Transitions++
			if r.Status == mcrt.StPanic {
				ok = false
				c.fail(fmt.Sprintf("panic in %s: %s", lib.PanicSite(r.PanicStack), lib.PanicClass(r.PanicValue)), fmt.Sprintf("%s panicked: %v", step, r.PanicValue), i, raw)
			}
			return true
		}}
		e.Deadline = ux.BatchDeadline()
		e.All()
		if e.Stats.Capped {
			c.res.Capped = true
		}
		return ok
	}
	pan, val, stack := ukit.Call(f)
	if pan {
		c.fail(fmt.Sprintf("panic in %s: %s", lib.PanicSite(stack), lib.PanicClass(fmt.Sprint(val))), fmt.Sprintf("%s panicked: %v", step, val), i, raw)
	}
	return !pan
}

// smallObjects: no object of the spec has more than four properties (the order menu is complete up to four keys).
func smallObjects(spec *ukit.Spec) bool {
	ok := true
	spec.Walk(func(n *ukit.Spec) {
		if n.Kind == ukit.KObject && len(n.Props) > 4 {
			ok = false
		}
	})
	return ok
}

func kind(s *ukit.Spec) string {
	if s == nil {
		return "typed"
	}
	return string(s.Kind)
}

// pipeline runs the six-step round trip for one accepted raw value.
func (c *ctx) pipeline(sch schema.Type, i int, raw any) {
	k := kind(c.spec)
	c.guard("round trip", i, raw, func() {
		u, err := sch.Unserialize(ukit.DeepCopy(raw))
		if err != nil {
			return // not accepted: nothing to round-trip
		}
		if !mcrt.Verifying() {
			c.res.Evaluations++
			c.res.Nontrivial++
		}
		if err := sch.Validate(u); err != nil {
			c.fail("Validate rejects the result of Unserialize ("+k+")", fmt.Sprintf("Unserialize -> %s; Validate -> %v", ukit.Show(u), err), i, raw)
			return
		}
		w, err := sch.Serialize(u)
		if err != nil {
			c.fail("Serialize rejects the result of Unserialize ("+k+")", fmt.Sprintf("Unserialize -> %s; Serialize -> %v", ukit.Show(u), err), i, raw)
			return
		}
		if !ukit.IsWireValue(w) {
			c.fail("Serialize output is not built from the wire alphabet ("+k+")", fmt.Sprintf("Serialize(%s) = %s", ukit.Show(u), ukit.Show(w)), i, raw)
		}
		u2, err := sch.Unserialize(ukit.DeepCopy(w))
		if err != nil {
			c.fail("Unserialize rejects its own serialized form ("+k+")", fmt.Sprintf("u=%s w=%s; Unserialize(w) -> %v", ukit.Show(u), ukit.Show(w), err), i, raw)
			return
		}
		if !ukit.Equiv(u, u2) {
			c.fail("Unserialize after Serialize is not the identity ("+k+")", fmt.Sprintf("u=%s w=%s u2=%s", ukit.Show(u), ukit.Show(w), ukit.Show(u2)), i, raw)
			return
		}
		w2, err := sch.Serialize(u2)
		if err != nil || !ukit.Equiv(w, w2) {
			c.fail("Serialize after Unserialize is not idempotent on wire forms ("+k+")", fmt.Sprintf("w=%s w2=%s err=%v", ukit.Show(w), ukit.Show(w2), err), i, raw)
			return
		}
		wc, err := viaCBOR(w)
		if err != nil {
			c.fail("serialized form does not survive CBOR ("+k+")", fmt.Sprintf("w=%s: %v", ukit.Show(w), err), i, raw)
			return
		}
		u3, err := sch.Unserialize(wc)
		if err != nil {
			c.fail("Unserialize rejects its own serialized form after CBOR transport ("+k+")", fmt.Sprintf("w=%s after CBOR=%s; Unserialize -> %v", ukit.Show(w), ukit.Show(wc), err), i, raw)
			return
		}
		if err := sch.Validate(u3); err != nil {
			c.fail("Validate rejects the value unserialized after CBOR transport ("+k+")", fmt.Sprintf("after CBOR=%s u3=%s; Validate -> %v", ukit.Show(wc), ukit.Show(u3), err), i, raw)
			return
		}
		w3, err := sch.Serialize(u3)
		if err != nil {
			c.fail("Serialize rejects the value unserialized after CBOR transport ("+k+")", fmt.Sprintf("u3=%s; Serialize -> %v", ukit.Show(u3), err), i, raw)
			return
		}
		u4, err := sch.Unserialize(ukit.DeepCopy(w3))
		if err != nil || !ukit.Equiv(u, u4) || !ukit.Equiv(w, w3) {
			c.fail("round trip over CBOR changes the value ("+k+")", fmt.Sprintf("u=%s w=%s; after CBOR: u3=%s w3=%s u4=%s err=%v", ukit.Show(u), ukit.Show(w), ukit.Show(u3), ukit.Show(w3), ukit.Show(u4), err), i, raw)
		}
	})
}

// typed entry points --------------------------------------------------------------------------------

type typedCase struct {
	Name string
	Spec *ukit.Spec // for value generation
	Run  func(c *ctx, i int, raw any)
}

func typedRun[T any](t schema.TypedType[T]) func(c *ctx, i int, raw any) {
	return func(c *ctx, i int, raw any) {
		c.guard("typed entry points", i, raw, func() {
			u, err := t.Unserialize(ukit.DeepCopy(raw))
			var tu T
			var terr error
			if !c.guard("UnserializeType", i, raw, func() { tu, terr = t.UnserializeType(ukit.DeepCopy(raw)) }) {
				return
			}
			c.res.Evaluations++
			if (err == nil) != (terr == nil) {
				c.fail("UnserializeType and Unserialize disagree on accept/reject", fmt.Sprintf("Unserialize -> %v; UnserializeType -> %v", err, terr), i, raw)
				return
			}
			if err != nil {
				return
			}
			c.res.Nontrivial++
			if !ukit.Equiv(u, any(tu)) {
				c.fail("UnserializeType returns another value than Unserialize", fmt.Sprintf("Unserialize -> %s; UnserializeType -> %s", ukit.Show(u), ukit.Show(any(tu))), i, raw)
				return
			}
			if (t.Validate(u) == nil) != (t.ValidateType(tu) == nil) {
				c.fail("ValidateType and Validate disagree", fmt.Sprintf("value %s: Validate -> %v; ValidateType -> %v", ukit.Show(u), t.Validate(u), t.ValidateType(tu)), i, raw)
			}
			w, e1 := t.Serialize(u)
			tw, e2 := t.SerializeType(tu)
			if (e1 == nil) != (e2 == nil) || (e1 == nil && !ukit.Equiv(w, tw)) {
				c.fail("SerializeType and Serialize disagree", fmt.Sprintf("value %s: Serialize -> %s, %v; SerializeType -> %s, %v", ukit.Show(u), ukit.Show(w), e1, ukit.Show(tw), e2), i, raw)
			}
		})
	}
}

// The typed string enum does not implement TypedType for a single T (UnserializeType returns string while
// ValidateType/SerializeType take T), so it gets its own comparison.
func typedEnumRun(t *schema.TypedStringEnumSchema[ukit.MyStr]) func(c *ctx, i int, raw any) {
	return func(c *ctx, i int, raw any) {
		c.guard("typed entry points", i, raw, func() {
			u, err := t.Unserialize(ukit.DeepCopy(raw))
			var tu string
			var terr error
			if !c.guard("UnserializeType", i, raw, func() { tu, terr = t.UnserializeType(ukit.DeepCopy(raw)) }) {
				return
			}
			c.res.Evaluations++
			if (err == nil) != (terr == nil) {
				c.fail("UnserializeType and Unserialize disagree on accept/reject", fmt.Sprintf("Unserialize -> %v; UnserializeType -> %v", err, terr), i, raw)
				return
			}
			if err != nil {
				return
			}
			c.res.Nontrivial++
			if string(u.(ukit.MyStr)) != tu {
				c.fail("UnserializeType returns another value than Unserialize", fmt.Sprintf("Unserialize -> %s; UnserializeType -> %q", ukit.Show(u), tu), i, raw)
			}
			tv := u.(ukit.MyStr)
			if (t.Validate(u) == nil) != (t.ValidateType(tv) == nil) {
				c.fail("ValidateType and Validate disagree", ukit.Show(u), i, raw)
			}
			w, e1 := t.Serialize(u)
			tw, e2 := t.SerializeType(tv)
			if (e1 == nil) != (e2 == nil) || (e1 == nil && (!ukit.Equiv(w, tw) || !ukit.IsWireValue(tw))) {
				c.fail("SerializeType and Serialize disagree", fmt.Sprintf("value %s: Serialize -> %s, %v; SerializeType -> %s, %v", ukit.Show(u), ukit.Show(w), e1, ukit.Show(tw), e2), i, raw)
			}
		})
	}
}

func typedMenu() []typedCase {
	var out []typedCase
	add := func(name string, spec *ukit.Spec, run func(c *ctx, i int, raw any)) {
		out = append(out, typedCase{name, spec, run})
	}
	i05 := &ukit.Spec{Kind: ukit.KInt, Min: ukit.I64(0), Max: ukit.I64(5)}
	add("IntSchema[0..5]", i05, typedRun[int64](schema.NewIntSchema(ukit.I64(0), ukit.I64(5), nil)))
	add("IntSchema/sec", &ukit.Spec{Kind: ukit.KInt, Units: "sec"}, typedRun[int64](schema.NewIntSchema(nil, nil, ukit.UnitsOf("sec"))))
	add("FloatSchema[-1.5..5.5]", &ukit.Spec{Kind: ukit.KFloat, FMin: ukit.F64(-1.5), FMax: ukit.F64(5.5)}, typedRun[float64](schema.NewFloatSchema(ukit.F64(-1.5), ukit.F64(5.5), nil)))
	add("StringSchema[1..3]", &ukit.Spec{Kind: ukit.KString, Min: ukit.I64(1), Max: ukit.I64(3)}, typedRun[string](schema.NewStringSchema(ukit.I64(1), ukit.I64(3), nil)))
	add("BoolSchema", &ukit.Spec{Kind: ukit.KBool}, typedRun[bool](schema.NewBoolSchema()))
	add("PatternSchema", &ukit.Spec{Kind: ukit.KPattern}, typedRun(schema.Pattern(schema.NewPatternSchema())))
	add("IntEnumSchema{1,2}", &ukit.Spec{Kind: ukit.KIntEnum, EnumI: []int64{1, 2}}, typedRun[int64](schema.NewIntEnumSchema(map[int64]*schema.DisplayValue{1: nil, 2: nil}, nil)))
	add("StringEnumSchema{a,b}", &ukit.Spec{Kind: ukit.KStrEnum, EnumS: []string{"a", "b"}}, typedRun[string](schema.NewStringEnumSchema(map[string]*schema.DisplayValue{"a": nil, "b": nil})))
	add("TypedStringEnumSchema[MyStr]{a,b}", &ukit.Spec{Kind: ukit.KTypedEnum, EnumS: []string{"a", "b"}},
		typedEnumRun(schema.NewTypedStringEnumSchema[ukit.MyStr](map[ukit.MyStr]*schema.DisplayValue{"a": nil, "b": nil})))
	add("TypedListSchema[int64]", &ukit.Spec{Kind: ukit.KList, Item: i05, Max: ukit.I64(2)},
		typedRun[[]int64](schema.NewTypedListSchema[int64](schema.NewIntSchema(ukit.I64(0), ukit.I64(5), nil), nil, ukit.I64(2))))
	add("TypedMapSchema[string,int64]", &ukit.Spec{Kind: ukit.KMap, Key: &ukit.Spec{Kind: ukit.KString, Min: ukit.I64(1)}, Val: i05},
		typedRun[map[string]int64](schema.NewTypedMapSchema[string, int64](schema.NewStringSchema(ukit.I64(1), nil, nil), schema.NewIntSchema(ukit.I64(0), ukit.I64(5), nil), nil, nil)))
	sa := ukit.ShapeSpecs()[0]
	saProps := func() map[string]*schema.PropertySchema {
		return map[string]*schema.PropertySchema{
			"s": schema.NewPropertySchema(schema.NewStringSchema(nil, nil, nil), nil, true, nil, nil, nil, nil, nil),
			"i": schema.NewPropertySchema(schema.NewIntSchema(ukit.I64(0), ukit.I64(5), nil), nil, false, nil, nil, nil, ukit.Str("2"), nil),
		}
	}
	add("TypedObject[SA]", sa, typedRun[ukit.SA](schema.NewTypedObject[ukit.SA]("SA1", saProps())))
	add("TypedObject[SA].Any()", sa, typedRun[any](schema.NewTypedObject[ukit.SA]("SA1", saProps()).Any()))
	add("TypedScopeSchema[SA]", sa, typedRun[ukit.SA](schema.NewTypedScopeSchema[ukit.SA](schema.NewStructMappedObjectSchema[ukit.SA]("SA1", saProps()))))
	return out
}

func run(tier string, raw json.RawMessage, from int, deadline time.Time) ux.Result {
	var b batch
	_ = json.Unmarshal(raw, &b)
	var res ux.Result
	if b.Typed {
		tc := typedMenu()[b.Spec]
		c := &ctx{res: &res, name: tc.Name}
		vals := append(ukit.RawValues(tc.Spec), ukit.ValidValues(tc.Spec, 3)...)
		for i, v := range vals {
			if ux.Stop() {
				res.Capped = true
				break
			}
			ux.Progress(i)
			tc.Run(c, i, v)
		}
		return res
	}
	spec := universe(tier)[b.Spec]
	c := &ctx{res: &res, spec: spec, name: spec.String()}
	sch := ukit.Build(spec)
	vals := append(ukit.RawValues(spec), ukit.ValidValues(spec, 3)...)
	for i, v := range vals {
		if ux.Stop() {
			res.Capped = true
			break
		}
		ux.Progress(i)
		c.pipeline(sch, i, v)
		// the typed entry points of the very same schema object (whatever static type it has): same verdicts and values
		c.guard("typed entry points", i, v, func() {
			if d := ukit.TypedDisagreement(sch, v); d != "" {
				c.fail(ukit.DisagreementClass(d)+" ("+kind(spec)+")", d, i, v)
			}
		})
	}
	if b.Spec%83 == 0 {
		res.Samples = append(res.Samples, map[string]any{"schema": spec.String(), "raw_values_tried": len(vals), "accepted_and_round_tripped": res.Evaluations})
	}
	return res
}

func main() {
	ux.Main(ux.Harness{
		Property:   "C01",
		Level:      "exploration",
		Exhaustive: true,
		// the largest specs of the thorough universe take minutes under the order exploration; the batch slice is 2/5 of this
		TaskTimeout: 900 * time.Second,
		Batches: func(tier string) []any {
			var out []any
			for i := range universe(tier) {
				out = append(out, batch{Spec: i})
			}
			for i := range typedMenu() {
				out = append(out, batch{Spec: i, Typed: true})
			}
			return out
		},
		Run: run,
		Replay: func(raw json.RawMessage) []ux.Finding {
			var r replay
			if json.Unmarshal(raw, &r) != nil {
				return nil
			}
			var res ux.Result
			if r.Typed != "" {
				for _, tc := range typedMenu() {
					if tc.Name == r.Typed {
						vals := append(ukit.RawValues(tc.Spec), ukit.ValidValues(tc.Spec, 3)...)
						if r.Idx < len(vals) {
							tc.Run(&ctx{res: &res, name: tc.Name}, r.Idx, vals[r.Idx])
						}
					}
				}
				return res.Findings
			}
			sch := ukit.Build(r.Spec)
			vals := append(ukit.RawValues(r.Spec), ukit.ValidValues(r.Spec, 3)...)
			if r.Idx < len(vals) {
				fmt.Printf("replaying round trip of %s on %s\n", ukit.Show(vals[r.Idx]), r.Spec)
				(&ctx{res: &res, spec: r.Spec, name: r.Spec.String()}).pipeline(sch, r.Idx, vals[r.Idx])
			}
			return res.Findings
		},
		Rule: "every spec of U_2 (leaves, lists, maps, map-based and struct-mapped objects, one-ofs with inlined and non-inlined string/int discriminators, scopes with references incl. recursive ones, containers of those) x every raw value of V(spec) that Unserialize accepts, run through the fixed pipeline u=Unserialize(v); Validate(u); w=Serialize(u) (wire alphabet only); u2=Unserialize(w); w2=Serialize(u2); w'=CBOR round trip of w with the ATP decoder options; u3=Unserialize(w'); Validate(u3); w3=Serialize(u3); u4=Unserialize(w3) with u==u2==u4 and w==w2==w3; plus 14 typed instantiations (scalars, enums, typed enum, typed list/map/object/scope) comparing UnserializeType/ValidateType/SerializeType with the untyped calls; non-trivial = accepted raw values (each yields a full pipeline)",
		Assumptions: []string{
			"equality is structural, NaN equals NaN, regular expressions compare by source, nil and empty slices are the same list",
			"CBOR transport = cbor.Marshal + decode into `any` with the client's DecMode and with the server's default options (both must agree)",
		},
	})
}
