// C08: a broken or garbled server stream fails client calls; it never hangs them.
//
// Closed system: the real ATP client <-> a scripted causally-correct peer, with a fault filter on the
// server->client stream (EOF / read error / 0xFF garbage from byte offset k on, for every k of the
// transcript) or on the client's writes (the j-th write fails, once or from then on). The fault position
// and kind are free environment choices enumerated exhaustively together with the thread schedules.
package main

import (
	"bytes"
	"io"
	"reflect"

	"fmt"
	"github.com/fxamacker/cbor/v2"
	"sort"
	"strings"
	"time"

	"go.flow.arcalot.io/pluginsdk/atp"
	"go.flow.arcalot.io/pluginsdk/mcrt"
	"go.flow.arcalot.io/pluginsdk/schema"
	"verif/engine/mc"
	"verif/harness/atpkit"
)

type runSpec struct {
	RunID       string
	FromStep    int
	NonFatal    int
	StepFatal   bool
	ServerFatal bool
	ToStep      int
}

type scenario struct {
	Name       string
	Stream     bool
	V1         bool
	Hello      string    // "", "badversion", "badschema"
	Runs       []runSpec // issued concurrently
	Later      bool      // one more Execute after the first group returned ("pending or later Execute")
	WriteSide  bool      // enumerate write-side failures instead of read-side faults
	Flip       bool      // enumerate single flipped bytes instead of EOF / error / garbage
	Crash      bool      // the peer dies: from the moment the read fault is reached every client write fails too
	CloseEarly bool      // Close is called while the runs are still pending (as soon as the peer has received their work-starts)
	StreamLen  int       // healthy server->client transcript length (measured)
	Writes     int       // healthy number of client writes (measured)
}

func scenarios(tier string) []scenario {
	r := func(id string) runSpec { return runSpec{RunID: id} }
	s := []scenario{
		{Name: "v3-1run", Runs: []runSpec{r("r1")}},
		{Name: "v3-1run-later", Runs: []runSpec{r("r1")}, Later: true},
		{Name: "v3-2runs", Runs: []runSpec{r("r1"), r("r2")}},
		{Name: "v3-2runs-signal-error", Runs: []runSpec{{RunID: "r1", FromStep: 1, NonFatal: 1}, {RunID: "r2", StepFatal: true}}},
		{Name: "v3-serverfatal-later", Runs: []runSpec{{RunID: "r1", ServerFatal: true}}, Later: true},
		{Name: "v3-2runs-one-serverfatal-later", Runs: []runSpec{{RunID: "r1", ServerFatal: true}, r("r2")}, Later: true},
		{Name: "v3-1run-stream", Stream: true, Runs: []runSpec{r("r1")}, Later: true},
		{Name: "v1-1run", V1: true, Runs: []runSpec{r("v1")}},
		{Name: "hello-badversion", Hello: "badversion"},
		{Name: "hello-badschema", Hello: "badschema"},
		{Name: "v3-1run-signals-crash", Runs: []runSpec{{RunID: "r1", ToStep: 1}}, Crash: true, Later: true},
		{Name: "v3-2runs-crash", Runs: []runSpec{{RunID: "r1", ToStep: 1, FromStep: 1}, r("r2")}, Crash: true},
		{Name: "v3-1run-close-while-pending", Runs: []runSpec{r("r1")}, CloseEarly: true},
		{Name: "v3-2runs-close-while-pending", Runs: []runSpec{{RunID: "r1", ToStep: 1}, r("r2")}, CloseEarly: true},
		{Name: "v3-1run-writefail", Runs: []runSpec{{RunID: "r1", ToStep: 1}}, WriteSide: true, Later: true},
		{Name: "v3-2runs-writefail", Runs: []runSpec{r("r1"), r("r2")}, WriteSide: true},
		{Name: "v1-1run-writefail", V1: true, Runs: []runSpec{r("v1")}, WriteSide: true},
	}
	// single-flipped-byte twins of the read-side scenarios
	flipOf := map[string]bool{"v3-1run-later": true, "v3-2runs": true, "v3-2runs-signal-error": true, "v1-1run": true, "v3-serverfatal-later": true}
	for _, b := range s {
		if !b.WriteSide && b.Hello == "" && (tier == "thorough" || flipOf[b.Name]) {
			f := b
			f.Name, f.Flip = b.Name+"-flip", true
			s = append(s, f)
		}
	}
	if tier == "thorough" {
		s = append(s,
			scenario{Name: "v3-3runs", Runs: []runSpec{r("r1"), r("r2"), r("r3")}},
			scenario{Name: "v3-2runs-stream", Stream: true, Runs: []runSpec{r("r1"), r("r2")}, Later: true},
		)
	}
	return s
}

var scs map[string]*scenario

type obs struct {
	results   map[string]*atp.ExecutionResult
	returned  map[string]int
	schemaErr error
	schemaOK  bool
	closeErr  error
	closed    bool
	peer      *atpkit.Peer
	s2c, c2s  *mcrt.Link
	faultAt   int
	faultKind mcrt.FaultKind
	faulty    bool
	failWrite int
	persist   bool
	mask      byte
}

// single-byte corruptions: low bit (neighbouring letter / digit / length), case bit, high bit (invalid UTF-8 / other major type)
var flipMasks = []byte{0x01, 0x80, 0x20}

func masksFor(tier string) []byte {
	if tier == "thorough" {
		return flipMasks
	}
	return flipMasks[:2]
}

var tierName = "quick"

var strictDec = func() cbor.DecMode {
	m, err := cbor.DecOptions{ExtraReturnErrors: cbor.ExtraDecErrorUnknownField}.DecMode()
	if err != nil {
		panic(err)
	}
	return m
}()

// refDecode reads the delivered server->client bytes with an independent strict decoder (the options ATP
// documents for the client): which runs' work-done messages are decodable, and whether the stream is
// definitely malformed (as opposed to merely incomplete).
func refDecode(delivered []byte, v1 bool) (done map[string]atp.WorkDoneMessage, helloOK bool, malformed bool) {
	done = map[string]atp.WorkDoneMessage{}
	dec := strictDec.NewDecoder(bytes.NewReader(delivered))
	var h atp.HelloMessage
	if err := dec.Decode(&h); err != nil {
		return done, false, !isIncomplete(err)
	}
	helloOK = h.Version == 1 || h.Version == 3
	if h.Version == 1 {
		var d atp.WorkDoneMessage
		if err := dec.Decode(&d); err != nil {
			return done, helloOK, !isIncomplete(err)
		}
		done["v1"] = d
		return done, helloOK, false
	}
	for {
		var m atp.DecodedRuntimeMessage
		if err := dec.Decode(&m); err != nil {
			return done, helloOK, !isIncomplete(err)
		}
		if m.MessageID == atp.MessageTypeWorkDone {
			var d atp.WorkDoneMessage
			if err := strictDec.Unmarshal(m.RawMessageData, &d); err != nil {
				// the envelope decoded, the payload did not: this run cannot be answered from it, the stream goes on
				continue
			}
			if _, dup := done[m.RunID]; !dup {
				done[m.RunID] = d
			}
		}
	}
}

// decodeDone strictly decodes one message as the work-done message of the given run.
func decodeDone(b []byte, run string, v1 bool) (atp.WorkDoneMessage, bool) {
	var d atp.WorkDoneMessage
	if v1 {
		if err := strictDec.Unmarshal(b, &d); err != nil {
			return d, false
		}
		return d, true
	}
	var m atp.DecodedRuntimeMessage
	if err := strictDec.Unmarshal(b, &m); err != nil || m.MessageID != atp.MessageTypeWorkDone || m.RunID != run {
		return d, false
	}
	if err := strictDec.Unmarshal(m.RawMessageData, &d); err != nil {
		return d, false
	}
	return d, true
}

func isIncomplete(err error) bool {
	return err == io.EOF || err == io.ErrUnexpectedEOF
}

var cur *obs

var helloOK = atpkit.HelloBytes(3, atpkit.EmptySchema())
var helloV1 = atpkit.HelloBytes(1, atpkit.EmptySchema())
var helloBadVersion = atpkit.HelloBytes(2, atpkit.EmptySchema())
var helloBadSchema = atpkit.HelloBytes(3, map[string]any{"steps": map[string]any{"x": "not a step"}})

func body(sc *scenario, measure bool) func() {
	return func() {
		o := &obs{results: map[string]*atp.ExecutionResult{}, returned: map[string]int{}, failWrite: -1}
		cur = o
		var c2s, s2c *mcrt.Link
		if sc.Stream {
			c2s, s2c = mcrt.NewStream("c2s"), mcrt.NewStream("s2c")
		} else {
			c2s, s2c = mcrt.NewPipe("c2s"), mcrt.NewPipe("s2c")
		}
		o.c2s, o.s2c = c2s, s2c
		if !measure {
			if sc.WriteSide {
				// j in [0, Writes) x {once, persistent}; the last alternative is "no fault"
				c := mcrt.Choose(2*sc.Writes+1, "write fault")
				if c < 2*sc.Writes {
					o.faulty = true
					o.failWrite, o.persist = c/2, c%2 == 1
					c2s.FailWriteAt, c2s.FailPersist = o.failWrite, o.persist
				}
			} else {
				// k in [0, StreamLen] x {eof, err, garbage}; k == StreamLen with eof/err = fault right after the last byte;
				// then k in [0, StreamLen) x single-byte flips with each mask
				// the last alternative is "no fault": the scenario's healthy run is part of what is judged
				o.faulty = true
				if !sc.Flip {
					c := mcrt.Choose(3*(sc.StreamLen+1)+1, "read fault")
					if c == 3*(sc.StreamLen+1) {
						o.faulty = false
					} else {
						o.faultAt, o.faultKind = c/3, mcrt.FaultKind(c%3)
						s2c.ReadFault = &mcrt.Fault{At: o.faultAt, Kind: o.faultKind}
					}
				} else {
					ms := masksFor(tierName)
					c := mcrt.Choose(len(ms)*sc.StreamLen, "flipped byte")
					o.faultAt, o.faultKind, o.mask = c/len(ms), mcrt.FaultFlip, ms[c%len(ms)]
					s2c.ReadFault = &mcrt.Fault{At: o.faultAt, Kind: mcrt.FaultFlip, Mask: o.mask}
				}
			}
		}
		hello := helloOK
		switch {
		case sc.V1:
			hello = helloV1
		case sc.Hello == "badversion":
			hello = helloBadVersion
		case sc.Hello == "badschema":
			hello = helloBadSchema
		}
		if sc.Crash && !measure {
			c2s.FailIf = func() bool { return s2c.ReadFault != nil && s2c.FaultHit() }
		}
		peer := &atpkit.Peer{In: c2s.Reader(), Out: s2c.Writer(), OutLink: s2c, Hello: hello, V1: sc.V1, Plans: map[string]atpkit.RunPlan{}}
		o.peer = peer
		for _, x := range sc.Runs {
			peer.Plans[x.RunID] = atpkit.RunPlan{SignalsFromStep: x.FromStep, NonFatalErrors: x.NonFatal, StepFatal: x.StepFatal, ServerFatal: x.ServerFatal}
		}
		mcrt.GoNamed("peer", peer.Run)
		cli := atp.NewClient(mcrt.Duplex{Reader: s2c.Reader(), Writer: c2s.Writer()})
		_, err := cli.ReadSchema()
		o.schemaErr, o.schemaOK = err, err == nil
		exec := func(x runSpec) {
			var to, from chan schema.Input
			if x.ToStep > 0 {
				to = make(chan schema.Input, x.ToStep+1)
				for i := 0; i < x.ToStep; i++ {
					to <- schema.Input{RunID: x.RunID, ID: "sig", InputData: map[string]any{"i": int64(i)}}
				}
			}
			if x.FromStep > 0 {
				from = make(chan schema.Input, x.FromStep+4)
			}
			res := cli.Execute(schema.Input{RunID: x.RunID, ID: "step", InputData: map[string]any{"name": x.RunID}}, to, from)
			o.results[x.RunID] = &res
			o.returned[x.RunID]++
		}
		if err == nil && sc.CloseEarly {
			// Close while the runs are pending: every Execute runs in a thread of its own, Close is called as soon as the
			// peer has received all work-starts (or the executes have returned because the stream broke earlier)
			var wg, started mcrt.WaitGroup
			started.Add(1)
			pendingStarts := len(sc.Runs)
			released := false
			release := func() {
				if !released {
					released = true
					started.Done()
				}
			}
			peer.OnWorkStart = func(string) {
				pendingStarts--
				if pendingStarts == 0 {
					release()
				}
			}
			for _, x := range sc.Runs {
				x := x
				wg.Add(1)
				mcrt.GoNamed("exec-"+x.RunID, func() { defer wg.Done(); exec(x) })
			}
			mcrt.GoNamed("all-returned", func() { wg.Wait(); release() })
			started.Wait()
			o.closeErr = cli.Close()
			o.closed = true
			wg.Wait()
			_ = c2s.Writer().Close()
			return
		}
		if err == nil {
			var wg mcrt.WaitGroup
			for _, x := range sc.Runs {
				x := x
				if len(sc.Runs) == 1 {
					exec(x)
				} else {
					wg.Add(1)
					mcrt.GoNamed("exec-"+x.RunID, func() { defer wg.Done(); exec(x) })
				}
			}
			wg.Wait()
			if sc.Later {
				exec(runSpec{RunID: "later"})
			}
		}
		o.closeErr = cli.Close()
		o.closed = true
		// The peer's process is gone after the client is done (or never got that far): release everything
		// that only waits for the other side, as the operating system would.
		_ = c2s.Writer().Close()
	}
}

func payloadOK(runID string, res *atp.ExecutionResult) bool {
	m, ok := res.OutputData.(map[any]any)
	if !ok {
		return false
	}
	msg, _ := m["message"].(string)
	return res.OutputID == "out-"+runID && msg == "result of "+runID
}

func judge(sc *scenario, r *mcrt.Result) (string, []mc.Finding) {
	o := cur
	var fs []mc.Finding
	add := func(sig, detail string) {
		if o != nil && o.faulty {
			if sc.WriteSide {
				detail = fmt.Sprintf("client write #%d fails (persistent=%v)\n%s", o.failWrite, o.persist, detail)
			} else if o.faultKind == mcrt.FaultFlip {
				detail = fmt.Sprintf("byte %d of the server->client stream XOR 0x%02x (healthy length %d)\n%s", o.faultAt, o.mask, sc.StreamLen, detail)
			} else {
				detail = fmt.Sprintf("fault %s at byte %d of the server->client stream (healthy length %d)\n%s", o.faultKind, o.faultAt, sc.StreamLen, detail)
			}
		}
		fs = append(fs, mc.Finding{Signature: sig, Detail: detail})
	}
	switch r.Status {
	case mcrt.StPanic:
		sig := "panic: " + panicClass(r.PanicValue)
		if strings.Contains(r.PanicValue, "potential deadlock") {
			// Close gave up waiting for the client's own goroutines: which of them had not finished is the cause
			seen := map[string]bool{}
			var who []string
			for _, b := range r.Blocked {
				if strings.HasPrefix(b.Name, "peer") || strings.Contains(b.Where, "waitWithTimeout") {
					continue
				}
				w := fmt.Sprintf("%s@%s", role(b.Name), b.Op)
				if !seen[w] {
					seen[w] = true
					who = append(who, w)
				}
			}
			sort.Strings(who)
			sig += " [not finished: " + strings.Join(who, ", ") + "]"
		}
		add(sig, fmt.Sprintf("thread T%d panicked: %s\n%s\nother threads: %v", r.PanicTID, r.PanicValue, r.PanicStack, r.Blocked))
	case mcrt.StHorizon:
		add("step horizon exceeded (livelock?)", "")
	case mcrt.StBlocked:
		var pat []string
		for _, b := range r.Blocked {
			if strings.HasPrefix(b.Name, "peer") {
				continue
			}
			pat = append(pat, fmt.Sprintf("%s@%s[%s]", role(b.Name), b.Op, lastFn(b.Where)))
		}
		sort.Strings(pat)
		flipUndetectable := false
		if o != nil && o.faulty && !sc.WriteSide && o.faultKind == mcrt.FaultFlip {
			// a single flipped byte can leave a well-formed stream (another run id, a longer length prefix that makes
			// the decoder wait for bytes that never come): no decoder can tell, so no claim is made about waiting
			_, _, malformed := refDecode(o.s2c.Delivered, sc.V1)
			flipUndetectable = !malformed
		}
		if len(pat) > 0 && !flipUndetectable {
			kind := "caller never returns"
			if r.MainDone {
				kind = "client threads left blocked after Close"
			}
			add(kind+": "+strings.Join(pat, ", "), fmt.Sprintf("%v", r.Blocked))
		}
	}
	if o == nil {
		return r.Status.String(), fs
	}
	hit := false
	if o.faulty && !sc.WriteSide {
		hit = o.s2c.ReadFault != nil && faultReached(o)
	}
	if r.Status == mcrt.StComplete || r.MainDone {
		if sc.Hello != "" && o.schemaOK && !(o.faulty && o.faultKind == mcrt.FaultFlip) {
			add("ReadSchema accepted an unusable hello", sc.Hello)
		}
		// which runs' work-done messages reached the client intact?
		intact := map[string]bool{}
		var refDone map[string]atp.WorkDoneMessage
		if o.faulty && !sc.WriteSide && o.faultKind == mcrt.FaultFlip {
			// a run's work-done message is intact if the bytes the peer wrote for it, as delivered (i.e. with the flipped
			// byte if it lies inside), decode with an independent strict decoder to a work-done message for that run
			refDone = map[string]atp.WorkDoneMessage{}
			start := 0
			for _, m := range o.peer.Sent {
				end := m.End
				if end == 0 {
					continue
				}
				if m.Kind == "done" && end <= len(o.s2c.Delivered) {
					if d, ok := decodeDone(o.s2c.Delivered[start:end], m.RunID, sc.V1); ok {
						refDone[m.RunID] = d
						intact[m.RunID] = true
					}
				}
				start = end
			}
		} else {
			for _, m := range o.peer.Sent {
				if m.Kind == "done" && m.End > 0 && (sc.WriteSide || !o.faulty || m.End <= o.faultAt) {
					intact[m.RunID] = true
				}
			}
		}
		ids := make([]string, 0, len(o.results))
		for id := range o.results {
			ids = append(ids, id)
		}
		sort.Strings(ids)
		for _, id := range ids {
			res := o.results[id]
			if o.returned[id] != 1 {
				add("Execute did not return exactly once", id)
			}
			if res.Error == nil {
				if !intact[id] {
					add("Execute reported success although its work-done message did not arrive intact", fmt.Sprintf("run %s -> output id %q data %v", id, res.OutputID, res.OutputData))
				} else if refDone != nil {
					// flipped byte: the payload must be what an independent strict decoder reads from the delivered bytes
					if d := refDone[id]; d.OutputID != res.OutputID || !reflect.DeepEqual(d.OutputData, res.OutputData) {
						add("Execute reported success with a payload that is not in its run's delivered work-done message", fmt.Sprintf("run %s -> (%q, %v); delivered message decodes to (%q, %v)", id, res.OutputID, res.OutputData, d.OutputID, d.OutputData))
					}
				} else if !payloadOK(id, res) {
					add("Execute reported success with a payload that is not its run's", fmt.Sprintf("run %s -> output id %q data %v", id, res.OutputID, res.OutputData))
				}
			}
		}
		if !o.faulty || (!sc.WriteSide && !hit && o.faultKind != mcrt.FaultFlip) {
			// fault never reached: behave as on a healthy connection
			for _, x := range sc.Runs {
				if res := o.results[x.RunID]; sc.Hello == "" && res != nil && res.Error != nil && !x.StepFatal && !anyServerFatal(sc) {
					add("Execute failed although the fault position was never reached", fmt.Sprintf("%s: %v", x.RunID, res.Error))
				}
			}
		}
	}
	if r.TimerFires > 0 && r.Status != mcrt.StPanic {
		// Close's 5 s grace period is a legitimate code path when the client-done write fails; it must
		// then end in an error, not a panic (reported above) - note it in the outcome only
	}
	var ks []string
	for id, res := range o.results {
		if res.Error != nil {
			ks = append(ks, id+"=err")
		} else {
			ks = append(ks, id+"=ok")
		}
	}
	sort.Strings(ks)
	outcome := fmt.Sprintf("%s schema=%v %s close=%v timers=%d", r.Status, o.schemaOK, strings.Join(ks, ","), o.closeErr == nil, r.TimerFires)
	return outcome, fs
}

func anyServerFatal(sc *scenario) bool {
	for _, x := range sc.Runs {
		if x.ServerFatal {
			return true
		}
	}
	return false
}

func faultReached(o *obs) bool {
	f := o.s2c.ReadFault
	if f.Kind == mcrt.FaultFlip {
		return o.s2c.FaultHit()
	}
	if f.Kind == mcrt.FaultGarbage {
		return len(o.s2c.Delivered) > f.At
	}
	return len(o.s2c.Delivered) >= f.At && o.s2c.FaultHit()
}

func panicClass(v string) string {
	if strings.Contains(v, "potential deadlock") {
		return "Close: potential deadlock after failed client done write"
	}
	if i := strings.IndexByte(v, '\n'); i >= 0 {
		v = v[:i]
	}
	if len(v) > 120 {
		v = v[:120]
	}
	return v
}

func role(name string) string {
	if i := strings.LastIndex(name, ":"); i > 0 {
		name = name[:i]
	}
	return name
}

func lastFn(where string) string {
	if i := strings.Index(where, " < "); i > 0 {
		return where[:i]
	}
	return where
}

func measure(sc *scenario) {
	_ = mcrt.Run(nil, body(sc, true), mcrt.RunOpts{})
	// A healthy run that does not complete is not the harness's problem: the fault positions are then taken from what
	// was delivered, and the fault-free alternative of the scenario reports the hang or panic as a violation.
	sc.StreamLen = len(cur.s2c.Delivered)
	sc.Writes = len(cur.c2s.WriteBounds())
}

func main() {
	mc.Main(mc.Harness{
		Property: "C08",
		Level:    "fault_enumeration",
		Scenarios: func(tier string) []mc.Scenario {
			tierName = tier
			scs = map[string]*scenario{}
			var out []mc.Scenario
			for _, s := range scenarios(tier) {
				s := s
				measure(&s)
				scs[s.Name] = &s
				levels := []mc.Bounds{{Preempt: 0, Delay: 0}, {Preempt: 1, Delay: 1}}
				if s.Flip && tier != "thorough" {
					levels = levels[:2]
				} else if tier == "thorough" || (len(s.Runs) <= 1 && !s.Later) {
					levels = append(levels, mc.Bounds{Preempt: 2, Delay: 2})
				}
				if tier == "thorough" && len(s.Runs) <= 2 {
					levels = append(levels, mc.Bounds{Preempt: 3, Delay: 3})
				}
				out = append(out, mc.Scenario{Name: s.Name, Levels: levels, Races: true})
			}
			return out
		},
		Body:  func(sc mc.Scenario) func() { return body(scs[sc.Name], false) },
		Judge: func(sc mc.Scenario, r *mcrt.Result) (string, []mc.Finding) { return judge(scs[sc.Name], r) },
		Budget: func(tier string) time.Duration {
			if tier == "thorough" {
				return 25 * time.Minute
			}
			return 300 * time.Second
		},
		Rule: "for every scenario: every byte offset k of the healthy server->client transcript (hello included) x {EOF, read error, 0xFF garbage from k on, byte k XOR 0x01 / 0x80 (thorough: also 0x20) for five of the scenarios (thorough: all)}, or every client write index x {fails once, fails from then on}, chosen as a free environment choice; for each, every thread schedule within the delay bound; distinct = distinct (scenario, outcome) pairs",
		Assumptions: []string{
			"peer is causally correct and keeps running after the fault (the stream is broken, not the plugin)",
			"garbage = every byte from k on replaced by 0xFF, which can never decode as a well-formed ATP message (break code / invalid UTF-8), so no message at or after k is 'intact'",
			"single flipped byte: success may only be reported for a run whose work-done message an independent strict decoder (ATP's documented client options) reads from the delivered bytes, with exactly that payload; waiting forever is only a violation if the delivered stream is definitely malformed (not merely incomplete or altered but well-formed)",
			"after the client's Close the peer process is gone: its output is closed and the client's write end is released",
			"timers are virtual and fire only when no thread is enabled",
		},
	})
}
