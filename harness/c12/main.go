// C12: schema operations are pure - deterministic under map iteration order, argument preserving,
// history free.
//
//	(a) every (schema, operation, argument) is executed under every single (thorough: every pair of)
//	    non-default map iteration order(s) of every map the operation ranges over; verdict and value must
//	    not change
//	(b) a deep snapshot of the argument is compared before and after every call
//	(c) explicit-state breadth-first search over call histories on ONE schema instance: after every
//	    history the instance's self-description and its behaviour on a probe set must equal those of a
//	    freshly built instance
package main

import (
	"encoding/json"
	"fmt"
	"regexp"
	"sort"
	"strings"
	"time"

	"go.flow.arcalot.io/pluginsdk/mcrt"
	"go.flow.arcalot.io/pluginsdk/schema"
	"verif/engine/lib"
	"verif/engine/ux"
	"verif/harness/ukit"
)

func universe(tier string) []*ukit.Spec {
	var out []*ukit.Spec
	// map order only matters where maps are ranged: enums, maps, objects, one-ofs, scopes, any
	for _, s := range ukit.Universe(2, tier == "thorough") {
		switch s.Kind {
		case ukit.KInt, ukit.KFloat, ukit.KString, ukit.KBool, ukit.KPattern:
			if s.Units == "" {
				continue
			}
		}
		out = append(out, s)
	}
	// a struct-mapped root whose absent map-typed field is filled from the defaults of the map-based objects below it,
	// where one object type is used by two sibling properties (and by two cousins): which of them gets its defaults
	// must not depend on the order the property maps are walked in
	ref := func(id string) *ukit.Spec { return &ukit.Spec{Kind: ukit.KRef, RefID: id} }
	ep := func() *ukit.Spec {
		return &ukit.Spec{Kind: ukit.KObject, ID: "Ep", Props: []ukit.Prop{{Name: "port", Type: &ukit.Spec{Kind: ukit.KInt}, Default: ukit.Str("5")}, {Name: "host", Type: &ukit.Spec{Kind: ukit.KString}}}}
	}
	root := func() *ukit.Spec {
		return &ukit.Spec{Kind: ukit.KObject, ID: "Root", Struct: "SLink", Props: []ukit.Prop{{Name: "name", Type: &ukit.Spec{Kind: ukit.KString}, Required: true}, {Name: "link", Type: ref("Link")}}}
	}
	out = append(out,
		&ukit.Spec{Kind: ukit.KScope, Root: "Root", Objects: []*ukit.Spec{root(),
			{Kind: ukit.KObject, ID: "Link", Props: []ukit.Prop{{Name: "src", Type: ref("Ep")}, {Name: "dst", Type: ref("Ep")}}}, ep()}},
		&ukit.Spec{Kind: ukit.KScope, Root: "Root", Objects: []*ukit.Spec{root(),
			{Kind: ukit.KObject, ID: "Link", Props: []ukit.Prop{{Name: "a", Type: ref("MidA")}, {Name: "b", Type: ref("MidB")}}},
			{Kind: ukit.KObject, ID: "MidA", Props: []ukit.Prop{{Name: "e", Type: ref("Ep")}}},
			{Kind: ukit.KObject, ID: "MidB", Props: []ukit.Prop{{Name: "e", Type: ref("Ep")}}}, ep()}})
	return out
}

type batch struct {
	Part string `json:"part"` // "order" or "history"
	Spec int    `json:"spec"`
}

type replay struct {
	Part    string     `json:"part"`
	Spec    *ukit.Spec `json:"spec"`
	Op      string     `json:"op,omitempty"`
	Idx     int        `json:"index,omitempty"`
	Desc    string     `json:"value,omitempty"`
	History []string   `json:"history,omitempty"`
}

var ops = []string{"Unserialize", "Validate", "Serialize", "ValidateCompatibility"}

func apply(sch schema.Type, op string, v any) (any, error) {
	switch op {
	case "Unserialize":
		return sch.Unserialize(v)
	case "Validate":
		return nil, sch.Validate(v)
	case "Serialize":
		return sch.Serialize(v)
	case "ValidateCompatibility":
		return nil, sch.ValidateCompatibility(v)
	}
	panic(op)
}

// outcome renders accept/reject + value (error texts are never compared).
func outcome(v any, err error) string {
	if err != nil {
		return "reject"
	}
	return "accept " + ukit.Snapshot(v)
}

var addrRe = regexp.MustCompile(`0x[0-9a-f]{6,}`)

// "expected one of: a, b, c" lists the declared keys in the order a map happened to be walked in; the walk may go
// through maps.Keys or reflection, which the map-order seam does not control. The list is compared as a set.
var keyListRe = regexp.MustCompile(`expected one of: (?:[^,;)\n]+, )*[^,;)\n]+`)

func sortKeyLists(s string) string {
	return keyListRe.ReplaceAllStringFunc(s, func(m string) string {
		names := strings.Split(strings.TrimPrefix(m, "expected one of: "), ", ")
		sort.Strings(names)
		return "expected one of: " + strings.Join(names, ", ")
	})
}

// outcomeE also renders the error (its text carries the path to the offending value): used where every call runs
// under the one sorted iteration order, so that the text is a function of (schema, argument) too.
func outcomeE(v any, err error) string {
	if err != nil {
		return "reject: " + sortKeyLists(addrRe.ReplaceAllString(err.Error(), "0xADDR"))
	}
	return outcome(v, err)
}

type arg struct {
	v    any
	desc string
}

// arguments: raw values for Unserialize/ValidateCompatibility, native values for Validate/Serialize, schemas
// for schema-mode ValidateCompatibility.
func arguments(spec *ukit.Spec, sch schema.Type, tier string) map[string][]arg {
	out := map[string][]arg{}
	raws := append(ukit.ValidValues(spec, 3), ukit.RawValues(spec)...)
	limit := 60
	if tier == "thorough" {
		limit = 200
	}
	step := 1
	if len(raws) > limit {
		step = len(raws)/limit + 1
	}
	for i := 0; i < len(raws); i += step {
		raw := raws[i]
		out["Unserialize"] = append(out["Unserialize"], arg{raw, ukit.Show(raw)})
		out["ValidateCompatibility"] = append(out["ValidateCompatibility"], arg{raw, ukit.Show(raw)})
		pan, _, _ := ukit.Call(func() {
			if n, err := sch.Unserialize(ukit.DeepCopy(raw)); err == nil {
				out["Validate"] = append(out["Validate"], arg{n, ukit.Show(n)})
				out["Serialize"] = append(out["Serialize"], arg{n, ukit.Show(n)})
			}
		})
		_ = pan
	}
	// native values the schema rejects (one position corrupted): a rejected call must leave its argument alone too
	for _, bn := range badNatives(spec, sch) {
		out["Validate"] = append(out["Validate"], arg{bn, "rejected: " + ukit.Show(bn)})
		out["Serialize"] = append(out["Serialize"], arg{bn, "rejected: " + ukit.Show(bn)})
	}
	// duplicate-denotation probes for maps (distinct raw keys denoting one key)
	if spec.Kind == ukit.KMap {
		if gv := ukit.ValidValues(spec.Val, 2); len(gv) > 0 {
			v2 := gv[len(gv)-1]
			dup := map[any]any{"1": gv[0], int64(1): v2}
			out["Unserialize"] = append(out["Unserialize"], arg{dup, ukit.Show(dup)})
			dup2 := map[any]any{"a": gv[0], ukit.MyStr("a"): v2}
			out["Unserialize"] = append(out["Unserialize"], arg{dup2, ukit.Show(dup2)})
		}
	}
	// schema arguments (recursive scopes excluded: comparing them does not terminate, which is C15's finding)
	if ukit.IsRecursive(spec) {
		return out
	}
	self := ukit.Build(spec)
	out["ValidateCompatibility"] = append(out["ValidateCompatibility"], arg{self, "schema: a second instance of itself"})
	for i, m := range schemaNeighbours(spec) {
		pan, _, _ := ukit.Call(func() {
			out["ValidateCompatibility"] = append(out["ValidateCompatibility"], arg{ukit.Build(m), fmt.Sprintf("schema neighbour #%d: %s", i, m)})
		})
		_ = pan
	}
	return out
}

// schemaNeighbours: single-feature mutations used as compatibility arguments.
func schemaNeighbours(spec *ukit.Spec) []*ukit.Spec {
	var out []*ukit.Spec
	switch spec.Kind {
	case ukit.KStrEnum, ukit.KTypedEnum:
		a := spec.Clone()
		a.EnumS = append(a.EnumS[:1:1], "zzz")
		b := spec.Clone()
		b.EnumS = append(b.EnumS, "extra")
		out = append(out, a, b)
	case ukit.KIntEnum:
		a := spec.Clone()
		a.EnumI = append(a.EnumI[:1:1], 77)
		out = append(out, a)
	case ukit.KObject:
		if len(spec.Props) > 0 {
			a := spec.Clone()
			a.Props = a.Props[:len(a.Props)-1]
			b := spec.Clone()
			b.Props = append(b.Props, ukit.Prop{Name: "added", Type: &ukit.Spec{Kind: ukit.KString}})
			if spec.Struct == "" {
				out = append(out, a, b)
			}
		}
	case ukit.KOneOfStr, ukit.KOneOfInt:
		a := spec.Clone()
		a.Members = a.Members[:1]
		out = append(out, a)
	}
	return out
}

func partOrder(spec *ukit.Spec, tier string, res *ux.Result, only *replay) {
	sch := ukit.Build(spec)
	dev := 1
	if tier == "thorough" {
		dev = 2
	}
	args := arguments(spec, sch, tier)
	n := 0
	for _, op := range ops {
		for i, a := range args[op] {
			n++
			if ux.Stop() {
				res.Capped = true
				break
			}
			ux.Progress(n)
			if only != nil && (only.Op != op || only.Idx != i) {
				continue
			}
			// (b) argument preservation on the default order; schemas as arguments are compared by description
			before := snapshotArg(a.v)
			outcomes := map[string]string{}
			var first string
			execs := 0
			e := &mcrt.Explorer{Embedded: true, MaxPreempt: 0, MaxDelay: -1, MaxDeviate: dev, MaxSteps: 1 << 20, Body: func() {
				v, err := apply(sch, op, a.v)
				first = outcome(v, err)
			}, Check: func(r *mcrt.Result) bool {
				execs++
				switch r.Status {
				case mcrt.StPanic:
					outcomes["panic"] = fmt.Sprintf("panic in %s: %s (orders %v)", lib.PanicSite(r.PanicStack), lib.PanicClass(r.PanicValue), r.Choices)
				case mcrt.StComplete:
					if _, ok := outcomes[first]; !ok {
						outcomes[first] = fmt.Sprint(r.Choices)
					}
				default:
					outcomes["infra"] = r.Infra
				}
				return true
			}}
			e.Deadline = ux.BatchDeadline()
			e.All()
			if e.Stats.Capped {
				res.Capped = true
			}
			res.Evaluations += execs
			if execs > 1 {
				res.Nontrivial++
			}
			rp := replay{Part: "order", Spec: spec, Op: op, Idx: i, Desc: a.desc}
			if p, ok := outcomes["panic"]; ok {
				res.Add(p, fmt.Sprintf("%s(%s) on %s", op, a.desc, spec), rp)
				delete(outcomes, "panic")
			}
			delete(outcomes, "infra")
			if len(outcomes) > 1 {
				detail := fmt.Sprintf("%s(%s) on %s gives %d different results over %d iteration orders:", op, a.desc, spec, len(outcomes), execs)
				accept, reject := false, false
				for o, ch := range outcomes {
					detail += fmt.Sprintf("\n  %s   [orders %s]", clip(o), ch)
					if o == "reject" {
						reject = true
					} else {
						accept = true
					}
				}
				kind := "returns different values"
				if accept && reject {
					kind = "accepts or rejects"
				}
				res.Add(fmt.Sprintf("%s of %s %s depending on map iteration order", op, spec.Kind, kind), detail, rp)
			}
			if after := snapshotArg(a.v); after != before {
				res.Add(fmt.Sprintf("%s of %s modifies its argument", op, spec.Kind), fmt.Sprintf("%s(%s) on %s\nbefore: %s\nafter:  %s", op, a.desc, spec, clip(before), clip(after)), rp)
			}
		}
	}
}

func snapshotArg(v any) string {
	if t, ok := v.(schema.Type); ok {
		return ukit.DeepDump(t)
	}
	return ukit.Snapshot(v)
}

func clip(s string) string {
	if len(s) > 300 {
		return s[:300] + "..."
	}
	return s
}

// ---- (c) history-freedom -----------------------------------------------------------------------------

type call struct {
	Op   string
	V    func() any // fresh argument each time
	Name string
}

func alphabet(spec *ukit.Spec) []call {
	var out []call
	add := func(op string, v any) {
		cp := v
		out = append(out, call{op, func() any { return ukit.DeepCopy(cp) }, op + "(" + ukit.Show(v) + ")"})
	}
	valids := ukit.ValidValues(spec, 2)
	for _, v := range valids {
		add("Unserialize", v)
	}
	raws := ukit.RawValues(spec)
	// an erroring call, a wrong-type call
	probeSch := ukit.Build(spec)
	nerr, nstr := 0, 0
	for _, r := range raws {
		var err error
		pan, _, _ := ukit.Call(func() { _, err = probeSch.Unserialize(ukit.DeepCopy(r)) })
		if !pan && err != nil && nerr < 2 {
			add("Unserialize", r)
			nerr++
		}
		// accepted strings exercise the lazily built unit parsers
		if _, isStr := r.(string); isStr && !pan && err == nil && nstr < 2 && spec.Units != "" {
			add("Unserialize", r)
			nstr++
		}
	}
	for _, v := range valids {
		var n any
		var err error
		pan, _, _ := ukit.Call(func() { n, err = probeSch.Unserialize(ukit.DeepCopy(v)) })
		if !pan && err == nil {
			nn := n
			out = append(out, call{"Validate", func() any { return nn }, "Validate(" + ukit.Show(n) + ")"})
			out = append(out, call{"Serialize", func() any { return nn }, "Serialize(" + ukit.Show(n) + ")"})
			break
		}
	}
	// rejected calls on the native side and in data-mode compatibility (their errors travel up through the containers)
	for i, bn := range badNatives(spec, probeSch) {
		bn := bn
		if i == 0 {
			out = append(out, call{"Validate", func() any { return bn }, "Validate(" + ukit.Show(bn) + ")"})
		}
		if i <= 1 {
			out = append(out, call{"Serialize", func() any { return bn }, "Serialize(" + ukit.Show(bn) + ")"})
		}
	}
	for _, r := range raws {
		var err error
		pan, _, _ := ukit.Call(func() { err = probeSch.ValidateCompatibility(ukit.DeepCopy(r)) })
		if !pan && err != nil {
			add("ValidateCompatibility", r)
			break
		}
	}
	if len(valids) > 0 {
		add("ValidateCompatibility", valids[0])
	}
	if !ukit.IsRecursive(spec) {
		out = append(out, call{"ValidateCompatibility", func() any { return ukit.Build(spec) }, "ValidateCompatibility(schema: second instance)"})
	}
	return out
}

// observe: what a user can see of an instance - self-description (for scopes) and behaviour on a probe set.
// objNode is one object schema inside a built schema, with the spec it was built from.
type objNode struct {
	spec *ukit.Spec
	obj  *schema.ObjectSchema
}

// buildWithNodes builds a fresh instance and collects its object schemas (in build order, which is fixed).
func buildWithNodes(spec *ukit.Spec) (schema.Type, []objNode) {
	var nodes []objNode
	ukit.OnBuild = func(n *ukit.Spec, t schema.Type) {
		if o, ok := t.(*schema.ObjectSchema); ok {
			nodes = append(nodes, objNode{n, o})
		}
	}
	defer func() { ukit.OnBuild = nil }()
	return ukit.Build(spec), nodes
}

// observeNodes: the parts of an instance are schemas in their own right - their defaults and their behaviour when
// used directly belong to what "the schema is as it was" means.
func observeNodes(nodes []objNode) string {
	s := ""
	for i, n := range nodes {
		pan, _, _ := ukit.Call(func() { s += fmt.Sprintf("|obj%d %s defaults:%s", i, n.spec.ID, ukit.Snapshot(n.obj.GetDefaults())) })
		if pan {
			s += "defaults-panic"
		}
		for _, v := range append(ukit.ValidValues(n.spec, 2), map[string]any{}) {
			pan, _, _ := ukit.Call(func() {
				u, err := n.obj.Unserialize(ukit.DeepCopy(v))
				s += ";" + outcomeE(u, err)
			})
			if pan {
				s += ";panic"
			}
		}
	}
	return s
}

// badNatives: up to three native values the schema rejects - accepted native values with one position corrupted
// (out of bounds, not in the enum, nil pattern, missing required key, nil).
func badNatives(spec *ukit.Spec, sch schema.Type) []any {
	var out []any
	seen := map[string]bool{}
	for _, v := range ukit.ValidValues(spec, 2) {
		var n any
		var err error
		pan, _, _ := ukit.Call(func() { n, err = sch.Unserialize(ukit.DeepCopy(v)) })
		if pan || err != nil {
			continue
		}
		var cands []any
		for _, c := range ukit.NativeCorruptions(spec, n) {
			cands = append(cands, c.Value)
		}
		for _, pos := range ukit.Positions(n) {
			if !pos.IsKey && pos.Path != "$" {
				pos := pos
				ukit.Call(func() { cands = append(cands, pos.Replace(nil)) })
			}
		}
		for _, bad := range cands {
			var verr error
			bad := bad
			// judged on a copy: the candidate itself must reach the calls under test untouched
			pan, _, _ := ukit.Call(func() { verr = sch.Validate(ukit.DeepCopy(bad)) })
			if pan || verr == nil || seen[ukit.Snapshot(bad)] {
				continue
			}
			seen[ukit.Snapshot(bad)] = true
			out = append(out, bad)
			if len(out) == 3 {
				return out
			}
		}
	}
	return out
}

func observe(spec *ukit.Spec, sch schema.Type, probes []any) string {
	s := ""
	for _, bn := range badNatives(spec, sch) {
		pan, _, _ := ukit.Call(func() {
			s += outcomeE(nil, sch.Validate(bn)) + ";"
			w, err := sch.Serialize(bn)
			s += outcomeE(w, err) + ";"
		})
		if pan {
			s += "panic;"
		}
	}
	if sc, ok := sch.(*schema.ScopeSchema); ok {
		d, err := sc.SelfSerialize()
		s += "self:" + ukit.Snapshot(d) + fmt.Sprint(err == nil) + "|"
	}
	for _, p := range probes {
		for _, op := range []string{"Unserialize", "ValidateCompatibility"} {
			pan, _, _ := ukit.Call(func() {
				v, err := apply(sch, op, ukit.DeepCopy(p))
				s += outcomeE(v, err) + ";"
				if op == "Unserialize" && err == nil {
					w, e2 := sch.Serialize(v)
					s += outcomeE(w, e2) + ";"
				}
			})
			if pan {
				s += "panic;"
			}
		}
	}
	return s
}

func partHistory(spec *ukit.Spec, tier string, res *ux.Result, only *replay) {
	alpha := alphabet(spec)
	depth := 3
	if tier == "thorough" {
		depth = 4
	}
	raws := ukit.RawValues(spec)
	probes := ukit.ValidValues(spec, 2)
	for i := 0; i < len(raws) && len(probes) < 10; i += len(raws)/8 + 1 {
		probes = append(probes, raws[i])
	}
	freshSch, freshNodes := buildWithNodes(spec)
	fresh := observeNodes(freshNodes) + observe(spec, freshSch, probes) // the parts first: the probes themselves are calls
	var lastNodes []objNode
	build := func(hist []int) (schema.Type, bool) {
		sch, nodes := buildWithNodes(spec)
		lastNodes = nodes
		for _, ci := range hist {
			c := alpha[ci]
			pan, _, _ := ukit.Call(func() {
				v, err := apply(sch, c.Op, c.V())
				if err == nil && c.Op == "Unserialize" {
					// the caller owns the returned value (its argument was a fresh copy) and overwrites it in place: the
					// schema must not have kept a share in it
					ukit.Scribble(v)
				}
			})
			res.Transitions++
			if pan {
				return sch, false
			}
		}
		return sch, true
	}
	seen := map[string]bool{ukit.DeepDump(ukit.Build(spec)): true}
	frontier := [][]int{{}}
	for d := 0; d < depth; d++ {
		var next [][]int
		for _, h := range frontier {
			for ci := range alpha {
				hist := append(append([]int{}, h...), ci)
				if ux.Stop() {
					res.Capped = true
					return
				}
				ux.Progress(len(seen))
				sch, ok := build(hist)
				res.Evaluations++
				if !ok {
					continue // panics are C04's business
				}
				key := ukit.DeepDump(sch)
				obs := observeNodes(lastNodes) + observe(spec, sch, probes)
				if obs != fresh {
					var names []string
					for _, x := range hist {
						names = append(names, alpha[x].Name)
					}
					res.Add(fmt.Sprintf("schema of kind %s behaves differently after a call history", spec.Kind),
						fmt.Sprintf("schema %s\nhistory: %v\nobservation differs from a freshly built instance\nfresh:  %s\nafter:  %s", spec, names, clip(diffAt(fresh, obs, 0)), clip(diffAt(obs, fresh, 0))),
						replay{Part: "history", Spec: spec, History: names})
				}
				if !seen[key] {
					seen[key] = true
					next = append(next, hist)
				}
			}
		}
		frontier = next
		if len(frontier) == 0 {
			break
		}
	}
	res.States += len(seen)
	res.Count("history_states", len(seen))
	if len(seen) > 1 {
		res.Nontrivial++
	}
}

// diffAt returns a around the first difference with b.
func diffAt(a, b string, _ int) string {
	i := 0
	for i < len(a) && i < len(b) && a[i] == b[i] {
		i++
	}
	lo := i - 60
	if lo < 0 {
		lo = 0
	}
	hi := i + 200
	if hi > len(a) {
		hi = len(a)
	}
	return "..." + a[lo:hi]
}

func main() {
	ux.Main(ux.Harness{
		Property:    "C12",
		Level:       "model_checking",
		Exhaustive:  true,
		ModelCheck:  true,
		TaskTimeout: 300 * time.Second,
		Batches: func(tier string) []any {
			var out []any
			for i := range universe(tier) {
				out = append(out, batch{"order", i}, batch{"history", i})
			}
			return out
		},
		Run: func(tier string, raw json.RawMessage, from int, deadline time.Time) ux.Result {
			var b batch
			_ = json.Unmarshal(raw, &b)
			spec := universe(tier)[b.Spec]
			var res ux.Result
			if b.Part == "order" {
				partOrder(spec, tier, &res, nil)
			} else {
				pan, val, stack := ukit.Call(func() { partHistory(spec, tier, &res, nil) })
				if pan {
					res.Add("INFRA history search panicked: "+lib.PanicClass(fmt.Sprint(val)), stack, nil)
				}
			}
			if b.Spec%101 == 0 {
				res.Samples = append(res.Samples, map[string]any{"part": b.Part, "schema": spec.String(), "evaluations": res.Evaluations, "states": res.States})
			}
			return res
		},
		Replay: func(raw json.RawMessage) []ux.Finding {
			var r replay
			if json.Unmarshal(raw, &r) != nil {
				return nil
			}
			var res ux.Result
			if r.Part == "order" {
				partOrder(r.Spec, "thorough", &res, &r)
				if len(res.Findings) == 0 {
					partOrder(r.Spec, "quick", &res, &r)
				}
			} else {
				partHistory(r.Spec, "quick", &res, &r)
			}
			return res.Findings
		},
		Rule: "(a,b) every spec of U_2 that ranges over a map (enums, maps, objects, one-ofs, scopes, any, unit-bearing scalars) x its raw values (incl. maps whose distinct raw keys denote one key), their native forms and schema arguments (second instance, single-feature neighbours) x 4 operations, each executed under the default and under every single (thorough: pair of) non-default iteration order(s) of every range-over-map / MapKeys the operation performs (all permutations for <= 4 keys); argument snapshot compared before/after. (c) breadth-first search over call histories of depth <= 3 (thorough 4) over an alphabet of ~12 calls per spec (accepted and rejected calls of all four operations) on one instance; every value an Unserialize of the history returned is overwritten in place by the caller afterwards; states = distinct deep dumps (incl. unexported caches) of the instance, transitions = calls replayed; every reached instance is compared with a fresh one on self-description, a probe set incl. rejected native values (verdicts, values and error texts with their paths), and the defaults and direct behaviour of every object schema inside it. non-trivial = cases in which more than one order / state was actually explored",
		Assumptions: []string{
			"error texts are compared only in the history search (one fixed iteration order; addresses masked); under deviating orders only accept/reject and returned values",
			"histories are rebuilt from a fresh instance per BFS node (live schema objects cannot be cloned)",
			"deviation bound: one (thorough: two) map iterations per call deviate from sorted order, each over all permutations",
		},
	})
}
