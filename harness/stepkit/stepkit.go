// Package stepkit holds the step-call concurrency scenarios shared by C11 and C13: CallStep / CallSignal for a few
// run ids issued by several threads on ONE callable schema, with the observations needed to judge them.
package stepkit

import (
	"context"
	"fmt"
	"sort"
	"strings"

	"go.flow.arcalot.io/pluginsdk/mcrt"
	"go.flow.arcalot.io/pluginsdk/schema"
	"verif/engine/lib"
	"verif/engine/mc"
	"verif/harness/ukit"
)

type stepData struct{ id int }

func outScope() *schema.ScopeSchema {
	return schema.NewScopeSchema(schema.NewObjectSchema("Out", map[string]*schema.PropertySchema{
		"message": schema.NewPropertySchema(schema.NewStringSchema(ukit.I64(1), nil, nil), nil, true, nil, nil, nil, nil, nil),
	}))
}

// ---- part S ------------------------------------------------------------------------------------------

type Obs struct {
	inits     int
	stepData  map[string]any
	sigData   map[string][]any
	errs      []string
	stepCalls map[string]int
}

var cur *Obs

type Scen struct {
	Name    string
	Threads []string // "step:r1", "signal:r1", ...
	// Before: calls issued one after the other, each returning before the next, before the threads start - the
	// callable schema of a long-lived plugin has served many runs by the time the calls under judgement arrive
	Before []string
}

// manyRuns: "step:<prefix>01" ... "step:<prefix>NN"
func manyRuns(prefix string, n int) []string {
	var out []string
	for i := 1; i <= n; i++ {
		out = append(out, fmt.Sprintf("step:%s%02d", prefix, i))
	}
	return out
}

func Scens(tier string) []Scen {
	out := []Scen{
		{Name: "step r1 | signal r1", Threads: []string{"step:r1", "signal:r1"}},
		{Name: "signal r1 | signal r1", Threads: []string{"signal:r1", "signal:r1"}},
		{Name: "step r1 | signal r1 | signal r2 | step r2", Threads: []string{"step:r1", "signal:r1", "signal:r2", "step:r2"}},
		{Name: "step r1 | step r2 | signal r1", Threads: []string{"step:r1", "step:r2", "signal:r1"}},
	}
	// a run whose step has long returned, or whose first signal came long ago, is still that run: 70 other runs in between
	// (more than any table size of 64 or less that a plugin might think of bounding its bookkeeping by)
	out = append(out,
		Scen{Name: "step r1, 70 other runs, then: signal r1 | step r2", Threads: []string{"signal:r1", "step:r2"},
			Before: append([]string{"step:r1"}, manyRuns("q", 70)...)},
		Scen{Name: "signal r1, 70 other runs, then: step r1 | signal r1", Threads: []string{"step:r1", "signal:r1"},
			Before: append([]string{"signal:r1"}, manyRuns("q", 70)...)},
		Scen{Name: "step r1, signal r1, 33 other runs, signal r1, 33 other runs, then: signal r1 | signal q01", Threads: []string{"signal:r1", "signal:q01"},
			Before: append(append(append([]string{"step:r1", "signal:r1"}, manyRuns("q", 33)...), "signal:r1"), manyRuns("p", 33)...)},
	)
	if tier == "thorough" {
		out = append(out, Scen{Name: "step r1 | signal r1 | signal r1 | signal r2 | step r2", Threads: []string{"step:r1", "signal:r1", "signal:r1", "signal:r2", "step:r2"}})
	}
	return out
}

func Body(sc Scen) func() {
	return func() {
		o := &Obs{stepData: map[string]any{}, sigData: map[string][]any{}, stepCalls: map[string]int{}}
		cur = o
		inScope := ukit.BuildScope(ukit.WrapScope(ukit.MapObjA("A")))
		sigScope := schema.NewScopeSchema(schema.NewObjectSchema("SigIn", map[string]*schema.PropertySchema{
			"run": schema.NewPropertySchema(schema.NewStringSchema(nil, nil, nil), nil, true, nil, nil, nil, nil, nil),
		}))
		// the signal object carries an id of its own ("bump-generic"); the step declares it under the name "sig", and that
		// name is what callers use
		sig := schema.NewCallableSignal[*stepData, map[string]any]("bump-generic", sigScope, nil, func(_ context.Context, d *stepData, v map[string]any) {
			run := v["run"].(string)
			o.sigData[run] = append(o.sigData[run], d)
		})
		cs := schema.NewCallableSchema(schema.NewCallableStepWithSignals[*stepData, map[string]any]("s", inScope,
			map[string]*schema.StepOutputSchema{"success": schema.NewStepOutputSchema(outScope(), nil, false)},
			map[string]schema.CallableSignal{"sig": sig}, nil, nil,
			func() *stepData { o.inits++; return &stepData{id: o.inits} },
			func(_ context.Context, d *stepData, v map[string]any) (string, any) {
				run := v["x"].(string)
				o.stepCalls[run]++
				o.stepData[run] = d
				return "success", map[string]any{"message": "done " + run}
			}))
		var wg mcrt.WaitGroup
		issue := func(kind, run string) {
			if kind == "step" {
				id, data, err := cs.CallStep(context.Background(), run, "s", map[string]any{"x": run})
				if err != nil || id != "success" || data.(map[string]any)["message"] != "done "+run {
					o.errs = append(o.errs, fmt.Sprintf("CallStep(%s) -> (%q, %v, %v)", run, id, data, err))
				}
			} else {
				if err := cs.CallSignal(context.Background(), run, "s", "sig", map[string]any{"run": run}); err != nil {
					o.errs = append(o.errs, fmt.Sprintf("CallSignal(%s) -> %v", run, err))
				}
			}
		}
		for _, th := range sc.Before {
			parts := strings.SplitN(th, ":", 2)
			issue(parts[0], parts[1])
		}
		for i, th := range sc.Threads {
			parts := strings.SplitN(th, ":", 2)
			kind, run := parts[0], parts[1]
			wg.Add(1)
			mcrt.GoNamed(fmt.Sprintf("t%d-%s", i, th), func() {
				defer wg.Done()
				if kind == "step" {
					id, data, err := cs.CallStep(context.Background(), run, "s", map[string]any{"x": run})
					if err != nil || id != "success" || data.(map[string]any)["message"] != "done "+run {
						o.errs = append(o.errs, fmt.Sprintf("CallStep(%s) -> (%q, %v, %v)", run, id, data, err))
					}
				} else {
					if err := cs.CallSignal(context.Background(), run, "s", "sig", map[string]any{"run": run}); err != nil {
						o.errs = append(o.errs, fmt.Sprintf("CallSignal(%s) -> %v", run, err))
					}
				}
			})
		}
		wg.Wait()
	}
}

func Judge(sc Scen, r *mcrt.Result) (string, []mc.Finding) {
	o := cur
	var fs []mc.Finding
	add := func(sig, detail string) {
		fs = append(fs, mc.Finding{Signature: sig, Detail: "threads: " + sc.Name + "\n" + detail})
	}
	switch r.Status {
	case mcrt.StPanic:
		add("panic in "+lib.PanicSite(r.PanicStack)+": "+lib.PanicClass(r.PanicValue), r.PanicValue+"\n"+r.PanicStack)
	case mcrt.StBlocked:
		add("deadlock", fmt.Sprint(r.Blocked))
	}
	for _, rc := range r.Races {
		a, b := rc.First, rc.Then
		if a > b {
			a, b = b, a
		}
		add("data race: "+a+" <-> "+b, rc.String())
	}
	if r.Status != mcrt.StComplete || o == nil {
		return r.Status.String(), fs
	}
	for _, e := range o.errs {
		add("call failed under concurrency", e)
	}
	runs := map[string]bool{}
	for _, th := range append(append([]string{}, sc.Before...), sc.Threads...) {
		runs[strings.SplitN(th, ":", 2)[1]] = true
	}
	if o.inits != len(runs) {
		add("step data initializer did not run exactly once per run id", fmt.Sprintf("%d initializer runs for %d run ids", o.inits, len(runs)))
	}
	var order []string
	for run := range runs {
		want := o.stepData[run]
		for _, d := range o.sigData[run] {
			if want == nil {
				want = d
			}
			if d != want {
				add("signal handler saw other step data than its run's", fmt.Sprintf("run %s: step data %v, signal data %v", run, want, d))
			}
		}
		if sd, ok := o.stepData[run].(*stepData); ok && strings.HasPrefix(run, "r") {
			order = append(order, fmt.Sprintf("%s=#%d", run, sd.id))
		}
	}
	sort.Strings(order)
	return "complete " + strings.Join(order, ","), fs
}
