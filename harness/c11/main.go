// C11: step calls - the handler runs iff the input is valid; outputs are checked; bad ids are errors; step
// data is created exactly once per run id.
//
// Part U (in the parent): steps over several input scopes x every raw input x handler behaviours x step /
// signal ids, compared with the reference interpreter. Part S (model checking): CallStep and CallSignal for
// two run ids issued by four threads, all interleavings within the bound, with access events on schema/.
package main

import (
	"context"
	"errors"
	"fmt"
	"time"

	"go.flow.arcalot.io/pluginsdk/mcrt"
	"go.flow.arcalot.io/pluginsdk/schema"
	"verif/engine/lib"
	"verif/engine/mc"
	"verif/harness/stepkit"
	"verif/harness/ukit"
)

type recorder struct {
	stepCalls   int
	stepInput   any
	stepData    any
	signalCalls int
	signalInput any
	signalData  any
	mode        string
}

type outMsg struct {
	Message string `json:"message"`
}

func outScope() *schema.ScopeSchema {
	return schema.NewScopeSchema(schema.NewObjectSchema("Out", map[string]*schema.PropertySchema{
		"message": schema.NewPropertySchema(schema.NewStringSchema(ukit.I64(1), nil, nil), nil, true, nil, nil, nil, nil, nil),
	}))
}

type stepData struct{ id int }

// buildCallable creates a callable schema with one step "s" over the given input scope spec (map-based or SA struct).
func buildCallable(in *ukit.Spec, rec *recorder, inits *int) *schema.CallableSchema {
	inScope := ukit.BuildScope(in)
	outputs := map[string]*schema.StepOutputSchema{
		"success": schema.NewStepOutputSchema(outScope(), nil, false),
		"error":   schema.NewStepOutputSchema(outScope(), nil, true),
	}
	respond := func() (string, any) {
		switch rec.mode {
		case "nonconforming":
			return "success", map[string]any{"message": ""} // violates min length 1
		case "wrongtype":
			return "success", "not an object"
		case "undeclared":
			return "no-such-output", map[string]any{"message": "x"}
		case "erroroutput":
			return "error", map[string]any{"message": "declared error output"}
		}
		return "success", map[string]any{"message": "fine"}
	}
	sigScope := schema.NewScopeSchema(schema.NewObjectSchema("SigIn", map[string]*schema.PropertySchema{
		"n": schema.NewPropertySchema(schema.NewIntSchema(ukit.I64(0), ukit.I64(5), nil), nil, true, nil, nil, nil, nil, nil),
	}))
	initializer := func() *stepData {
		*inits++
		return &stepData{id: *inits}
	}
	root := in.RootObject()
	if root.Struct != "" {
		sig := schema.NewCallableSignal[*stepData, map[string]any]("sig", sigScope, nil, func(_ context.Context, d *stepData, v map[string]any) {
			rec.signalCalls++
			rec.signalInput, rec.signalData = v, d
		})
		return schema.NewCallableSchema(schema.NewCallableStepWithSignals[*stepData, ukit.SA]("s", inScope, outputs,
			map[string]schema.CallableSignal{"sig": sig, "sigv": foreignSignal(sigScope, rec)}, nil, nil, initializer,
			func(_ context.Context, d *stepData, v ukit.SA) (string, any) {
				rec.stepCalls++
				rec.stepInput, rec.stepData = v, d
				return respond()
			}))
	}
	sig := schema.NewCallableSignal[*stepData, map[string]any]("sig", sigScope, nil, func(_ context.Context, d *stepData, v map[string]any) {
		rec.signalCalls++
		rec.signalInput, rec.signalData = v, d
	})
	return schema.NewCallableSchema(schema.NewCallableStepWithSignals[*stepData, map[string]any]("s", inScope, outputs,
		map[string]schema.CallableSignal{"sig": sig, "sigv": foreignSignal(sigScope, rec)}, nil, nil, initializer,
		func(_ context.Context, d *stepData, v map[string]any) (string, any) {
			rec.stepCalls++
			rec.stepInput, rec.stepData = v, d
			return respond()
		}))
}

// foreignSignal is a signal whose handler is declared for another step data type (the value type) than the step
// creates (a pointer): the run's step data cannot be handed to it, so it must not run at all.
func foreignSignal(sigScope *schema.ScopeSchema, rec *recorder) schema.CallableSignal {
	return schema.NewCallableSignal[stepData, map[string]any]("sigv", sigScope, nil, func(_ context.Context, d stepData, v map[string]any) {
		rec.signalCalls++
		rec.signalInput, rec.signalData = v, d
	})
}

func inputScopes() []*ukit.Spec {
	ss := ukit.ScopeSpecs()
	return []*ukit.Spec{ukit.WrapScope(ukit.MapObjA("A")), ukit.WrapScope(ukit.MapObjB("B")), ss[0], ss[2], ss[4], ukit.WrapScope(ukit.ShapeSpecs()[0])}
}

var modes = []string{"conforming", "nonconforming", "wrongtype", "undeclared", "erroroutput"}

// partU runs the input-space part and records violations.
func partU(tier string, rep *lib.Report) (int, map[string]any) {
	evals, accepted := 0, 0
	for si, in := range inputScopes() {
		ukit.Link(in)
		raws := append(ukit.ValidValues(in, 3), ukit.RawValues(in)...)
		for ri, raw := range raws {
			want, denoted := ukit.Denote(in, raw)
			if want == ukit.Unknown {
				continue
			}
			for _, mode := range modes {
				if want == ukit.No && mode != "conforming" {
					continue
				}
				for _, stepID := range []string{"s", "nope"} {
					evals++
					rec := &recorder{mode: mode}
					inits := 0
					cs := buildCallable(in, rec, &inits)
					var outID string
					var data any
					var err error
					what := fmt.Sprintf("CallStep(run r1, step %q, %s) with handler mode %s on input scope %s", stepID, ukit.Show(raw), mode, in)
					fail := func(sig, detail string) {
						rep.Violate(sig, what+"\n"+detail, map[string]any{"part": "U", "scope": si, "raw": ri, "mode": mode, "step": stepID})
					}
					pan, val, stack := ukit.Call(func() { outID, data, err = cs.CallStep(context.Background(), "r1", stepID, ukit.DeepCopy(raw)) })
					if pan {
						fail(fmt.Sprintf("panic in %s: %s", lib.PanicSite(stack), lib.PanicClass(fmt.Sprint(val))), fmt.Sprint(val))
						continue
					}
					var bad schema.BadArgumentError
					var inv schema.InvalidInputError
					var invOut schema.InvalidOutputError
					switch {
					case stepID != "s":
						if err == nil || !errors.As(err, &bad) {
							fail("unknown step id is not reported as BadArgumentError", fmt.Sprintf("-> (%q, %v, %v)", outID, data, err))
						}
						if rec.stepCalls != 0 {
							fail("handler invoked for an unknown step id", "")
						}
					case want == ukit.No:
						if err == nil || !errors.As(err, &inv) {
							fail("rejected input is not reported as InvalidInputError", fmt.Sprintf("-> (%q, %v, %v)", outID, data, err))
						}
						if rec.stepCalls != 0 {
							fail("handler invoked although the input schema rejects the input", fmt.Sprintf("handler got %s", ukit.Show(rec.stepInput)))
						}
					default:
						accepted++
						if rec.stepCalls != 1 {
							fail("handler not invoked exactly once for a valid input", fmt.Sprintf("%d invocations; err=%v", rec.stepCalls, err))
							continue
						}
						if !ukit.Equiv(rec.stepInput, denoted) {
							fail("handler received another value than the unserialized input", fmt.Sprintf("handler got %s, expected %s", ukit.Show(rec.stepInput), ukit.Show(denoted)))
						}
						if inits != 1 {
							fail("step data initializer did not run exactly once for the run", fmt.Sprintf("%d runs", inits))
						}
						switch mode {
						case "conforming", "erroroutput":
							wantID := "success"
							if mode == "erroroutput" {
								wantID = "error"
							}
							if err != nil || outID != wantID {
								fail("valid call with declared, conforming output does not return it", fmt.Sprintf("-> (%q, %v, %v)", outID, data, err))
							} else if m, ok := data.(map[string]any); !ok || len(m) != 1 || (m["message"] != "fine" && m["message"] != "declared error output") {
								fail("returned output data is not the serialized handler output", fmt.Sprintf("-> %s", ukit.Show(data)))
							}
						case "nonconforming", "wrongtype":
							if err == nil {
								fail("output data violating the declared output schema is returned without error", fmt.Sprintf("-> (%q, %s)", outID, ukit.Show(data)))
							}
						case "undeclared":
							if err == nil || !errors.As(err, &invOut) {
								fail("undeclared output id is not reported as InvalidOutputError", fmt.Sprintf("-> (%q, %v, %v)", outID, data, err))
							}
						}
					}
				}
			}
		}
		// signals
		for _, c := range []struct {
			step, signal string
			data         any
			kind         string
		}{
			{"s", "sig", map[string]any{"n": int64(3)}, "ok"},
			{"s", "sig", map[string]any{"n": int64(99)}, "baddata"},
			{"s", "sig", "not a map", "baddata"},
			{"s", "nosuch", map[string]any{"n": int64(3)}, "unknownsignal"},
			{"nope", "sig", map[string]any{"n": int64(3)}, "unknownstep"},
			{"s", "sigv", map[string]any{"n": int64(3)}, "foreignstepdata"},
		} {
			evals++
			rec := &recorder{mode: "conforming"}
			inits := 0
			cs := buildCallable(in, rec, &inits)
			var err error
			what := fmt.Sprintf("CallSignal(run r1, step %q, signal %q, %s) on input scope %s", c.step, c.signal, ukit.Show(c.data), in)
			fail := func(sig, detail string) {
				rep.Violate(sig, what+"\n"+detail, map[string]any{"part": "U-signal", "scope": si, "kind": c.kind})
			}
			pan, val, stack := ukit.Call(func() { err = cs.CallSignal(context.Background(), "r1", c.step, c.signal, c.data) })
			if pan {
				fail(fmt.Sprintf("panic in %s: %s", lib.PanicSite(stack), lib.PanicClass(fmt.Sprint(val))), fmt.Sprint(val))
				continue
			}
			var inv schema.InvalidInputError
			switch c.kind {
			case "ok":
				if err != nil || rec.signalCalls != 1 || inits != 1 {
					fail("valid signal call does not invoke the handler exactly once with fresh step data", fmt.Sprintf("err=%v calls=%d initializer runs=%d", err, rec.signalCalls, inits))
				} else if d, ok := rec.signalData.(*stepData); !ok || d == nil || d.id != 1 {
					fail("signal handler saw other step data than its run's", fmt.Sprintf("handler got %#v, the initializer returned &stepData{id:1}", rec.signalData))
				}
			case "foreignstepdata":
				// the handler cannot take the run's step data: whatever it is given is not the run's, so it must not run
				if rec.signalCalls != 0 {
					fail("signal handler saw other step data than its run's", fmt.Sprintf("handler declared for another step data type was run with %#v; err=%v", rec.signalData, err))
				} else if err == nil {
					fail("signal that cannot be delivered is not an error", "CallSignal returned nil although the handler cannot take the run's step data")
				}
			case "baddata":
				if err == nil || !errors.As(err, &inv) || rec.signalCalls != 0 {
					fail("bad signal data is not reported as InvalidInputError", fmt.Sprintf("err=%v calls=%d", err, rec.signalCalls))
				}
			default:
				if err == nil || rec.signalCalls != 0 {
					fail("unknown step or signal id is not an error", fmt.Sprintf("err=%v calls=%d", err, rec.signalCalls))
				}
			}
		}
	}
	evals += lateRejection(rep)
	evals += initializerWithoutHandlers(rep)
	return evals, map[string]any{"part_U_calls": evals, "part_U_valid_inputs_x_modes": accepted}
}

// initializerWithoutHandlers: the per-run step data is created exactly once per run id also for a step that has an
// initializer but no signal handlers (it only emits signals, or has none at all): the handler gets that data.
func initializerWithoutHandlers(rep *lib.Report) int {
	n := 0
	for _, variant := range []string{"nil handler map", "empty handler map", "emitters only"} {
		n++
		inits := 0
		var got *stepData
		calls := 0
		var handlers map[string]schema.CallableSignal
		var emitters map[string]*schema.SignalSchema
		switch variant {
		case "empty handler map":
			handlers = map[string]schema.CallableSignal{}
		case "emitters only":
			emitters = map[string]*schema.SignalSchema{"progress": schema.NewSignalSchema("progress", outScope(), nil)}
		}
		cs := schema.NewCallableSchema(schema.NewCallableStepWithSignals[*stepData, map[string]any]("s",
			ukit.BuildScope(ukit.WrapScope(ukit.MapObjA("A"))),
			map[string]*schema.StepOutputSchema{"success": schema.NewStepOutputSchema(outScope(), nil, false)},
			handlers, emitters, nil,
			func() *stepData { inits++; return &stepData{id: inits} },
			func(_ context.Context, d *stepData, _ map[string]any) (string, any) {
				calls++
				got = d
				return "success", map[string]any{"message": "ran"}
			}))
		what := "CallStep on a step with an initializer and " + variant
		fail := func(sig, detail string) {
			rep.Violate(sig, what+"\n"+detail, map[string]any{"part": "U-init", "variant": variant})
		}
		var err error
		pan, val, stack := ukit.Call(func() { _, _, err = cs.CallStep(context.Background(), "r1", "s", map[string]any{"x": "a"}) })
		if pan {
			fail(fmt.Sprintf("panic in %s: %s", lib.PanicSite(stack), lib.PanicClass(fmt.Sprint(val))), fmt.Sprint(val))
			continue
		}
		if err != nil || calls != 1 {
			fail("handler not invoked exactly once for an accepted input", fmt.Sprintf("err=%v calls=%d", err, calls))
			continue
		}
		if inits != 1 || got == nil || got.id != 1 {
			fail("step data initializer did not run exactly once per run id", fmt.Sprintf("%d initializer runs for 1 run id; the step handler got %#v", inits, got))
		}
	}
	return n
}

// lateIn has an optional property held in a value field whose zero value violates the property's constraint: the
// raw input without it unserializes (to the zero value) and is rejected only by the validation that follows.
type lateIn struct {
	S string `json:"s"`
	T string `json:"t"`
}

// lateRejection: an input the step's schema rejects at the validation stage is still a rejected INPUT - the handler
// does not run and the error is an InvalidInputError, not the error of an output that was never produced.
func lateRejection(rep *lib.Report) int {
	calls := 0
	in := schema.NewScopeSchema(schema.NewStructMappedObjectSchema[lateIn]("LateIn", map[string]*schema.PropertySchema{
		"s": schema.NewPropertySchema(schema.NewStringSchema(ukit.I64(1), nil, nil), nil, false, nil, nil, nil, nil, nil),
		"t": schema.NewPropertySchema(schema.NewStringSchema(nil, nil, nil), nil, true, nil, nil, nil, nil, nil),
	}))
	cs := schema.NewCallableSchema(schema.NewCallableStep[lateIn]("s", in,
		map[string]*schema.StepOutputSchema{"success": schema.NewStepOutputSchema(outScope(), nil, false)}, nil,
		func(_ context.Context, _ lateIn) (string, any) {
			calls++
			return "success", map[string]any{"message": "ran"}
		}))
	raw := map[string]any{"t": "x"}
	what := "CallStep(run r1, step \"s\", {t: x}) on a struct-mapped input whose optional value field s (min length 1) is absent"
	fail := func(sig, detail string) {
		rep.Violate(sig, what+"\n"+detail, map[string]any{"part": "U-late", "scope": 0})
	}
	var err error
	pan, val, stack := ukit.Call(func() { _, _, err = cs.CallStep(context.Background(), "r1", "s", raw) })
	if pan {
		fail(fmt.Sprintf("panic in %s: %s", lib.PanicSite(stack), lib.PanicClass(fmt.Sprint(val))), fmt.Sprint(val))
		return 1
	}
	if err == nil {
		// the schema accepts the input after all: then the handler must have run exactly once
		if calls != 1 {
			fail("handler not invoked exactly once for an accepted input", fmt.Sprintf("calls=%d", calls))
		}
		return 1
	}
	var inv schema.InvalidInputError
	var outErr schema.InvalidOutputError
	if calls != 0 {
		fail("handler invoked although the input was rejected", fmt.Sprintf("calls=%d err=%v", calls, err))
	}
	if !errors.As(err, &inv) || errors.As(err, &outErr) {
		fail("rejected input is not reported as InvalidInputError", fmt.Sprintf("error type %T: %v", err, err))
	}
	return 1
}

// ---- part S: see verif/harness/stepkit ----------------------------------------------------------------

var sMap map[string]stepkit.Scen

func main() {
	mc.Main(mc.Harness{
		Property: "C11",
		Level:    "model_checking",
		Scenarios: func(tier string) []mc.Scenario {
			sMap = map[string]stepkit.Scen{}
			var out []mc.Scenario
			for _, s := range stepkit.Scens(tier) {
				sMap[s.Name] = s
				levels := []mc.Bounds{{Preempt: 0, Delay: 0}, {Preempt: 1, Delay: 1}, {Preempt: 2, Delay: 2}, {Preempt: 3, Delay: 3}}
				if tier == "thorough" {
					levels = append(levels, mc.Bounds{Preempt: 4, Delay: 4}, mc.Bounds{Preempt: 5, Delay: 5})
				}
				out = append(out, mc.Scenario{Name: s.Name, Levels: levels, Races: true})
			}
			return out
		},
		Body:  func(sc mc.Scenario) func() { return stepkit.Body(sMap[sc.Name]) },
		Judge: func(sc mc.Scenario, r *mcrt.Result) (string, []mc.Finding) { return stepkit.Judge(sMap[sc.Name], r) },
		Pre:   partU,
		Budget: func(tier string) time.Duration {
			if tier == "thorough" {
				return 15 * time.Minute
			}
			return 120 * time.Second
		},
		Rule: "part U: one callable step over each of 6 input scopes (map-based with defaults / presence rules, references, recursive references, one-of over references, struct-mapped) x every raw input of V(scope) x 5 handler behaviours (conforming, non-conforming data, wrongly typed data, undeclared output id, declared error output) x {existing, unknown} step id, plus an input rejected only at the validation stage (must still be an InvalidInputError with the handler not run), plus 6 signal calls (valid, out-of-range data, wrongly typed data, unknown signal id, unknown step id, a handler declared for another step data type) per scope, compared with the reference interpreter (handler invocation count and argument, output id and serialized data, error types). Part S: CallStep / CallSignal for run ids r1, r2 issued by 2-4 (thorough 5) threads, on a fresh callable schema and on one that has already served 67-71 other runs one after the other (a step that returned, or a first signal, 70 runs ago still belongs to its run); every interleaving within the delay bound; initializer count, identity of the step data seen by step and signal handlers, and happens-before races on schema/ (sync shim + access events) are checked",
		Assumptions: []string{
			"the error type for output data that violates the output schema is not pinned down by the property (any error is accepted)",
			"scheduling points at the mutex operations of schema/step.go; access events as in C13",
		},
	})
}
