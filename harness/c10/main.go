// C10: a schema received from a plugin is rejected with an error or fully usable.
//
// Base descriptions are the self-descriptions of the C09 universe. Every single structural mutation at
// every node (thorough: pairs at selected nodes) and a grammar-free family of small trees are fed to
// UnserializeScope / UnserializeSchema / Client.ReadSchema; whatever schema comes back is exercised with
// the total-operation harness of C04.
package main

import (
	"bytes"
	"encoding/json"
	"fmt"
	"io"
	"math"
	"os"
	"reflect"
	"regexp"
	"runtime"
	"sort"
	"strings"
	"time"

	"github.com/fxamacker/cbor/v2"
	"go.flow.arcalot.io/pluginsdk/atp"
	"go.flow.arcalot.io/pluginsdk/schema"
	"verif/engine/lib"
	"verif/engine/ux"
	"verif/harness/ukit"
)

func canon(d any) any {
	b, err := cbor.Marshal(d)
	if err != nil {
		panic(err)
	}
	var out any
	if err := cbor.Unmarshal(b, &out); err != nil {
		panic(err)
	}
	return out
}

type base struct {
	Name string
	Spec *ukit.Spec // for value generation (scope bases)
	Desc any
	Kind string // scope / plugin
}

func bases(tier string) []base {
	var out []base
	add := func(s *ukit.Spec) {
		w := ukit.WrapScope(s)
		var d any
		pan, _, _ := ukit.Call(func() {
			sc := ukit.BuildScope(w)
			var err error
			d, err = sc.SelfSerialize()
			if err != nil {
				d = nil
			}
		})
		if pan || d == nil {
			return
		}
		ukit.Link(w)
		out = append(out, base{w.String(), w, canon(d), "scope"})
	}
	// a reduced but representative set: one scope per feature
	for _, s := range ukit.ScopeSpecs() {
		add(s)
	}
	for _, s := range ukit.OneOfSpecs() {
		add(s)
	}
	add(ukit.MapObjA("A"))
	// objects whose id is not enforced (as root, as nested-scope root and as list item scope)
	un := func(id string) *ukit.Spec {
		return &ukit.Spec{Kind: ukit.KObject, ID: id, Unenforced: true, Props: []ukit.Prop{{Name: "k", Type: &ukit.Spec{Kind: ukit.KString}, Required: true}}}
	}
	add(&ukit.Spec{Kind: ukit.KScope, Root: "U", Objects: []*ukit.Spec{
		{Kind: ukit.KObject, ID: "U", Unenforced: true, Props: []ukit.Prop{
			{Name: "nested", Type: &ukit.Spec{Kind: ukit.KScope, Root: "N", Objects: []*ukit.Spec{un("N")}}},
			{Name: "items", Type: &ukit.Spec{Kind: ukit.KList, Item: &ukit.Spec{Kind: ukit.KScope, Root: "I", Objects: []*ukit.Spec{un("I")}}}},
			{Name: "r", Type: &ukit.Spec{Kind: ukit.KRef, RefID: "V"}},
		}},
		un("V"),
	}})
	add(&ukit.Spec{Kind: ukit.KObject, ID: "Mix", Props: []ukit.Prop{
		{Name: "i", Type: &ukit.Spec{Kind: ukit.KInt, Min: ukit.I64(0), Max: ukit.I64(5), Units: "sec"}, Default: ukit.Str("2")},
		{Name: "s", Type: &ukit.Spec{Kind: ukit.KString, Min: ukit.I64(1), Pattern: "^a+$"}, Required: true},
		{Name: "e", Type: &ukit.Spec{Kind: ukit.KStrEnum, EnumS: []string{"a", "b"}, EnumNames: map[string]string{"a": "A"}}, RequiredIf: []string{"i"}},
		{Name: "l", Type: &ukit.Spec{Kind: ukit.KList, Item: &ukit.Spec{Kind: ukit.KFloat, FMax: ukit.F64(1)}, Max: ukit.I64(2)}, Conflicts: []string{"m"}},
		{Name: "m", Type: &ukit.Spec{Kind: ukit.KMap, Key: &ukit.Spec{Kind: ukit.KInt}, Val: &ukit.Spec{Kind: ukit.KAny}}, Disabled: true},
		{Name: "p", Type: &ukit.Spec{Kind: ukit.KPattern}},
		{Name: "b", Type: &ukit.Spec{Kind: ukit.KBool}, Default: ukit.Str("true")},
	}})
	if tier == "thorough" {
		for _, s := range ukit.Depth2(false) {
			add(s)
		}
	}
	// one whole plugin schema
	ss := ukit.ScopeSpecs()
	steps := map[string]*schema.StepSchema{
		"s1": schema.NewStepSchema("s1", ukit.BuildScope(ss[0]),
			map[string]*schema.StepOutputSchema{"success": schema.NewStepOutputSchema(ukit.BuildScope(ss[2]), nil, false)},
			map[string]*schema.SignalSchema{"sig": schema.NewSignalSchema("sig", ukit.BuildScope(ss[4]), nil)}, nil, nil),
	}
	pd, err := schema.NewSchema(steps).SelfSerialize()
	if err == nil {
		out = append(out, base{"plugin(s1)", ss[0], canon(pd), "plugin"})
	}
	return out
}

// mutation alphabet applied at a position
var retypes = []any{nil, true, int64(7), "text", []any{}, map[any]any{}, []any{"x"}, map[any]any{"k": "v"}, int64(-1), "", uint64(1 << 63), 1.5,
	// free text that is special to a consumer of names (regular expressions, paths)
	"*[(", "x|"}

type mutant struct {
	Desc any
	What string
}

func mutants(d any, tier string) []mutant {
	var out []mutant
	for _, pos := range ukit.Positions(d) {
		if pos.IsKey {
			// rename the key / duplicate semantics are covered below; here: key replaced by odd keys
			for _, k := range []any{"renamed_key", int64(1), "", true, int64(-1), int64(0), 1.5, math.NaN()} {
				if m := pos.Replace(k); m != nil {
					out = append(out, mutant{m, fmt.Sprintf("key at %s -> %s", pos.Path, ukit.Show(k))})
				}
			}
			continue
		}
		for _, r := range retypes {
			out = append(out, mutant{pos.Replace(ukit.DeepCopy(r)), fmt.Sprintf("value at %s -> %s", pos.Path, ukit.Show(r))})
		}
	}
	return append(out, targeted(d)...)
}

// targeted: delete key, duplicate under another key, re-point references, flip inlining, bad default, bad pattern
func targeted(d any) []mutant {
	var out []mutant
	var walk func(v any, path string, rebuild func(with any) any)
	walk = func(v any, path string, rebuild func(with any) any) {
		switch x := v.(type) {
		case map[any]any:
			for _, k := range ukit.SortedAnyKeys(x) {
				k := k
				without := map[any]any{}
				for a, b := range x {
					if a != k {
						without[a] = ukit.DeepCopy(b)
					}
				}
				out = append(out, mutant{rebuild(without), fmt.Sprintf("delete %s.%v", path, k)})
				dup := map[any]any{}
				for a, b := range x {
					dup[a] = ukit.DeepCopy(b)
				}
				dup["duplicate_of_"+fmt.Sprint(k)] = ukit.DeepCopy(x[k])
				out = append(out, mutant{rebuild(dup), fmt.Sprintf("duplicate %s.%v", path, k)})
				with := func(val any) any {
					m := map[any]any{}
					for a, b := range x {
						m[a] = ukit.DeepCopy(b)
					}
					m[k] = val
					return rebuild(m)
				}
				switch k {
				case "id", "root", "namespace", "discriminator_field_name":
					for _, alt := range []any{"NoSuchObject", "", "other_ns"} {
						out = append(out, mutant{with(alt), fmt.Sprintf("re-point %s.%v -> %v", path, k, alt)})
					}
				case "discriminator_inlined":
					if b, ok := x[k].(bool); ok {
						out = append(out, mutant{with(!b), fmt.Sprintf("flip %s.%v", path, k)})
					}
				case "default":
					for _, alt := range []any{"{not json", "\"unterminated", "[1,", "nul"} {
						out = append(out, mutant{with(alt), fmt.Sprintf("default %s -> %q", path, alt)})
					}
				case "pattern":
					out = append(out, mutant{with("("), "pattern " + path + " -> ("})
				case "type_id":
					for _, alt := range []any{"no_such_type", "ref", "scope", "object", "list", "integer"} {
						out = append(out, mutant{with(alt), fmt.Sprintf("type_id %s -> %v", path, alt)})
					}
				}
				walk(x[k], fmt.Sprintf("%s.%v", path, k), func(val any) any { return with(val) })
			}
		case []any:
			for i := range x {
				i := i
				walk(x[i], fmt.Sprintf("%s[%d]", path, i), func(val any) any {
					l := make([]any, len(x))
					for j := range x {
						l[j] = ukit.DeepCopy(x[j])
					}
					l[i] = val
					return rebuild(l)
				})
			}
		}
	}
	walk(d, "$", func(with any) any { return with })
	// add a property whose default has another type than the property (parsable JSON, wrong type)
	return out
}

// grammarFree: all trees of depth <= 2 with <= 2 entries over the meta-schema's key vocabulary and a scalar alphabet.
func grammarFree() []mutant {
	keys := []any{"objects", "root", "id", "properties", "type", "type_id", "steps", "items", "keys", "values", "types", "input", "outputs", "schema", "default", int64(1)}
	scalars := []any{nil, "x", "Scope", int64(1), true, []any{}, map[any]any{}}
	var level1 []any
	level1 = append(level1, scalars...)
	for _, k := range keys {
		for _, v := range scalars {
			level1 = append(level1, map[any]any{k: v})
		}
	}
	var out []mutant
	for _, v := range level1 {
		out = append(out, mutant{v, "grammar-free " + ukit.Show(v)})
	}
	for i, k1 := range keys {
		for _, v1 := range level1 {
			if i < 8 || len(out)%3 == 0 {
				out = append(out, mutant{map[any]any{k1: v1}, "grammar-free depth 2"})
			}
			for _, k2 := range keys[:6] {
				if k1 != k2 {
					out = append(out, mutant{map[any]any{k1: v1, k2: "x"}, "grammar-free 2 entries"})
				}
			}
		}
	}
	return out
}

type batch struct {
	Base int    `json:"base"`
	Kind string `json:"kind"` // mutate / free
	Lo   int    `json:"lo"`
	Hi   int    `json:"hi"`
}

type replay struct {
	Base  string `json:"base"`
	What  string `json:"mutation"`
	Entry string `json:"entry"`
	Desc  any    `json:"-"`
	Index int    `json:"index"`
	BaseI int    `json:"base_index"`
	Kind  string `json:"kind"`
	Tier  string `json:"tier"`
	// History marks a finding of the load-history pass: it needs the rejected loads of its whole batch before it
	History bool `json:"history,omitempty"`
	Lo      int  `json:"lo,omitempty"`
	Hi      int  `json:"hi,omitempty"`
}

type helloChannel struct {
	io.Reader
	io.Writer
}

func (helloChannel) Close() error { return nil }

type checker struct {
	res      *ux.Result
	rp       replay
	rejected *[]reload // loads that returned an error, for the load-history pass
}

// reload is one rejected load to be repeated later in the same process.
type reload struct {
	rp   replay
	load func() (any, error)
	use  func(c *checker, sch any)
}

func (c *checker) note(load func() (any, error), use func(c *checker, sch any)) {
	if c.rejected != nil {
		*c.rejected = append(*c.rejected, reload{c.rp, load, use})
	}
}

// historyPass: the verdict of a load must not depend on what was loaded before. Every description that was rejected
// in this batch is loaded again, twice, each time after a garbage collection (so that state kept from the earlier,
// failed loads - pooled scratch data, caches keyed by address - meets recycled memory); it must be rejected again.
func historyPass(res *ux.Result, lo int, rejected []reload) {
	for pass := 0; pass < 2; pass++ {
		runtime.GC()
		for _, r := range rejected {
			if ux.Stop() {
				res.Capped = true
				break
			}
			ux.Progress(r.rp.Index - lo)
			c := &checker{res: res, rp: r.rp}
			c.rp.History = true
			var sch any
			var err error
			if !c.guard("at load time (repeated load)", r.rp.Entry, func() { sch, err = r.load() }) {
				continue
			}
			res.Evaluations++
			if err == nil {
				c.fail("a description that was rejected is accepted when loaded again in the same process ("+r.rp.Entry+")",
					fmt.Sprintf("base %s\nmutation: %s\nfirst load: error; repeated load after other rejected loads and a GC: accepted", r.rp.Base, r.rp.What))
				r.use(c, sch)
			}
		}
	}
}

func (c *checker) fail(sig, detail string) { c.res.Add(sig, detail, c.rp) }

var slowOps = os.Getenv("VERIF_C10_WHOLE") != ""

func (c *checker) guard(phase, what string, f func()) bool {
	t0 := time.Now()
	pan, val, stack := ukit.Call(f)
	if slowOps && time.Since(t0) > 50*time.Millisecond {
		fmt.Printf("SLOW OP %v: %s [%s]\n", time.Since(t0), what, c.rp.What)
	}
	if pan {
		c.fail(fmt.Sprintf("panic %s in %s: %s", phase, lib.PanicSite(stack), firstWords(lib.PanicClass(fmt.Sprint(val)), 6)),
			fmt.Sprintf("base %s\nmutation: %s\n%s panicked: %v", c.rp.Base, c.rp.What, what, val))
	}
	return !pan
}

func firstWords(s string, n int) string {
	w := strings.Fields(s)
	if len(w) > n {
		w = w[:n]
	}
	return strings.Join(w, " ")
}

var hostile = ukit.Hostile()

// exercise: the schema must be total on valid values of the base, their wrong-type neighbours and hostile values.
// unitsIn collects the unit definitions reachable from a loaded schema (exported fields, maps, slices, pointers).
func unitsIn(v reflect.Value, seen map[uintptr]bool, out *[]*schema.UnitsDefinition) {
	switch v.Kind() {
	case reflect.Interface:
		if !v.IsNil() {
			unitsIn(v.Elem(), seen, out)
		}
	case reflect.Pointer:
		if v.IsNil() || !v.CanInterface() || seen[v.Pointer()] {
			return
		}
		seen[v.Pointer()] = true
		if u, ok := v.Interface().(*schema.UnitsDefinition); ok {
			*out = append(*out, u)
			return
		}
		if _, ok := v.Interface().(*regexp.Regexp); ok {
			return
		}
		unitsIn(v.Elem(), seen, out)
	case reflect.Struct:
		for i := 0; i < v.NumField(); i++ {
			if v.Type().Field(i).IsExported() {
				unitsIn(v.Field(i), seen, out)
			}
		}
	case reflect.Map:
		keys := v.MapKeys()
		sort.Slice(keys, func(i, j int) bool { return fmt.Sprint(keys[i]) < fmt.Sprint(keys[j]) })
		for _, k := range keys {
			unitsIn(v.MapIndex(k), seen, out)
		}
	case reflect.Slice:
		for i := 0; i < v.Len(); i++ {
			unitsIn(v.Index(i), seen, out)
		}
	}
}

// exerciseUnits: first use of every unit definition the plugin sent - parsing a count with each of its unit names
// and formatting a few quantities (what an engine does when it reads a workflow and shows a value).
func (c *checker) exerciseUnits(name string, root any) {
	var us []*schema.UnitsDefinition
	unitsIn(reflect.ValueOf(root), map[uintptr]bool{}, &us)
	for ui, u := range us {
		var names []string
		add := func(d *schema.UnitDefinition) {
			if d != nil {
				names = append(names, d.NameShortPluralValue, d.NameLongPluralValue)
			}
		}
		add(u.BaseUnitValue)
		ms := make([]int64, 0, len(u.MultipliersValue))
		for m := range u.MultipliersValue {
			ms = append(ms, m)
		}
		sort.Slice(ms, func(i, j int) bool { return ms[i] < ms[j] })
		for _, m := range ms {
			add(u.MultipliersValue[m])
		}
		for _, n := range names {
			c.res.Evaluations++
			c.guard("on first use", fmt.Sprintf("%s: units #%d ParseInt(\"3%s\")", name, ui, n), func() { _, _ = u.ParseInt("3" + n); _, _ = u.ParseFloat("1.5 " + n) })
		}
		c.res.Evaluations++
		c.guard("on first use", fmt.Sprintf("%s: units #%d formatting", name, ui), func() {
			_ = u.FormatShortInt(3661)
			_ = u.FormatLongInt(3661)
			_ = u.FormatShortFloat(90.5)
			_ = u.FormatLongFloat(90.5)
		})
	}
}

func (c *checker) exercise(name string, sch schema.Scope, values []any) {
	c.exerciseUnits(name, sch)
	c.guard("on first use", name+".SelfSerialize", func() { _, _ = sch.SelfSerialize() })
	c.guard("on first use", name+".ValidateReferences", func() { _ = sch.ValidateReferences() })
	try := func(v any, desc string) {
		c.res.Evaluations++
		c.guard("on first use", fmt.Sprintf("%s.Unserialize(%s)", name, desc), func() {
			u, err := sch.Unserialize(ukit.DeepCopy(v))
			if err == nil {
				_ = sch.Validate(u)
				_, _ = sch.Serialize(u)
			}
		})
		c.guard("on first use", fmt.Sprintf("%s.ValidateCompatibility(%s)", name, desc), func() { _ = sch.ValidateCompatibility(ukit.DeepCopy(v)) })
		c.guard("on first use", fmt.Sprintf("%s.Validate(%s)", name, desc), func() { _ = sch.Validate(v) })
		c.guard("on first use", fmt.Sprintf("%s.Serialize(%s)", name, desc), func() { _, _ = sch.Serialize(v) })
	}
	for _, v := range values {
		try(v, ukit.Show(v))
		if m, ok := v.(map[string]any); ok {
			// one level down: each entry replaced by a few hostile values
			for _, k := range ukit.SortedKeys(m) {
				for _, h := range hostile[:12] {
					n := map[string]any{}
					for a, b := range m {
						n[a] = b
					}
					n[k] = h.V
					try(n, fmt.Sprintf("valid with %s at %s", h.Name, k))
				}
			}
		}
	}
	for _, h := range hostile {
		if h.Decoder {
			try(h.V, h.Name)
		}
	}
}

func (c *checker) checkScope(b base, m mutant, values []any) {
	for _, entry := range []string{"UnserializeScope"} {
		c.rp.Entry = entry
		var sch *schema.ScopeSchema
		var err error
		if !c.guard("at load time", entry, func() { sch, err = schema.UnserializeScope(ukit.DeepCopy(m.Desc)) }) {
			continue
		}
		c.res.Evaluations++
		if err != nil {
			c.res.Count("rejected_with_error", 1)
			c.note(func() (any, error) { return schema.UnserializeScope(ukit.DeepCopy(m.Desc)) },
				func(c *checker, sch any) { c.exercise("scope", sch.(*schema.ScopeSchema), values) })
			continue
		}
		c.res.Count("accepted", 1)
		c.res.Nontrivial++
		c.exercise("scope", sch, values)
	}
}

func (c *checker) checkPlugin(b base, m mutant, values []any) {
	entries := map[string]func() (*schema.SchemaSchema, error){
		"UnserializeSchema": func() (*schema.SchemaSchema, error) { return schema.UnserializeSchema(ukit.DeepCopy(m.Desc)) },
		"Client.ReadSchema": func() (*schema.SchemaSchema, error) {
			hb, err := cbor.Marshal(atp.HelloMessage{Version: atp.ProtocolVersion, Schema: m.Desc})
			if err != nil {
				return nil, err
			}
			return atp.NewClient(helloChannel{bytes.NewReader(hb), io.Discard}).ReadSchema()
		},
	}
	for _, entry := range []string{"UnserializeSchema", "Client.ReadSchema"} {
		c.rp.Entry = entry
		var sch *schema.SchemaSchema
		var err error
		if !c.guard("at load time", entry, func() { sch, err = entries[entry]() }) {
			continue
		}
		c.res.Evaluations++
		if err != nil {
			c.res.Count("rejected_with_error", 1)
			f := entries[entry]
			c.note(func() (any, error) { return f() }, func(c *checker, sch any) { c.usePlugin(sch.(*schema.SchemaSchema), values) })
			continue
		}
		c.res.Count("accepted", 1)
		c.res.Nontrivial++
		c.usePlugin(sch, values)
	}
}

func (c *checker) usePlugin(sch *schema.SchemaSchema, values []any) {
	{
		c.guard("on first use", "SelfSerialize", func() { _, _ = sch.SelfSerialize() })
		for id, st := range sch.StepsValue {
			if st == nil {
				continue
			}
			if st.InputValue != nil {
				c.exercise("step "+id+" input", st.InputValue, values)
			}
			for oid, o := range st.OutputsValue {
				if o != nil && o.SchemaValue != nil {
					c.exercise("step "+id+" output "+oid, o.SchemaValue, values[:1])
				}
			}
			for sid, sg := range st.SignalHandlersValue {
				if sg != nil && sg.DataSchemaValue != nil {
					c.exercise("step "+id+" signal "+sid, sg.DataSchemaValue, values[:1])
				}
			}
			for sid, sg := range st.SignalEmittersValue {
				if sg != nil && sg.DataSchemaValue != nil {
					c.exercise("step "+id+" emitter "+sid, sg.DataSchemaValue, values[:1])
				}
			}
		}
	}
}

func cases(b base, kind, tier string) []mutant {
	if kind == "free" {
		return grammarFree()
	}
	return mutants(b.Desc, tier)
}

// structural reports whether a targeted mutation is used as the first of a pair (duplicated entries are not: the
// meta-schema rejects every undeclared key at once, so nothing can hide behind them).
func structural(m mutant) bool { return !strings.HasPrefix(m.What, "duplicate ") }

// batchCases returns the mutants a batch iterates over and the index range within them. Double mutations (thorough
// tier) are enumerated per first mutation: the batch names a range of targeted first mutations, and its cases are all
// targeted mutations of each of those already mutated descriptions.
func batchCases(bb base, b batch, tier string) (ms []mutant, lo, hi int) {
	if b.Kind != "double" {
		ms = cases(bb, b.Kind, tier)
		hi = b.Hi
		if hi > len(ms) {
			hi = len(ms)
		}
		return ms, b.Lo, hi
	}
	first := targeted(bb.Desc)
	for i := b.Lo; i < b.Hi && i < len(first); i++ {
		if !structural(first[i]) {
			continue
		}
		for _, m2 := range targeted(first[i].Desc) {
			if structural(m2) {
				ms = append(ms, mutant{m2.Desc, first[i].What + "  AND  " + m2.What})
			}
		}
	}
	return ms, 0, len(ms)
}

func runRange(tier string, b batch, res *ux.Result, onlyIdx int) {
	runRangeFrom(tier, b, 0, res, onlyIdx)
}

func runRangeFrom(tier string, b batch, from int, res *ux.Result, onlyIdx int) {
	bs := bases(tier)
	bb := bs[b.Base]
	ms, lo, hi := batchCases(bb, b, tier)
	values := ukit.ValidValues(bb.Spec, 2)
	raws := ukit.RawValues(bb.Spec)
	want := 8
	if tier == "thorough" {
		want = 40
	}
	for i := 0; i < len(raws) && len(values) < want; i += len(raws)/(want-2) + 1 {
		values = append(values, raws[i])
	}
	if len(values) == 0 {
		values = []any{map[string]any{}}
	}
	var rejected []reload
	for i := lo + from; i < hi; i++ {
		if onlyIdx >= 0 && i != onlyIdx {
			continue
		}
		if ux.Stop() {
			res.Capped = true
			break
		}
		ux.Progress(i - lo)
		c := &checker{res: res, rp: replay{Base: bb.Name, What: ms[i].What, Index: i, BaseI: b.Base, Kind: b.Kind, Tier: tier, Lo: b.Lo, Hi: b.Hi}}
		if onlyIdx < 0 {
			c.rejected = &rejected
		}
		if bb.Kind == "plugin" && b.Kind != "free" {
			c.checkPlugin(bb, ms[i], values)
		} else {
			c.checkScope(bb, ms[i], values)
			if b.Kind == "free" {
				c.checkPlugin(bb, ms[i], values)
			}
		}
	}
	if onlyIdx < 0 {
		historyPass(res, lo, rejected)
	}
}

func main() {
	if v := os.Getenv("VERIF_C10_BATCH"); v != "" {
		// debugging aid: run one batch in this process and report slow cases
		var b batch
		_ = json.Unmarshal([]byte(v), &b)
		bb := bases("thorough")[b.Base]
		ms, lo, hi := batchCases(bb, b, "thorough")
		fmt.Println("base", bb.Name, "cases", hi-lo)
		if os.Getenv("VERIF_C10_WHOLE") != "" {
			t0 := time.Now()
			var res ux.Result
			go func() {
				for {
					time.Sleep(5 * time.Second)
					fmt.Println("  ...", time.Since(t0), "evaluations", res.Evaluations)
				}
			}()
			runRangeFrom("thorough", b, 0, &res, -1)
			fmt.Println("whole batch:", time.Since(t0), "evaluations", res.Evaluations, "findings", len(res.Findings))
			return
		}
		for i := lo; i < hi; i++ {
			t0 := time.Now()
			done := make(chan struct{})
			go func() {
				var res ux.Result
				runRangeFrom("thorough", b, 0, &res, i)
				close(done)
			}()
			select {
			case <-done:
			case <-time.After(20 * time.Second):
				fmt.Println("SLOW (>20s):", i, ms[i].What)
				fmt.Println(ukit.Show(ms[i].Desc))
				os.Exit(0)
			}
			if d := time.Since(t0); d > time.Second {
				fmt.Println("slow", i, d, ms[i].What)
			}
		}
		return
	}
	ux.Main(ux.Harness{
		Property:    "C10",
		Level:       "fault_enumeration",
		Exhaustive:  true,
		MemLimitKB:  6 << 20,
		TaskTimeout: 300 * time.Second,
		Batches: func(tier string) []any {
			var out []any
			for bi, b := range bases(tier) {
				n := len(mutants(b.Desc, tier))
				for lo := 0; lo < n; lo += 400 {
					out = append(out, batch{bi, "mutate", lo, lo + 400})
				}
			}
			n := len(grammarFree())
			for lo := 0; lo < n; lo += 400 {
				out = append(out, batch{0, "free", lo, lo + 400})
			}
			if tier == "thorough" {
				// double mutations: every pair of targeted mutations (the second applied to the already mutated description)
				for bi, b := range bases(tier) {
					n := len(targeted(b.Desc))
					for lo := 0; lo < n; lo += 1 {
						out = append(out, batch{bi, "double", lo, lo + 1})
					}
				}
			}
			return out
		},
		Run: func(tier string, raw json.RawMessage, from int, deadline time.Time) ux.Result {
			var b batch
			_ = json.Unmarshal(raw, &b)
			var res ux.Result
			runRangeFrom(tier, b, from, &res, -1)
			if b.Lo == 0 && b.Base%5 == 0 && b.Kind != "double" {
				ms, _, _ := batchCases(bases(tier)[b.Base], b, tier)
				res.Samples = append(res.Samples, map[string]any{"base": bases(tier)[b.Base].Name, "mutations": len(ms), "example": ms[len(ms)/2].What})
			}
			return res
		},
		CaseName: func(tier string, raw json.RawMessage, i int) (string, any) {
			var b batch
			_ = json.Unmarshal(raw, &b)
			bb := bases(tier)[b.Base]
			ms, lo, _ := batchCases(bb, b, tier)
			idx := lo + i
			if idx >= len(ms) {
				return "?", nil
			}
			return fmt.Sprintf("base %s, mutation %s", bb.Name, ms[idx].What), replay{Base: bb.Name, What: ms[idx].What, Index: idx, BaseI: b.Base, Kind: b.Kind, Tier: tier, Lo: b.Lo, Hi: b.Hi}
		},
		Replay: func(raw json.RawMessage) []ux.Finding {
			var r replay
			if json.Unmarshal(raw, &r) != nil {
				return nil
			}
			var res ux.Result
			if r.History {
				// needs the failed loads that came before it: the whole batch is run again
				runRange(r.Tier, batch{r.BaseI, r.Kind, r.Lo, r.Hi}, &res, -1)
				return res.Findings
			}
			if r.Kind == "double" {
				runRange(r.Tier, batch{r.BaseI, r.Kind, r.Lo, r.Hi}, &res, r.Index)
				return res.Findings
			}
			runRange(r.Tier, batch{r.BaseI, r.Kind, 0, 1 << 30}, &res, r.Index)
			return res.Findings
		},
		Rule: "base descriptions: self-descriptions (CBOR-normalised) of ~18 scopes (references under properties / lists / maps / one-of, recursive and mutually recursive objects, nested scope with colliding ids, struct-mapped objects, all one-of flavours, an object with units, patterns, enums with display names, defaults and every presence rule) (thorough: plus the depth-2 universe) and one whole plugin schema; every single mutation at every node: value retyped to each of 12 alien values, key replaced (by a foreign name, 1, the empty string, true, -1, 0, 1.5, NaN), entry deleted, entry duplicated, id / root / namespace / discriminator re-pointed, inlining flag flipped, default replaced by unparsable JSON, pattern replaced by '(', type_id replaced; thorough: every pair of targeted mutations; plus a grammar-free family of ~3000 trees of depth <= 2 over the meta-schema's key vocabulary; entry points UnserializeScope, UnserializeSchema and Client.ReadSchema (real hello bytes); every schema that is returned is exercised: first use of every unit definition in it (parsing a count with each unit name, formatting), SelfSerialize, ValidateReferences, and the four operations on valid values of the base, the same with hostile values one level down, and hostile values at top level; load history: every description rejected in a batch of 400 is loaded again twice in the same process, each time after a garbage collection, and must be rejected again (whatever is returned is exercised); non-trivial = mutants that were accepted (and therefore exercised)",
		Assumptions: []string{
			"quick tier: single mutations; thorough tier: also every pair of targeted mutations (delete, re-point, flip, unparsable default, bad pattern, type_id), the second applied to the already mutated description; pairs involving retyped values or duplicated entries are not enumerated",
			"a panic at load time or on first use is a violation; errors are the expected outcome",
		},
	})
}
