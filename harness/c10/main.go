// C10: a schema received from a plugin is rejected with an error or fully usable.
//
// Base descriptions are the self-descriptions of the C09 universe. Every single structural mutation at
// every node (thorough: pairs at selected nodes) and a grammar-free family of small trees are fed to
// UnserializeScope / UnserializeSchema / Client.ReadSchema; whatever schema comes back is exercised with
// the total-operation harness of C04.
package main

import (
	"bytes"
	"encoding/json"
	"fmt"
	"io"
	"runtime"
	"strings"
	"time"

	"github.com/fxamacker/cbor/v2"
	"go.flow.arcalot.io/pluginsdk/atp"
	"go.flow.arcalot.io/pluginsdk/schema"
	"verif/engine/lib"
	"verif/engine/ux"
	"verif/harness/ukit"
)

func canon(d any) any {
	b, err := cbor.Marshal(d)
	if err != nil {
		panic(err)
	}
	var out any
	if err := cbor.Unmarshal(b, &out); err != nil {
		panic(err)
	}
	return out
}

type base struct {
	Name string
	Spec *ukit.Spec // for value generation (scope bases)
	Desc any
	Kind string // scope / plugin
}

func bases(tier string) []base {
	var out []base
	add := func(s *ukit.Spec) {
		w := ukit.WrapScope(s)
		var d any
		pan, _, _ := ukit.Call(func() {
			sc := ukit.BuildScope(w)
			var err error
			d, err = sc.SelfSerialize()
			if err != nil {
				d = nil
			}
		})
		if pan || d == nil {
			return
		}
		ukit.Link(w)
		out = append(out, base{w.String(), w, canon(d), "scope"})
	}
	// a reduced but representative set: one scope per feature
	for _, s := range ukit.ScopeSpecs() {
		add(s)
	}
	for _, s := range ukit.OneOfSpecs() {
		add(s)
	}
	add(ukit.MapObjA("A"))
	// objects whose id is not enforced (as root, as nested-scope root and as list item scope)
	un := func(id string) *ukit.Spec {
		return &ukit.Spec{Kind: ukit.KObject, ID: id, Unenforced: true, Props: []ukit.Prop{{Name: "k", Type: &ukit.Spec{Kind: ukit.KString}, Required: true}}}
	}
	add(&ukit.Spec{Kind: ukit.KScope, Root: "U", Objects: []*ukit.Spec{
		{Kind: ukit.KObject, ID: "U", Unenforced: true, Props: []ukit.Prop{
			{Name: "nested", Type: &ukit.Spec{Kind: ukit.KScope, Root: "N", Objects: []*ukit.Spec{un("N")}}},
			{Name: "items", Type: &ukit.Spec{Kind: ukit.KList, Item: &ukit.Spec{Kind: ukit.KScope, Root: "I", Objects: []*ukit.Spec{un("I")}}}},
			{Name: "r", Type: &ukit.Spec{Kind: ukit.KRef, RefID: "V"}},
		}},
		un("V"),
	}})
	add(&ukit.Spec{Kind: ukit.KObject, ID: "Mix", Props: []ukit.Prop{
		{Name: "i", Type: &ukit.Spec{Kind: ukit.KInt, Min: ukit.I64(0), Max: ukit.I64(5), Units: "sec"}, Default: ukit.Str("2")},
		{Name: "s", Type: &ukit.Spec{Kind: ukit.KString, Min: ukit.I64(1), Pattern: "^a+$"}, Required: true},
		{Name: "e", Type: &ukit.Spec{Kind: ukit.KStrEnum, EnumS: []string{"a", "b"}, EnumNames: map[string]string{"a": "A"}}, RequiredIf: []string{"i"}},
		{Name: "l", Type: &ukit.Spec{Kind: ukit.KList, Item: &ukit.Spec{Kind: ukit.KFloat, FMax: ukit.F64(1)}, Max: ukit.I64(2)}, Conflicts: []string{"m"}},
		{Name: "m", Type: &ukit.Spec{Kind: ukit.KMap, Key: &ukit.Spec{Kind: ukit.KInt}, Val: &ukit.Spec{Kind: ukit.KAny}}, Disabled: true},
		{Name: "p", Type: &ukit.Spec{Kind: ukit.KPattern}},
		{Name: "b", Type: &ukit.Spec{Kind: ukit.KBool}, Default: ukit.Str("true")},
	}})
	if tier == "thorough" {
		for _, s := range ukit.Depth2(false) {
			add(s)
		}
	}
	// one whole plugin schema
	ss := ukit.ScopeSpecs()
	steps := map[string]*schema.StepSchema{
		"s1": schema.NewStepSchema("s1", ukit.BuildScope(ss[0]),
			map[string]*schema.StepOutputSchema{"success": schema.NewStepOutputSchema(ukit.BuildScope(ss[2]), nil, false)},
			map[string]*schema.SignalSchema{"sig": schema.NewSignalSchema("sig", ukit.BuildScope(ss[4]), nil)}, nil, nil),
	}
	pd, err := schema.NewSchema(steps).SelfSerialize()
	if err == nil {
		out = append(out, base{"plugin(s1)", ss[0], canon(pd), "plugin"})
	}
	return out
}

// mutation alphabet applied at a position
var retypes = []any{nil, true, int64(7), "text", []any{}, map[any]any{}, []any{"x"}, map[any]any{"k": "v"}, int64(-1), "", uint64(1 << 63), 1.5}

type mutant struct {
	Desc any
	What string
}

func mutants(d any, tier string) []mutant {
	var out []mutant
	for _, pos := range ukit.Positions(d) {
		if pos.IsKey {
			// rename the key / duplicate semantics are covered below; here: key replaced by odd keys
			for _, k := range []any{"renamed_key", int64(1), "", true} {
				if m := pos.Replace(k); m != nil {
					out = append(out, mutant{m, fmt.Sprintf("key at %s -> %s", pos.Path, ukit.Show(k))})
				}
			}
			continue
		}
		for _, r := range retypes {
			out = append(out, mutant{pos.Replace(ukit.DeepCopy(r)), fmt.Sprintf("value at %s -> %s", pos.Path, ukit.Show(r))})
		}
	}
	// targeted: delete key, duplicate under another key, re-point references, flip inlining, bad default, bad pattern
	var walk func(v any, path string, rebuild func(with any) any)
	walk = func(v any, path string, rebuild func(with any) any) {
		switch x := v.(type) {
		case map[any]any:
			for _, k := range ukit.SortedAnyKeys(x) {
				k := k
				without := map[any]any{}
				for a, b := range x {
					if a != k {
						without[a] = ukit.DeepCopy(b)
					}
				}
				out = append(out, mutant{rebuild(without), fmt.Sprintf("delete %s.%v", path, k)})
				dup := map[any]any{}
				for a, b := range x {
					dup[a] = ukit.DeepCopy(b)
				}
				dup["duplicate_of_"+fmt.Sprint(k)] = ukit.DeepCopy(x[k])
				out = append(out, mutant{rebuild(dup), fmt.Sprintf("duplicate %s.%v", path, k)})
				with := func(val any) any {
					m := map[any]any{}
					for a, b := range x {
						m[a] = ukit.DeepCopy(b)
					}
					m[k] = val
					return rebuild(m)
				}
				switch k {
				case "id", "root", "namespace", "discriminator_field_name":
					for _, alt := range []any{"NoSuchObject", "", "other_ns"} {
						out = append(out, mutant{with(alt), fmt.Sprintf("re-point %s.%v -> %v", path, k, alt)})
					}
				case "discriminator_inlined":
					if b, ok := x[k].(bool); ok {
						out = append(out, mutant{with(!b), fmt.Sprintf("flip %s.%v", path, k)})
					}
				case "default":
					for _, alt := range []any{"{not json", "\"unterminated", "[1,", "nul"} {
						out = append(out, mutant{with(alt), fmt.Sprintf("default %s -> %q", path, alt)})
					}
				case "pattern":
					out = append(out, mutant{with("("), "pattern " + path + " -> ("})
				case "type_id":
					for _, alt := range []any{"no_such_type", "ref", "scope", "object", "list", "integer"} {
						out = append(out, mutant{with(alt), fmt.Sprintf("type_id %s -> %v", path, alt)})
					}
				}
				walk(x[k], fmt.Sprintf("%s.%v", path, k), func(val any) any { return with(val) })
			}
		case []any:
			for i := range x {
				i := i
				walk(x[i], fmt.Sprintf("%s[%d]", path, i), func(val any) any {
					l := make([]any, len(x))
					for j := range x {
						l[j] = ukit.DeepCopy(x[j])
					}
					l[i] = val
					return rebuild(l)
				})
			}
		}
	}
	walk(d, "$", func(with any) any { return with })
	// add a property whose default has another type than the property (parsable JSON, wrong type)
	return out
}

// grammarFree: all trees of depth <= 2 with <= 2 entries over the meta-schema's key vocabulary and a scalar alphabet.
func grammarFree() []mutant {
	keys := []any{"objects", "root", "id", "properties", "type", "type_id", "steps", "items", "keys", "values", "types", "input", "outputs", "schema", "default", int64(1)}
	scalars := []any{nil, "x", "Scope", int64(1), true, []any{}, map[any]any{}}
	var level1 []any
	level1 = append(level1, scalars...)
	for _, k := range keys {
		for _, v := range scalars {
			level1 = append(level1, map[any]any{k: v})
		}
	}
	var out []mutant
	for _, v := range level1 {
		out = append(out, mutant{v, "grammar-free " + ukit.Show(v)})
	}
	for i, k1 := range keys {
		for _, v1 := range level1 {
			if i < 8 || len(out)%3 == 0 {
				out = append(out, mutant{map[any]any{k1: v1}, "grammar-free depth 2"})
			}
			for _, k2 := range keys[:6] {
				if k1 != k2 {
					out = append(out, mutant{map[any]any{k1: v1, k2: "x"}, "grammar-free 2 entries"})
				}
			}
		}
	}
	return out
}

type batch struct {
	Base int    `json:"base"`
	Kind string `json:"kind"` // mutate / free
	Lo   int    `json:"lo"`
	Hi   int    `json:"hi"`
}

type replay struct {
	Base  string `json:"base"`
	What  string `json:"mutation"`
	Entry string `json:"entry"`
	Desc  any    `json:"-"`
	Index int    `json:"index"`
	BaseI int    `json:"base_index"`
	Kind  string `json:"kind"`
	Tier  string `json:"tier"`
	// History marks a finding of the load-history pass: it needs the rejected loads of its whole batch before it
	History bool `json:"history,omitempty"`
	Lo      int  `json:"lo,omitempty"`
	Hi      int  `json:"hi,omitempty"`
}

type helloChannel struct {
	io.Reader
	io.Writer
}

func (helloChannel) Close() error { return nil }

type checker struct {
	res      *ux.Result
	rp       replay
	rejected *[]reload // loads that returned an error, for the load-history pass
}

// reload is one rejected load to be repeated later in the same process.
type reload struct {
	rp   replay
	load func() (any, error)
	use  func(c *checker, sch any)
}

func (c *checker) note(load func() (any, error), use func(c *checker, sch any)) {
	if c.rejected != nil {
		*c.rejected = append(*c.rejected, reload{c.rp, load, use})
	}
}

// historyPass: the verdict of a load must not depend on what was loaded before. Every description that was rejected
// in this batch is loaded again, twice, each time after a garbage collection (so that state kept from the earlier,
// failed loads - pooled scratch data, caches keyed by address - meets recycled memory); it must be rejected again.
func historyPass(res *ux.Result, lo int, rejected []reload) {
	for pass := 0; pass < 2; pass++ {
		runtime.GC()
		for _, r := range rejected {
			if ux.Stop() {
				res.Capped = true
				break
			}
			ux.Progress(r.rp.Index - lo)
			c := &checker{res: res, rp: r.rp}
			c.rp.History = true
			var sch any
			var err error
			if !c.guard("at load time (repeated load)", r.rp.Entry, func() { sch, err = r.load() }) {
				continue
			}
			res.Evaluations++
			if err == nil {
				c.fail("a description that was rejected is accepted when loaded again in the same process ("+r.rp.Entry+")",
					fmt.Sprintf("base %s\nmutation: %s\nfirst load: error; repeated load after other rejected loads and a GC: accepted", r.rp.Base, r.rp.What))
				r.use(c, sch)
			}
		}
	}
}

func (c *checker) fail(sig, detail string) { c.res.Add(sig, detail, c.rp) }

func (c *checker) guard(phase, what string, f func()) bool {
	pan, val, stack := ukit.Call(f)
	if pan {
		c.fail(fmt.Sprintf("panic %s in %s: %s", phase, lib.PanicSite(stack), firstWords(lib.PanicClass(fmt.Sprint(val)), 6)),
			fmt.Sprintf("base %s\nmutation: %s\n%s panicked: %v", c.rp.Base, c.rp.What, what, val))
	}
	return !pan
}

func firstWords(s string, n int) string {
	w := strings.Fields(s)
	if len(w) > n {
		w = w[:n]
	}
	return strings.Join(w, " ")
}

var hostile = ukit.Hostile()

// exercise: the schema must be total on valid values of the base, their wrong-type neighbours and hostile values.
func (c *checker) exercise(name string, sch schema.Scope, values []any) {
	c.guard("on first use", name+".SelfSerialize", func() { _, _ = sch.SelfSerialize() })
	c.guard("on first use", name+".ValidateReferences", func() { _ = sch.ValidateReferences() })
	try := func(v any, desc string) {
		c.res.Evaluations++
		c.guard("on first use", fmt.Sprintf("%s.Unserialize(%s)", name, desc), func() {
			u, err := sch.Unserialize(ukit.DeepCopy(v))
			if err == nil {
				_ = sch.Validate(u)
				_, _ = sch.Serialize(u)
			}
		})
		c.guard("on first use", fmt.Sprintf("%s.ValidateCompatibility(%s)", name, desc), func() { _ = sch.ValidateCompatibility(ukit.DeepCopy(v)) })
		c.guard("on first use", fmt.Sprintf("%s.Validate(%s)", name, desc), func() { _ = sch.Validate(v) })
		c.guard("on first use", fmt.Sprintf("%s.Serialize(%s)", name, desc), func() { _, _ = sch.Serialize(v) })
	}
	for _, v := range values {
		try(v, ukit.Show(v))
		if m, ok := v.(map[string]any); ok {
			// one level down: each entry replaced by a few hostile values
			for k := range m {
				for _, h := range hostile[:12] {
					n := map[string]any{}
					for a, b := range m {
						n[a] = b
					}
					n[k] = h.V
					try(n, fmt.Sprintf("valid with %s at %s", h.Name, k))
				}
			}
		}
	}
	for _, h := range hostile {
		if h.Decoder {
			try(h.V, h.Name)
		}
	}
}

func (c *checker) checkScope(b base, m mutant, values []any) {
	for _, entry := range []string{"UnserializeScope"} {
		c.rp.Entry = entry
		var sch *schema.ScopeSchema
		var err error
		if !c.guard("at load time", entry, func() { sch, err = schema.UnserializeScope(ukit.DeepCopy(m.Desc)) }) {
			continue
		}
		c.res.Evaluations++
		if err != nil {
			c.res.Count("rejected_with_error", 1)
			c.note(func() (any, error) { return schema.UnserializeScope(ukit.DeepCopy(m.Desc)) },
				func(c *checker, sch any) { c.exercise("scope", sch.(*schema.ScopeSchema), values) })
			continue
		}
		c.res.Count("accepted", 1)
		c.res.Nontrivial++
		c.exercise("scope", sch, values)
	}
}

func (c *checker) checkPlugin(b base, m mutant, values []any) {
	entries := map[string]func() (*schema.SchemaSchema, error){
		"UnserializeSchema": func() (*schema.SchemaSchema, error) { return schema.UnserializeSchema(ukit.DeepCopy(m.Desc)) },
		"Client.ReadSchema": func() (*schema.SchemaSchema, error) {
			hb, err := cbor.Marshal(atp.HelloMessage{Version: atp.ProtocolVersion, Schema: m.Desc})
			if err != nil {
				return nil, err
			}
			return atp.NewClient(helloChannel{bytes.NewReader(hb), io.Discard}).ReadSchema()
		},
	}
	for _, entry := range []string{"UnserializeSchema", "Client.ReadSchema"} {
		c.rp.Entry = entry
		var sch *schema.SchemaSchema
		var err error
		if !c.guard("at load time", entry, func() { sch, err = entries[entry]() }) {
			continue
		}
		c.res.Evaluations++
		if err != nil {
			c.res.Count("rejected_with_error", 1)
			f := entries[entry]
			c.note(func() (any, error) { return f() }, func(c *checker, sch any) { c.usePlugin(sch.(*schema.SchemaSchema), values) })
			continue
		}
		c.res.Count("accepted", 1)
		c.res.Nontrivial++
		c.usePlugin(sch, values)
	}
}

func (c *checker) usePlugin(sch *schema.SchemaSchema, values []any) {
	{
		c.guard("on first use", "SelfSerialize", func() { _, _ = sch.SelfSerialize() })
		for id, st := range sch.StepsValue {
			if st == nil {
				continue
			}
			if st.InputValue != nil {
				c.exercise("step "+id+" input", st.InputValue, values)
			}
			for oid, o := range st.OutputsValue {
				if o != nil && o.SchemaValue != nil {
					c.exercise("step "+id+" output "+oid, o.SchemaValue, values[:1])
				}
			}
			for sid, sg := range st.SignalHandlersValue {
				if sg != nil && sg.DataSchemaValue != nil {
					c.exercise("step "+id+" signal "+sid, sg.DataSchemaValue, values[:1])
				}
			}
			for sid, sg := range st.SignalEmittersValue {
				if sg != nil && sg.DataSchemaValue != nil {
					c.exercise("step "+id+" emitter "+sid, sg.DataSchemaValue, values[:1])
				}
			}
		}
	}
}

func cases(b base, kind, tier string) []mutant {
	if kind == "free" {
		return grammarFree()
	}
	return mutants(b.Desc, tier)
}

func runRange(tier string, b batch, res *ux.Result, onlyIdx int) {
	runRangeFrom(tier, b, 0, res, onlyIdx)
}

func runRangeFrom(tier string, b batch, from int, res *ux.Result, onlyIdx int) {
	bs := bases(tier)
	bb := bs[b.Base]
	ms := cases(bb, b.Kind, tier)
	values := ukit.ValidValues(bb.Spec, 2)
	raws := ukit.RawValues(bb.Spec)
	for i := 0; i < len(raws) && len(values) < 8; i += len(raws)/6 + 1 {
		values = append(values, raws[i])
	}
	if len(values) == 0 {
		values = []any{map[string]any{}}
	}
	hi := b.Hi
	if hi > len(ms) {
		hi = len(ms)
	}
	var rejected []reload
	for i := b.Lo + from; i < hi; i++ {
		if onlyIdx >= 0 && i != onlyIdx {
			continue
		}
		if ux.Stop() {
			res.Capped = true
			break
		}
		ux.Progress(i - b.Lo)
		c := &checker{res: res, rp: replay{Base: bb.Name, What: ms[i].What, Index: i, BaseI: b.Base, Kind: b.Kind, Tier: tier, Lo: b.Lo, Hi: b.Hi}}
		if onlyIdx < 0 {
			c.rejected = &rejected
		}
		if bb.Kind == "plugin" && b.Kind != "free" {
			c.checkPlugin(bb, ms[i], values)
		} else {
			c.checkScope(bb, ms[i], values)
			if b.Kind == "free" {
				c.checkPlugin(bb, ms[i], values)
			}
		}
	}
	if onlyIdx < 0 {
		historyPass(res, b.Lo, rejected)
	}
}

func main() {
	ux.Main(ux.Harness{
		Property:    "C10",
		Level:       "fault_enumeration",
		Exhaustive:  true,
		MemLimitKB:  6 << 20,
		TaskTimeout: 300 * time.Second,
		Batches: func(tier string) []any {
			var out []any
			for bi, b := range bases(tier) {
				n := len(mutants(b.Desc, tier))
				for lo := 0; lo < n; lo += 400 {
					out = append(out, batch{bi, "mutate", lo, lo + 400})
				}
			}
			n := len(grammarFree())
			for lo := 0; lo < n; lo += 400 {
				out = append(out, batch{0, "free", lo, lo + 400})
			}
			return out
		},
		Run: func(tier string, raw json.RawMessage, from int, deadline time.Time) ux.Result {
			var b batch
			_ = json.Unmarshal(raw, &b)
			var res ux.Result
			runRangeFrom(tier, b, from, &res, -1)
			if b.Lo == 0 && b.Base%5 == 0 {
				ms := cases(bases(tier)[b.Base], b.Kind, tier)
				res.Samples = append(res.Samples, map[string]any{"base": bases(tier)[b.Base].Name, "mutations": len(ms), "example": ms[len(ms)/2].What})
			}
			return res
		},
		CaseName: func(tier string, raw json.RawMessage, i int) (string, any) {
			var b batch
			_ = json.Unmarshal(raw, &b)
			bb := bases(tier)[b.Base]
			ms := cases(bb, b.Kind, tier)
			idx := b.Lo + i
			if idx >= len(ms) {
				return "?", nil
			}
			return fmt.Sprintf("base %s, mutation %s", bb.Name, ms[idx].What), replay{Base: bb.Name, What: ms[idx].What, Index: idx, BaseI: b.Base, Kind: b.Kind, Tier: tier}
		},
		Replay: func(raw json.RawMessage) []ux.Finding {
			var r replay
			if json.Unmarshal(raw, &r) != nil {
				return nil
			}
			var res ux.Result
			if r.History {
				// needs the failed loads that came before it: the whole batch is run again
				runRange(r.Tier, batch{r.BaseI, r.Kind, r.Lo, r.Hi}, &res, -1)
				return res.Findings
			}
			runRange(r.Tier, batch{r.BaseI, r.Kind, 0, 1 << 30}, &res, r.Index)
			return res.Findings
		},
		Rule: "base descriptions: self-descriptions (CBOR-normalised) of ~18 scopes (references under properties / lists / maps / one-of, recursive and mutually recursive objects, nested scope with colliding ids, struct-mapped objects, all one-of flavours, an object with units, patterns, enums with display names, defaults and every presence rule) (thorough: plus the depth-2 universe) and one whole plugin schema; every single mutation at every node: value retyped to each of 12 alien values, key replaced, entry deleted, entry duplicated, id / root / namespace / discriminator re-pointed, inlining flag flipped, default replaced by unparsable JSON, pattern replaced by '(', type_id replaced; plus a grammar-free family of ~3000 trees of depth <= 2 over the meta-schema's key vocabulary; entry points UnserializeScope, UnserializeSchema and Client.ReadSchema (real hello bytes); every schema that is returned is exercised: SelfSerialize, ValidateReferences, and the four operations on valid values of the base, the same with hostile values one level down, and hostile values at top level; load history: every description rejected in a batch of 400 is loaded again twice in the same process, each time after a garbage collection, and must be rejected again (whatever is returned is exercised); non-trivial = mutants that were accepted (and therefore exercised)",
		Assumptions: []string{
			"single mutation per description (double mutations are not enumerated)",
			"a panic at load time or on first use is a violation; errors are the expected outcome",
		},
	})
}
