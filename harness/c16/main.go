// C16: unit formatting and parsing are inverse; parsing never returns a wrong number.
//
// Exhaustive enumeration over the five built-in unit sets and generated definitions: every integer of
// [0, 200000], powers of ten, multiplier boundaries, the 63-bit edge; floats on two grids; every
// well-formed string of <= 3 components over a count alphabet with optional spaces; near misses.
package main

import (
	"encoding/json"
	"fmt"
	"math"
	"sort"
	"strconv"
	"strings"
	"time"

	"go.flow.arcalot.io/pluginsdk/mcrt"
	"go.flow.arcalot.io/pluginsdk/schema"
	"verif/engine/lib"
	"verif/engine/ux"
	"verif/harness/ukit"
)

type unitDef struct {
	Name  string
	Base  [4]string // short singular, short plural, long singular, long plural
	Mults map[int64][4]string
}

func builtin(name string, u *schema.UnitsDefinition) unitDef {
	d := unitDef{Name: name, Mults: map[int64][4]string{}}
	b := u.BaseUnitValue
	d.Base = [4]string{b.NameShortSingularValue, b.NameShortPluralValue, b.NameLongSingularValue, b.NameLongPluralValue}
	for m, x := range u.MultipliersValue {
		d.Mults[m] = [4]string{x.NameShortSingularValue, x.NameShortPluralValue, x.NameLongSingularValue, x.NameLongPluralValue}
	}
	return d
}

func defs() []unitDef {
	out := []unitDef{
		builtin("seconds", schema.UnitDurationSeconds),
		builtin("bytes", schema.UnitBytes),
		builtin("nanoseconds", schema.UnitDurationNanoseconds),
		builtin("characters", schema.UnitCharacters),
		builtin("percent", schema.UnitPercentage),
	}
	// generated: multiplier sets over {2,10,60,1000}; names that are prefixes of each other; regexp metacharacters
	nameSets := [][][4]string{
		{{"a", "as", "al", "als"}, {"ab", "abs", "abl", "abls"}, {"abc", "abcs", "abcl", "abcls"}, {"abcd", "abcds", "abcdl", "abcdls"}},
		{{"c.", "c.s", "c.long", "c.longs"}, {"d+", "d+s", "d+long", "d+longs"}, {"(e", "(es", "(elong", "(elongs"}, {"f|g", "f|gs", "f$", "f$s"}},
		// names with a space inside
		{{"l y", "l ys", "light year", "light years"}, {"k y", "k ys", "kilo year", "kilo years"}, {"m y", "m ys", "mega year", "mega years"}, {"g y", "g ys", "giga year", "giga years"}},
		// a LATER name of a unit is a proper part of an EARLIER one (the four names are held in the order short singular,
		// short plural, long singular, long plural)
		{{"pcs", "pc", "pieces", "piece"}, {"boxes", "box", "cartons", "carton"}, {"pallets", "pallet", "stacks", "stack"}, {"trucks", "truck", "wagons", "wagon"}},
	}
	multSets := [][]int64{{2}, {60}, {10, 1000}, {2, 10}, {2, 60, 1000}, {10, 60, 1000}}
	for ni, names := range nameSets {
		for mi, ms := range multSets {
			d := unitDef{Name: fmt.Sprintf("gen-n%d-m%d", ni, mi), Base: names[0], Mults: map[int64][4]string{}}
			for i, m := range ms {
				d.Mults[m] = names[i+1]
			}
			out = append(out, d)
		}
	}
	return out
}

func (d unitDef) build() *schema.UnitsDefinition {
	var mults map[int64]*schema.UnitDefinition
	if len(d.Mults) > 0 {
		mults = map[int64]*schema.UnitDefinition{}
		for m, n := range d.Mults {
			mults[m] = schema.NewUnit(n[0], n[1], n[2], n[3])
		}
	}
	return schema.NewUnits(schema.NewUnit(d.Base[0], d.Base[1], d.Base[2], d.Base[3]), mults)
}

func (d unitDef) sortedMults() []int64 {
	var ms []int64
	for m := range d.Mults {
		ms = append(ms, m)
	}
	sort.Slice(ms, func(i, j int) bool { return ms[i] > ms[j] })
	return ms
}

type batch struct {
	Def  int    `json:"def"`
	Kind string `json:"kind"` // ints, floats, strings
	Lo   int64  `json:"lo"`
	Hi   int64  `json:"hi"`
}

type replay struct {
	Def int     `json:"def"`
	Op  string  `json:"op"`
	Int int64   `json:"int,omitempty"`
	F   float64 `json:"float,omitempty"`
	Str string  `json:"str,omitempty"`
}

func intValues(d unitDef, lo, hi int64) []int64 {
	var v []int64
	for n := lo; n < hi; n++ {
		v = append(v, n)
	}
	if lo == 0 {
		p := int64(1)
		for i := 0; i < 18; i++ {
			p *= 10
			v = append(v, p, p-1, p+1)
		}
		for _, m := range d.sortedMults() {
			for _, k := range []int64{1, 2, 59, 60, 61, 1000} {
				if m <= math.MaxInt64/k {
					v = append(v, m*k-1, m*k, m*k+1)
				}
			}
		}
		v = append(v, math.MaxInt64, math.MaxInt64-1, 1<<62, 1<<53+1)
	}
	return v
}

type checker struct {
	intSchema   *schema.IntSchema
	floatSchema *schema.FloatSchema
	d           unitDef
	di          int
	u           *schema.UnitsDefinition
	res         *ux.Result
}

func (c *checker) fail(kind, detail string, r replay) {
	r.Def = c.di
	c.res.Add(kind, fmt.Sprintf("units %s: %s", c.d.Name, detail), r)
}

func (c *checker) guard(what string, r replay, f func()) {
	pan, val, stack := ukit.Call(f)
	if pan {
		c.fail(fmt.Sprintf("panic in %s: %s", lib.PanicSite(stack), lib.PanicClass(fmt.Sprint(val))), what+fmt.Sprintf(" panicked: %v", val), r)
	}
}

func (c *checker) checkInt(n int64) {
	c.res.Evaluations += 2
	c.guard(fmt.Sprintf("format/parse of %d", n), replay{Op: "int", Int: n}, func() {
		for _, form := range []string{"short", "long"} {
			var s string
			if form == "short" {
				s = c.u.FormatShortInt(n)
			} else {
				s = c.u.FormatLongInt(n)
			}
			back, err := c.u.ParseInt(s)
			switch {
			case err != nil:
				c.fail("int "+form+"-format output is not parsable", fmt.Sprintf("Format%sInt(%d) = %q, ParseInt -> error %v", title(form), n, s, err), replay{Op: "int", Int: n})
			case back != n:
				c.fail("int "+form+"-format then parse returns another number", fmt.Sprintf("Format%sInt(%d) = %q, ParseInt -> %d", title(form), n, s, back), replay{Op: "int", Int: n})
			}
		}
	})
}

func title(s string) string { return strings.ToUpper(s[:1]) + s[1:] }

func (c *checker) checkFloat(x float64) {
	c.res.Evaluations += 2
	c.guard(fmt.Sprintf("format/parse of %v", x), replay{Op: "float", F: x}, func() {
		for _, form := range []string{"short", "long"} {
			var s string
			if form == "short" {
				s = c.u.FormatShortFloat(x)
			} else {
				s = c.u.FormatLongFloat(x)
			}
			back, err := c.u.ParseFloat(s)
			tol := 1e-6 + math.Abs(x)*1e-9
			switch {
			case err != nil:
				c.fail("float "+form+"-format output is not parsable", fmt.Sprintf("Format%sFloat(%v) = %q, ParseFloat -> error %v", title(form), x, s, err), replay{Op: "float", F: x})
			case math.Abs(back-x) > tol:
				c.fail("float "+form+"-format then parse is off by more than the tolerance", fmt.Sprintf("Format%sFloat(%v) = %q, ParseFloat -> %v", title(form), x, s, back), replay{Op: "float", F: x})
			}
		}
	})
}

// component strings
type comp struct {
	mult  int64 // 1 = base
	count int64
	name  string
	space string
}

var counts = []int64{0, 1, 9, 10, 59, 60, 61, 100}

func (c *checker) checkString(s string, want int64, overflow bool, valid bool, what string) {
	c.res.Evaluations++
	r := replay{Op: "parse", Str: s}
	c.guard("ParseInt("+s+")", r, func() {
		got, err := c.u.ParseInt(s)
		gotF, errF := c.u.ParseFloat(s)
		// the typed entry points: an int / float schema that carries these units reads a string with them, and with
		// nothing else
		c.throughSchemas(s, got, err, gotF, errF, r)
		switch {
		case valid && !overflow:
			if err != nil {
				c.fail("well-formed unit string rejected by ParseInt", fmt.Sprintf("ParseInt(%q) -> error %v, expected %d (%s)", s, err, want, what), r)
			} else if got != want {
				c.fail("ParseInt returns a wrong number", fmt.Sprintf("ParseInt(%q) = %d, expected %d (%s)", s, got, want, what), r)
			}
			if errF != nil {
				c.fail("well-formed unit string rejected by ParseFloat", fmt.Sprintf("ParseFloat(%q) -> error %v, expected %d (%s)", s, errF, want, what), r)
			} else if math.Abs(gotF-float64(want)) > 1e-6+math.Abs(float64(want))*1e-9 {
				c.fail("ParseFloat returns a wrong number", fmt.Sprintf("ParseFloat(%q) = %v, expected %d (%s)", s, gotF, want, what), r)
			}
		default:
			if err == nil {
				c.fail("ParseInt accepts a string it must reject", fmt.Sprintf("ParseInt(%q) = %d, expected an error (%s)", s, got, what), r)
			}
			if errF == nil && !overflow {
				c.fail("ParseFloat accepts a string it must reject", fmt.Sprintf("ParseFloat(%q) = %v, expected an error (%s)", s, gotF, what), r)
			}
		}
	})
}

// intOrError: ParseInt (and an int schema carrying the units) either rejects the string or returns exactly want.
func (c *checker) intOrError(s string, want int64, what string) {
	c.res.Evaluations++
	r := replay{Op: "parse", Str: s}
	c.guard("ParseInt("+s+")", r, func() {
		if got, err := c.u.ParseInt(s); err == nil && got != want {
			c.fail("ParseInt returns a wrong number", fmt.Sprintf("ParseInt(%q) = %d, expected %d or an error (%s)", s, got, want, what), r)
		}
		if c.intSchema == nil {
			c.intSchema = schema.NewIntSchema(nil, nil, c.u)
			c.floatSchema = schema.NewFloatSchema(nil, nil, c.u)
		}
		if v, err := c.intSchema.Unserialize(s); err == nil && v != any(want) {
			c.fail("an int schema with units returns a wrong number", fmt.Sprintf("IntSchema.Unserialize(%q) = %v, expected %d or an error (%s)", s, v, want, what), r)
		}
	})
}

// throughSchemas: IntSchema / FloatSchema with these units, given the string, must return what the units' own parser
// returns (same verdict, same number).
func (c *checker) throughSchemas(s string, got int64, err error, gotF float64, errF error, r replay) {
	if c.intSchema == nil {
		c.intSchema = schema.NewIntSchema(nil, nil, c.u)
		c.floatSchema = schema.NewFloatSchema(nil, nil, c.u)
	}
	vi, ei := c.intSchema.Unserialize(s)
	if (ei == nil) != (err == nil) || (ei == nil && vi != any(got)) {
		c.fail("an int schema with units reads a string differently from the units' parser", fmt.Sprintf("IntSchema.Unserialize(%q) = %v, %v; ParseInt = %d, %v", s, vi, ei, got, err), r)
	}
	vf, ef := c.floatSchema.Unserialize(s)
	if (ef == nil) != (errF == nil) || (ef == nil && vf != any(gotF) && !(gotF != gotF)) {
		c.fail("a float schema with units reads a string differently from the units' parser", fmt.Sprintf("FloatSchema.Unserialize(%q) = %v, %v; ParseFloat = %v, %v", s, vf, ef, gotF, errF), r)
	}
}

// bareDigitStrings: no unit name at all. What number (if any) such a string denotes is left open here, but the int
// schema and the units' parser must not disagree about it, and a decimal digit string is never read in another base.
func (c *checker) bareDigitStrings() {
	for _, s := range []string{"7", "010", "017", "0x10", "0b101", "0o17", "1_000", "00"} {
		c.res.Evaluations++
		r := replay{Op: "parse", Str: s}
		c.guard("bare "+s, r, func() {
			got, err := c.u.ParseInt(s)
			gotF, errF := c.u.ParseFloat(s)
			c.throughSchemas(s, got, err, gotF, errF, r)
			if err == nil {
				if want, perr := strconv.ParseInt(s, 10, 64); perr == nil && want != got {
					c.fail("ParseInt returns a wrong number", fmt.Sprintf("ParseInt(%q) = %d; the decimal digits say %d", s, got, want), r)
				}
			}
		})
	}
}

func (c *checker) strings() {
	c.bareDigitStrings()
	d := c.d
	ms := append(d.sortedMults(), 1)
	names := func(m int64) [4]string {
		if m == 1 {
			return d.Base
		}
		return d.Mults[m]
	}
	// all strictly descending unit selections of 1..3 components
	var sel [][]int64
	var rec func(start int, cur []int64)
	rec = func(start int, cur []int64) {
		if len(cur) > 0 {
			sel = append(sel, append([]int64(nil), cur...))
		}
		if len(cur) == 3 {
			return
		}
		for i := start; i < len(ms); i++ {
			rec(i+1, append(cur, ms[i]))
		}
	}
	rec(0, nil)
	if len(sel) > 40 {
		// keep all single and pair selections, triples only among the three largest and three smallest units
		var keep [][]int64
		for _, s := range sel {
			if len(s) < 3 || (s[0] >= ms[2] || s[2] <= ms[len(ms)-3]) {
				keep = append(keep, s)
			}
		}
		sel = keep
	}
	for _, units := range sel {
		// counts: full product for 1 and 2 components, diagonal + edges for 3
		var cs [][]int64
		switch len(units) {
		case 1:
			for _, a := range counts {
				cs = append(cs, []int64{a})
			}
		case 2:
			for _, a := range counts {
				for _, b := range counts {
					cs = append(cs, []int64{a, b})
				}
			}
		case 3:
			for _, a := range []int64{0, 1, 60, 100} {
				for _, b := range []int64{1, 59} {
					for _, e := range []int64{0, 9, 61} {
						cs = append(cs, []int64{a, b, e})
					}
				}
			}
		}
		for _, cnt := range cs {
			for variant := 0; variant < 4; variant++ { // name form x spacing
				var sb strings.Builder
				var sum int64
				overflow := false
				for i, m := range units {
					n := names(m)
					name := n[variant]
					if variant < 2 && cnt[i] != 1 {
						name = n[1]
					} else if variant < 2 {
						name = n[0]
					} else if cnt[i] == 1 {
						name = n[2]
					} else {
						name = n[3]
					}
					sp, sep := "", ""
					if variant%2 == 1 {
						sp, sep = " ", " "
					}
					if i > 0 {
						sb.WriteString(sep)
					}
					fmt.Fprintf(&sb, "%d%s%s", cnt[i], sp, name)
					if cnt[i] != 0 && m > math.MaxInt64/cnt[i] {
						overflow = true
					} else if sum > math.MaxInt64-cnt[i]*m {
						overflow = true
					} else {
						sum += cnt[i] * m
					}
				}
				s := sb.String()
				if variant == 3 {
					s = " " + s + " "
				}
				c.checkString(s, sum, overflow, true, "well-formed: counts followed by declared unit names, largest first")
			}
		}
	}
	// near misses
	b := d.Base
	c.checkString("", 0, false, false, "empty string")
	c.checkString("   ", 0, false, false, "blank string")
	c.checkString("5"+b[1]+"!", 0, false, false, "trailing junk")
	c.checkString("x5"+b[1], 0, false, false, "leading junk")
	c.checkString("5 zz", 0, false, false, "unknown unit")
	c.checkString("-5"+b[1], 0, false, false, "negative count is not a count")
	c.checkString("5"+b[1]+"5"+b[1], 0, false, false, "repeated unit")
	c.checkString(b[1], 0, false, false, "unit name without count")
	c.checkString("99999999999999999999"+b[1], 0, true, false, "count does not fit in 64 bits")
	// white space may separate a count from its unit and one component from the next; it does not glue digits together
	c.checkString("5 5"+b[1], 0, false, false, "count split by a space")
	c.checkString("1 5 "+b[1], 0, false, false, "count split by a space")
	c.checkString("1\t0"+b[1], 0, false, false, "count split by a tab")
	c.checkString("5"+b[1]+" 5", 0, false, false, "trailing count without a unit")
	// a base count written with an all-zero fraction ("3.0"): whether an integer parser takes it is not pinned down, but
	// if it does the number has to be exact - also where the total is beyond what a float64 holds exactly
	c.intOrError("3.0"+b[1], 3, "integral count written with a fraction")
	if len(ms) > 0 && ms[0] > 1 && ms[0] < math.MaxInt64/3 {
		big := ms[0]
		count := int64(1)<<53/big + 1
		if count > 0 && count < math.MaxInt64/big-1 {
			c.intOrError(fmt.Sprintf("%d%s1.0%s", count, d.Mults[big][1], b[1]), count*big+1, "total above 2^53 with the base count written as 1.0")
			c.intOrError(fmt.Sprintf("%d%s3.000%s", count, d.Mults[big][1], b[1]), count*big+3, "total above 2^53 with the base count written as 3.000")
		}
	}
	if len(ms) > 1 {
		big, small := ms[0], ms[len(ms)-2]
		c.checkString(fmt.Sprintf("5%s5%s", b[1], d.Mults[big][1]), 0, false, false, "wrong order (smaller unit first)")
		c.checkString(fmt.Sprintf("5%s5%s", d.Mults[small][1], d.Mults[small][1]), 0, false, false, "repeated unit")
		if big > 1 {
			c.checkString(fmt.Sprintf("%d%s", math.MaxInt64/big+1, d.Mults[big][1]), 0, true, false, "value does not fit in 64 bits")
			c.checkString(fmt.Sprintf("%d%s%d%s", math.MaxInt64/big, d.Mults[big][1], big, b[1]), 0, true, false, "sum does not fit in 64 bits")
			c.checkString(fmt.Sprintf("999999999999999%s", d.Mults[big][1]), 999999999999999*big, big > math.MaxInt64/999999999999999, big <= math.MaxInt64/999999999999999, "large count")
		}
	}
}

// firstUse: two (three) threads make the first use of one fresh definition at once - every pair over {parse,
// format short, format long} - under the cooperative scheduler, all schedules within 2 preemptions; every execution
// is scanned for happens-before races on the definition's lazily built caches, and each result must equal the
// result on a definition used by one thread only. A number computed while another thread is still filling the
// caches is a wrong number.
func (c *checker) firstUse() {
	ms := c.d.sortedMults()
	n := int64(3661)
	if len(ms) > 0 && ms[0] < math.MaxInt64/7 {
		n = ms[0]*5 + 3
	}
	alone := c.d.build()
	text := alone.FormatShortInt(n)
	type op struct {
		name string
		f    func(u *schema.UnitsDefinition) string
	}
	ops := []op{
		{"ParseInt", func(u *schema.UnitsDefinition) string { v, err := u.ParseInt(text); return fmt.Sprint(v, err) }},
		{"FormatShortInt", func(u *schema.UnitsDefinition) string { return u.FormatShortInt(n) }},
		{"FormatLongInt", func(u *schema.UnitsDefinition) string { return u.FormatLongInt(n) }},
		{"ParseFloat", func(u *schema.UnitsDefinition) string { v, err := u.ParseFloat(text); return fmt.Sprint(v, err) }},
	}
	want := make([]string, len(ops))
	for i, o := range ops {
		want[i] = o.f(c.d.build())
	}
	for i := range ops {
		for j := i; j < len(ops); j++ {
			pair := []int{i, j}
			got := make([]string, 2)
			e := &mcrt.Explorer{Embedded: true, MaxPreempt: 2, MaxDelay: 2, MaxSteps: 1 << 20, Races: true, Body: func() {
				u := c.d.build()
				var wg mcrt.WaitGroup
				for t, oi := range pair {
					t, oi := t, oi
					wg.Add(1)
					mcrt.GoNamed(ops[oi].name, func() { defer wg.Done(); got[t] = ops[oi].f(u) })
				}
				wg.Wait()
			}, Check: func(r *mcrt.Result) bool {
				c.res.Evaluations++
				rp := replay{Op: "firstuse", Str: ops[i].name + "|" + ops[j].name}
				switch r.Status {
				case mcrt.StPanic:
					c.fail(fmt.Sprintf("panic in %s: %s", lib.PanicSite(r.PanicStack), lib.PanicClass(r.PanicValue)), "concurrent first use panicked: "+r.PanicValue, rp)
				case mcrt.StComplete:
					for t, oi := range pair {
						if got[t] != want[oi] {
							c.fail("concurrent first use of a units definition returns another result than a single caller gets", fmt.Sprintf("%s -> %s, alone -> %s (schedule %v)", ops[oi].name, got[t], want[oi], r.Choices), rp)
						}
					}
				default:
					c.fail("concurrent first use of a units definition does not complete: "+r.Status.String(), fmt.Sprint(r.Blocked), rp)
				}
				for _, rc := range r.Races {
					a, b := rc.First, rc.Then
					if a > b {
						a, b = b, a
					}
					c.fail("data race on first use of a units definition: "+a+" <-> "+b, fmt.Sprintf("%s || %s: %s", ops[i].name, ops[j].name, rc.String()), rp)
				}
				return true
			}}
			e.All()
		}
	}
}

func floatValues() []float64 {
	var v []float64
	for k := 0; k <= 4000; k++ {
		v = append(v, float64(k)/8)
	}
	for e := 0; e <= 15; e++ {
		for _, k := range []float64{1, 2.5, 7.25, 9.999} {
			v = append(v, k*math.Pow(10, float64(e)))
		}
	}
	// quantities far below one base unit (down to where six decimals show nothing but zeros)
	for e := 1; e <= 12; e++ {
		for _, k := range []float64{1, 4, 4.9, 5, 9.5} {
			v = append(v, k*math.Pow(10, -float64(e)))
		}
	}
	return v
}

func run(tier string, raw json.RawMessage, from int, deadline time.Time) ux.Result {
	var b batch
	_ = json.Unmarshal(raw, &b)
	d := defs()[b.Def]
	var res ux.Result
	c := &checker{d: d, di: b.Def, u: d.build(), res: &res}
	ux.Progress(0)
	switch b.Kind {
	case "firstuse":
		c.firstUse()
	case "ints":
		for _, n := range intValues(d, b.Lo, b.Hi) {
			c.checkInt(n)
		}
	case "floats":
		for _, x := range floatValues() {
			c.checkFloat(x)
		}
	case "strings":
		c.strings()
	}
	res.Nontrivial = res.Evaluations
	if b.Lo == 0 && b.Kind != "floats" && b.Def < 3 {
		res.Samples = append(res.Samples, map[string]any{"units": d.Name, "kind": b.Kind, "example": fmt.Sprintf("FormatShortInt(3661)=%q FormatLongInt(3661)=%q", c.u.FormatShortInt(3661), c.u.FormatLongInt(3661))})
	}
	return res
}

func main() {
	ux.Main(ux.Harness{
		Property:   "C16",
		Level:      "exploration",
		Exhaustive: true,
		Batches: func(tier string) []any {
			var out []any
			for di := range defs() {
				hi := int64(200001)
				step := int64(50000)
				if tier != "thorough" && di >= 5 {
					hi = 20001 // generated definitions: full range only in the thorough tier
				}
				if tier == "thorough" && di < 5 {
					hi = 2000001 // the built-in unit sets: every integer up to two million
				}
				for lo := int64(0); lo < hi; lo += step {
					h := lo + step
					if h > hi {
						h = hi
					}
					out = append(out, batch{Def: di, Kind: "ints", Lo: lo, Hi: h})
				}
				out = append(out, batch{Def: di, Kind: "floats"}, batch{Def: di, Kind: "strings"}, batch{Def: di, Kind: "firstuse"})
			}
			return out
		},
		Run: run,
		Replay: func(raw json.RawMessage) []ux.Finding {
			var r replay
			if json.Unmarshal(raw, &r) != nil {
				return nil
			}
			d := defs()[r.Def]
			var res ux.Result
			c := &checker{d: d, di: r.Def, u: d.build(), res: &res}
			switch r.Op {
			case "int":
				c.checkInt(r.Int)
			case "float":
				c.checkFloat(r.F)
			case "firstuse":
				c.firstUse()
			case "parse":
				// re-run the whole string family of this definition (cheap) and keep what concerns the string
				c.strings()
				var keep []ux.Finding
				for _, f := range res.Findings {
					keep = append(keep, f)
				}
				res.Findings = keep
			}
			return res.Findings
		},
		Rule: "5 built-in unit sets + 24 generated definitions (multipliers over {2,10,60,1000}; names that are prefixes of each other; a later name of a unit contained in an earlier one; names with regexp metacharacters; names with a space inside) x {every integer in [0,200000] (generated definitions: [0,20000] in the quick tier; built-in sets: [0,2000000] in the thorough tier), powers of ten +-1 up to 10^18, multiplier boundaries, 2^63-1; floats k/8 for k<=4000, k*10^e and k*10^-e down to 10^-12; every well-formed string of 1-3 strictly descending components with counts from {0,1,9,10,59,60,61,100} in 4 name/spacing variants; 14 near misses incl. 64-bit overflow; integral counts written with a fraction (total above 2^53): an error or the exact number; every string also through IntSchema / FloatSchema carrying the units (must agree with the units' parser); bare digit strings with leading zeros, base prefixes and separators}; every case distinct. First use: for every definition, every pair over {ParseInt, FormatShortInt, FormatLongInt, ParseFloat} issued by two threads on one fresh definition under the cooperative scheduler (sync shim + access events on schema/), all schedules with <= 2 preemptions: vector-clock race scan and results equal to a single caller's",
		Assumptions: []string{
			"ambiguous inputs are outside the alphabet: bare numbers without a unit name, decimal counts, negative quantities",
			"float tolerance 1e-6 absolute + 1e-9 relative (the formatter prints 6 decimals)",
			"ParseFloat is not required to reject integers that overflow int64 only",
		},
	})
}
