// C06: every Execute on a healthy connection returns exactly once under any schedule.
//
// Closed system: the real ATP client <-> a scripted, causally correct v3 peer over scheduler-aware
// transports. All schedules within the bounds are enumerated; the oracle demands that every Execute and
// Close return, that results are the caller's own, that no thread started by the client survives, and
// that no timer is ever needed.
package main

import (
	"fmt"
	"sort"
	"strings"
	"time"

	"go.flow.arcalot.io/pluginsdk/atp"
	"go.flow.arcalot.io/pluginsdk/mcrt"
	"go.flow.arcalot.io/pluginsdk/schema"
	"verif/engine/mc"
	"verif/harness/atpkit"
)

// execSpec describes one Execute call of a history.
type execSpec struct {
	RunID     string
	ToStep    int    // signals queued for the step
	ToClose   string // "", "before" (channel closed before Execute), "after" (closed after it returns), "open"
	FromStep  int    // signals the peer emits before the terminal message
	WantFrom  bool   // caller passes a channel for emitted signals
	StepFatal bool
	// Unattributed: the peer first sends a step-fatal error without run id (every running Execute may fail on it),
	// then this run's own step-fatal error
	Unattributed bool
}

type history struct {
	Name   string
	Stream bool
	// CloseEarly: every Execute of the (single) group runs in a thread of its own and Close is called as soon as the
	// peer has received all work-starts - while the runs are pending. A correct peer still answers them, so every
	// Execute must still return its own result.
	CloseEarly bool
	Groups     [][]execSpec // groups run back to back; calls inside a group run concurrently
}

func e(id string) execSpec { return execSpec{RunID: id} }

func histories(tier string) []history {
	hs := []history{
		{Name: "1-exec", Groups: [][]execSpec{{e("r1")}}},
		{Name: "2-serial", Groups: [][]execSpec{{e("r1")}, {e("r2")}}},
		{Name: "2-concurrent", Groups: [][]execSpec{{e("r1"), e("r2")}}},
		{Name: "1-exec-signals-to-step-closed", Groups: [][]execSpec{{{RunID: "r1", ToStep: 1, ToClose: "before"}}}},
		{Name: "1-exec-signals-to-step-open", Groups: [][]execSpec{{{RunID: "r1", ToStep: 1, ToClose: "open"}}}},
		{Name: "1-exec-signal-from-step", Groups: [][]execSpec{{{RunID: "r1", FromStep: 1, WantFrom: true}}}},
		{Name: "1-exec-signal-from-step-ignored", Groups: [][]execSpec{{{RunID: "r1", FromStep: 1}}}},
		{Name: "1-exec-step-fatal", Groups: [][]execSpec{{{RunID: "r1", StepFatal: true}}}},
		{Name: "2-serial-first-fatal", Groups: [][]execSpec{{{RunID: "r1", StepFatal: true}}, {e("r2")}}},
		{Name: "2-serial-stream", Stream: true, Groups: [][]execSpec{{e("r1")}, {e("r2")}}},
		{Name: "2-concurrent-stream", Stream: true, Groups: [][]execSpec{{e("r1"), e("r2")}}},
		{Name: "2-concurrent-mixed", Groups: [][]execSpec{{{RunID: "r1", ToStep: 1, ToClose: "after", FromStep: 1, WantFrom: true}, {RunID: "r2", StepFatal: true}}}},
		{Name: "2-concurrent-same-id", Groups: [][]execSpec{{e("r1"), e("r1")}}},
		{Name: "2-serial-same-id", Groups: [][]execSpec{{e("r1")}, {e("r1")}}},
		{Name: "2-concurrent-unattributed-fatal-then-2-concurrent", Groups: [][]execSpec{{{RunID: "r1", StepFatal: true, Unattributed: true}, e("r2")}, {e("r3"), e("r4")}}},
		{Name: "2-concurrent-unattributed-fatal-then-2-concurrent-stream", Stream: true, Groups: [][]execSpec{{{RunID: "r1", StepFatal: true, Unattributed: true}, e("r2")}, {e("r3"), e("r4")}}},
		{Name: "2-concurrent-unattributed-fatal-then-1", Groups: [][]execSpec{{{RunID: "r1", StepFatal: true, Unattributed: true}, e("r2")}, {e("r3")}}},
		{Name: "2-concurrent-close-while-pending", CloseEarly: true, Groups: [][]execSpec{{e("r1"), e("r2")}}},
		{Name: "1-exec-signal-from-step-close-while-pending", CloseEarly: true, Groups: [][]execSpec{{{RunID: "r1", FromStep: 1, WantFrom: true}}}},
		{Name: "3-serial", Groups: [][]execSpec{{e("r1")}, {e("r2")}, {e("r3")}}},
		{Name: "2-concurrent-then-1", Groups: [][]execSpec{{e("r1"), e("r2")}, {e("r3")}}},
		{Name: "1-then-2-concurrent", Groups: [][]execSpec{{e("r1")}, {e("r2"), e("r3")}}},
	}
	if tier == "thorough" {
		hs = append(hs,
			history{Name: "3-concurrent", Groups: [][]execSpec{{e("r1"), e("r2"), e("r3")}}},
			history{Name: "3-serial-stream", Stream: true, Groups: [][]execSpec{{e("r1")}, {e("r2")}, {e("r3")}}},
			history{Name: "2-serial-signals", Groups: [][]execSpec{{{RunID: "r1", ToStep: 1, ToClose: "open", FromStep: 1, WantFrom: true}}, {{RunID: "r2", ToStep: 1, ToClose: "before"}}}},
		)
	}
	return hs
}

var hists map[string]history

// obs is what one execution observed (reset by the body).
type obs struct {
	results   map[string][]atp.ExecutionResult
	closeErr  error
	closed    bool
	schemaErr error
	fromStep  map[string]int
	peer      *atpkit.Peer
}

var cur *obs
var hello = atpkit.HelloBytes(3, atpkit.EmptySchema())

func body(h history) func() {
	return func() {
		o := &obs{results: map[string][]atp.ExecutionResult{}, fromStep: map[string]int{}}
		cur = o
		var c2s, s2c *mcrt.Link
		if h.Stream {
			c2s, s2c = mcrt.NewStream("c2s"), mcrt.NewStream("s2c")
		} else {
			c2s, s2c = mcrt.NewPipe("c2s"), mcrt.NewPipe("s2c")
		}
		peer := &atpkit.Peer{In: c2s.Reader(), Out: s2c.Writer(), OutLink: s2c, Hello: hello, Plans: map[string]atpkit.RunPlan{}, WithDebugLogs: true}
		o.peer = peer
		for _, g := range h.Groups {
			for _, x := range g {
				peer.Plans[x.RunID] = atpkit.RunPlan{SignalsFromStep: x.FromStep, StepFatal: x.StepFatal, UnattributedFatalFirst: x.Unattributed}
			}
		}
		mcrt.GoNamed("peer", peer.Run)
		cli := atp.NewClient(mcrt.Duplex{Reader: s2c.Reader(), Writer: c2s.Writer()})
		if _, err := cli.ReadSchema(); err != nil {
			o.schemaErr = err
			return
		}
		var started mcrt.WaitGroup
		if h.CloseEarly {
			pending := len(h.Groups[0])
			started.Add(1)
			peer.OnWorkStart = func(string) {
				pending--
				if pending == 0 {
					started.Done()
				}
			}
		}
		for _, g := range h.Groups {
			var wg mcrt.WaitGroup
			for _, x := range g {
				x := x
				run := func() {
					var to chan schema.Input
					var from chan schema.Input
					if x.ToClose != "" {
						to = make(chan schema.Input, x.ToStep+1)
						for i := 0; i < x.ToStep; i++ {
							to <- schema.Input{RunID: x.RunID, ID: "sig", InputData: map[string]any{"i": int64(i)}}
						}
						if x.ToClose == "before" {
							close(to)
						}
					}
					if x.WantFrom {
						from = make(chan schema.Input, x.FromStep+1)
					}
					res := cli.Execute(schema.Input{RunID: x.RunID, ID: "step", InputData: map[string]any{"name": x.RunID}}, to, from)
					o.results[x.RunID] = append(o.results[x.RunID], res)
					if x.ToClose == "after" {
						close(to)
					}
					if from != nil {
						for {
							select {
							case _, ok := <-from:
								if ok {
									o.fromStep[x.RunID]++
									continue
								}
							default:
							}
							break
						}
					}
				}
				if len(g) == 1 && !h.CloseEarly {
					run()
				} else {
					wg.Add(1)
					mcrt.GoNamed("exec-"+x.RunID, func() { defer wg.Done(); run() })
				}
			}
			if h.CloseEarly {
				started.Wait()
				o.closeErr = cli.Close()
				o.closed = true
			}
			wg.Wait()
		}
		if !h.CloseEarly {
			o.closeErr = cli.Close()
			o.closed = true
		}
		// The engine is done with the plugin and lets go of the pipe: what the peer still has to say (a message for a
		// run whose caller was already failed by an unattributed error) fails at once instead of waiting for a reader.
		_ = s2c.Reader().Close()
	}
}

func judge(h history, r *mcrt.Result) (string, []mc.Finding) {
	o := cur
	var fs []mc.Finding
	add := func(sig, detail string) { fs = append(fs, mc.Finding{Signature: sig, Detail: detail}) }
	switch r.Status {
	case mcrt.StPanic:
		add("panic: "+firstLine(r.PanicValue), fmt.Sprintf("thread T%d panicked: %s\n%s", r.PanicTID, r.PanicValue, r.PanicStack))
	case mcrt.StHorizon:
		add("step horizon exceeded (livelock?)", "")
	case mcrt.StBlocked:
		var pat []string
		for _, b := range r.Blocked {
			if strings.HasPrefix(b.Name, "peer") {
				continue // the scripted peer is blocked only because the client is
			}
			pat = append(pat, fmt.Sprintf("%s@%s[%s]", threadRole(b.Name), b.Op, lastFn(b.Where)))
		}
		sort.Strings(pat)
		kind := "deadlock"
		if r.MainDone {
			kind = "leaked threads after Close"
		}
		if len(pat) > 0 || !r.MainDone {
			add(kind+": "+strings.Join(pat, ", "), fmt.Sprintf("%v", r.Blocked))
		}
	}
	if r.TimerFires > 0 {
		add("timer needed on a healthy connection", fmt.Sprintf("%d timer(s) fired", r.TimerFires))
	}
	if r.Status == mcrt.StComplete && o != nil {
		if o.schemaErr != nil {
			add("ReadSchema failed on a healthy connection", o.schemaErr.Error())
		}
		if o.closeErr != nil {
			add("Close returned an error on a healthy connection", o.closeErr.Error())
		}
		calls := map[string]int{}
		for _, g := range h.Groups {
			for _, x := range g {
				calls[x.RunID]++
			}
		}
		judged := map[string]bool{}
		for _, g := range h.Groups {
			for _, x := range g {
				rs := o.results[x.RunID]
				if len(rs) != calls[x.RunID] {
					add("Execute did not return exactly once", fmt.Sprintf("%d call(s) for run %s returned %d times", calls[x.RunID], x.RunID, len(rs)))
					continue
				}
				if judged[x.RunID] {
					continue
				}
				judged[x.RunID] = true
				res := rs[0]
				if calls[x.RunID] > 1 {
					// the same run id used twice: the call that finds the id in flight may be refused, the other one (or both, if
					// they did not overlap) must deliver the run's result
					ok := 0
					for _, r := range rs {
						if r.Error == nil {
							ok++
							res = r
						}
					}
					if ok == 0 {
						add("no Execute of a run id used twice delivered its result", fmt.Sprintf("run %s: %v / %v", x.RunID, rs[0].Error, rs[1].Error))
						continue
					}
					if len(g) == 1 && ok != len(rs) {
						add("Execute failed on a healthy connection", fmt.Sprintf("run id %s reused after its first run had returned: %v / %v", x.RunID, rs[0].Error, rs[1].Error))
					}
				}
				if x.StepFatal {
					if res.Error == nil {
						add("step-fatal error not reported to its Execute", x.RunID)
					}
					continue
				}
				if res.Error != nil {
					if groupHasUnattributed(g) {
						continue // an error the peer could not attribute to a run fails every Execute running at that time
					}
					add("Execute failed on a healthy connection", fmt.Sprintf("run %s: %v", x.RunID, res.Error))
					continue
				}
				want := "out-" + x.RunID
				msg := ""
				if m, ok := res.OutputData.(map[any]any); ok {
					msg, _ = m["message"].(string)
				}
				if res.OutputID != want || msg != "result of "+x.RunID {
					add("Execute returned another run's result", fmt.Sprintf("run %s got output id %q data %v", x.RunID, res.OutputID, res.OutputData))
				}
				if x.WantFrom && o.fromStep[x.RunID] != x.FromStep {
					add("signals from step lost or duplicated", fmt.Sprintf("run %s: %d of %d emitted signals delivered", x.RunID, o.fromStep[x.RunID], x.FromStep))
				}
			}
		}
	}
	outcome := r.Status.String()
	if o != nil && r.Status == mcrt.StComplete {
		var ks []string
		for k, v := range o.results {
			for _, x := range v {
				if x.Error != nil {
					ks = append(ks, k+"=err")
				} else {
					ks = append(ks, k+"="+x.OutputID)
				}
			}
		}
		sort.Strings(ks)
		outcome += " " + strings.Join(ks, ",") + fmt.Sprintf(" peer-started=%v", o.peer.Started)
	}
	return outcome, fs
}

func groupHasUnattributed(g []execSpec) bool {
	for _, x := range g {
		if x.Unattributed {
			return true
		}
	}
	return false
}

func threadRole(name string) string {
	// thread names are spawn sites (function:line); keep the function only
	if i := strings.LastIndex(name, ":"); i > 0 {
		name = name[:i]
	}
	return name
}

func lastFn(where string) string {
	if i := strings.Index(where, " < "); i > 0 {
		return where[:i]
	}
	return where
}

func firstLine(s string) string {
	if i := strings.IndexByte(s, '\n'); i >= 0 {
		s = s[:i]
	}
	if len(s) > 160 {
		s = s[:160]
	}
	return s
}

func main() {
	mc.Main(mc.Harness{
		Property: "C06",
		Level:    "model_checking",
		Scenarios: func(tier string) []mc.Scenario {
			hists = map[string]history{}
			var out []mc.Scenario
			for _, h := range histories(tier) {
				hists[h.Name] = h
				n := 0
				for _, g := range h.Groups {
					n += len(g)
				}
				levels := []mc.Bounds{{Preempt: 0, Delay: 0}, {Preempt: 1, Delay: 1}, {Preempt: 2, Delay: 2}}
				if tier == "thorough" || (n <= 2 && h.Name != "2-concurrent-mixed") {
					levels = append(levels, mc.Bounds{Preempt: 3, Delay: 3})
				}
				if tier == "thorough" {
					levels = append(levels, mc.Bounds{Preempt: 4, Delay: 4})
					if n <= 2 {
						levels = append(levels, mc.Bounds{Preempt: 5, Delay: 5})
					}
				}
				out = append(out, mc.Scenario{Name: h.Name, Levels: levels, Races: true})
			}
			return out
		},
		Body:  func(sc mc.Scenario) func() { return body(hists[sc.Name]) },
		Judge: func(sc mc.Scenario, r *mcrt.Result) (string, []mc.Finding) { return judge(hists[sc.Name], r) },
		Budget: func(tier string) time.Duration {
			if tier == "thorough" {
				return 25 * time.Minute
			}
			return 300 * time.Second
		},
		Assumptions: []string{
			"peer is scripted and causally correct (answers each work-start exactly once, never closes early)",
			"signal channels handed to Execute are buffered and drained by the caller",
			"scheduling points are the synchronisation, channel and transport operations; code between them is atomic (justified when no happens-before race is reported on the same executions)",
			"bounds: schedules with at most the stated number of non-default scheduling choices (delays), of which at most P preemptive",
			"timers (5 s in Close) are virtual and can fire only when no thread is enabled",
		},
	})
}
