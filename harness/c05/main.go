// C05: ATP is transparent - each Execute returns its own step's in-process result.
//
// Closed system: the real client <-> the real RunATPServer (or a v1 peer answering with the real
// CallStep) over scheduler-aware transports; a plugin with two steps whose outputs have different shapes.
// All schedules within the delay bound and all stream fragmentations within the deviation bound are
// enumerated; every Execute must return exactly what CallStep returns in-process for its own input.
package main

import (
	"context"
	"fmt"
	"io"
	"reflect"
	"sort"
	"strings"
	"time"

	"github.com/fxamacker/cbor/v2"
	"go.flow.arcalot.io/pluginsdk/atp"
	"go.flow.arcalot.io/pluginsdk/mcrt"
	"go.flow.arcalot.io/pluginsdk/schema"
	"verif/engine/lib"
	"verif/engine/mc"
	"verif/harness/ukit"
)

type greetIn struct {
	Name  string `json:"name"`
	Count int64  `json:"count"`
}
type greetOut struct {
	Message string           `json:"message"`
	N       int64            `json:"n"`
	Ratio   float64          `json:"ratio"`
	OK      bool             `json:"ok"`
	Tags    []string         `json:"tags"`
	ByID    map[int64]string `json:"by_id"`
}
type sumIn struct {
	Values []int64 `json:"values"`
}
type sumOut struct {
	Total int64 `json:"total"`
}
type sumErr struct {
	Reason string `json:"reason"`
}
type bumpIn struct {
	By int64 `json:"by"`
}

func prop(t schema.Type, required bool) *schema.PropertySchema {
	return schema.NewPropertySchema(t, nil, required, nil, nil, nil, nil, nil)
}

func newPlugin() *schema.CallableSchema {
	str := schema.NewStringSchema(nil, nil, nil)
	in1 := schema.NewScopeSchema(schema.NewStructMappedObjectSchema[greetIn]("GreetIn", map[string]*schema.PropertySchema{
		"name":  prop(schema.NewStringSchema(schema.IntPointer(1), schema.IntPointer(10), nil), true),
		"count": schema.NewPropertySchema(schema.NewIntSchema(schema.IntPointer(0), schema.IntPointer(5), nil), nil, false, nil, nil, nil, schema.PointerTo("2"), nil),
	}))
	out1 := schema.NewScopeSchema(schema.NewStructMappedObjectSchema[greetOut]("GreetOut", map[string]*schema.PropertySchema{
		"message": prop(str, true),
		"n":       prop(schema.NewIntSchema(nil, nil, nil), true),
		"ratio":   prop(schema.NewFloatSchema(nil, nil, nil), true),
		"ok":      prop(schema.NewBoolSchema(), true),
		"tags":    prop(schema.NewListSchema(str, nil, nil), true),
		"by_id":   prop(schema.NewMapSchema(schema.NewIntSchema(nil, nil, nil), str, nil, nil), true),
	}))
	in2 := schema.NewScopeSchema(schema.NewStructMappedObjectSchema[sumIn]("SumIn", map[string]*schema.PropertySchema{
		"values": prop(schema.NewListSchema(schema.NewIntSchema(nil, nil, nil), nil, schema.IntPointer(4)), true),
	}))
	out2 := schema.NewScopeSchema(schema.NewStructMappedObjectSchema[sumOut]("SumOut", map[string]*schema.PropertySchema{"total": prop(schema.NewIntSchema(nil, nil, nil), true)}))
	err2 := schema.NewScopeSchema(schema.NewStructMappedObjectSchema[sumErr]("SumErr", map[string]*schema.PropertySchema{"reason": prop(str, true)}))
	bump := schema.NewCallableSignal[any, bumpIn]("bump",
		schema.NewScopeSchema(schema.NewStructMappedObjectSchema[bumpIn]("BumpIn", map[string]*schema.PropertySchema{"by": prop(schema.NewIntSchema(nil, nil, nil), true)})),
		nil, func(_ context.Context, _ any, _ bumpIn) {})
	greet := schema.NewCallableStepWithSignals[any, greetIn]("greet", in1,
		map[string]*schema.StepOutputSchema{"success": schema.NewStepOutputSchema(out1, nil, false)},
		map[string]schema.CallableSignal{"bump": bump}, nil, nil, nil,
		func(_ context.Context, _ any, i greetIn) (string, any) {
			tags := []string{}
			by := map[int64]string{}
			for k := int64(0); k < i.Count; k++ {
				tags = append(tags, fmt.Sprintf("%s-%d", i.Name, k))
				by[k*1000] = i.Name
			}
			return "success", greetOut{Message: "Hello, " + i.Name + "!", N: i.Count, Ratio: float64(i.Count) / 4, OK: i.Count%2 == 0, Tags: tags, ByID: by}
		})
	sum := schema.NewCallableStep[sumIn]("sum", in2,
		map[string]*schema.StepOutputSchema{"total": schema.NewStepOutputSchema(out2, nil, false), "error": schema.NewStepOutputSchema(err2, nil, true)}, nil,
		func(_ context.Context, i sumIn) (string, any) {
			if len(i.Values) == 0 {
				return "error", sumErr{Reason: "nothing to add"}
			}
			var t int64
			for _, v := range i.Values {
				t += v
			}
			return "total", sumOut{Total: t}
		})
	// a map-based step with a payload-rich input that it echoes: maps with integer keys, nested collections, a nested
	// object, an any-typed value - what the transport has to carry unchanged in both directions
	echoObj := func(id string) *schema.ScopeSchema {
		return schema.NewScopeSchema(schema.NewObjectSchema(id, map[string]*schema.PropertySchema{
			"by_id":  prop(schema.NewMapSchema(schema.NewIntSchema(nil, nil, nil), str, nil, nil), true),
			"nested": prop(schema.NewMapSchema(str, schema.NewListSchema(schema.NewIntSchema(nil, nil, nil), nil, nil), nil, nil), false),
			"opt": prop(schema.NewObjectSchema(id+"Inner", map[string]*schema.PropertySchema{
				"f": prop(schema.NewFloatSchema(nil, nil, nil), false),
				"b": prop(schema.NewBoolSchema(), false),
			}), false),
			"anyv": prop(schema.NewAnySchema(), false),
		}))
	}
	echo := schema.NewCallableStep[map[string]any]("echo", echoObj("EchoIn"),
		map[string]*schema.StepOutputSchema{"success": schema.NewStepOutputSchema(echoObj("EchoOut"), nil, false)}, nil,
		func(_ context.Context, i map[string]any) (string, any) { return "success", i })
	return schema.NewCallableSchema(greet, sum, echo)
}

type call struct {
	RunID  string
	Step   string
	Input  any
	Signal bool // one signal to the step, channel closed afterwards
}

type session struct {
	Name     string
	Stream   bool
	Fragment bool
	// StallReader: the engine is busy once - the client's read of the server's output stalls (a virtual sleep, which
	// ends only when nothing else can move) right after the hello, so that everything the server wants to say meanwhile
	// has to queue up behind one blocked write
	StallReader bool
	V1          bool
	Groups      [][]call
	MaxDelay    int
	// Gen: a generated plugin - one step "echo" whose input and output are (separate instances of) this scope and whose
	// handler returns its input; Groups holds one serial Execute per chosen input
	Gen  *ukit.Spec
	want map[string]expected
}

var (
	cGreetA  = call{RunID: "a", Step: "greet", Input: map[string]any{"name": "Ada", "count": int64(3)}}
	cGreetB  = call{RunID: "b", Step: "greet", Input: map[string]any{"name": "Bob"}} // default count
	cSum     = call{RunID: "c", Step: "sum", Input: map[string]any{"values": []any{int64(1), int64(2), int64(39)}}}
	cSumErr  = call{RunID: "d", Step: "sum", Input: map[string]any{"values": []any{}}}
	cBadIn   = call{RunID: "e", Step: "greet", Input: map[string]any{"name": "this name is far too long"}}
	cBadStep = call{RunID: "f", Step: "nope", Input: map[string]any{}}
	cEcho    = call{RunID: "h", Step: "echo", Input: map[string]any{
		"by_id":  map[any]any{int64(1): "one", int64(2000): "two"},
		"nested": map[string]any{"k": []any{int64(1), int64(2)}, "empty": []any{}},
		"opt":    map[string]any{"f": 1.5, "b": true},
		"anyv":   map[any]any{int64(7): "seven"},
	}}
	cGreetS = call{RunID: "g", Step: "greet", Input: map[string]any{"name": "Sig", "count": int64(1)}, Signal: true}
)

func badIn(run string) call {
	return call{RunID: run, Step: "greet", Input: map[string]any{"name": "this name is far too long"}}
}

func sessions(tier string) []session {
	s := []session{
		{Name: "1-greet", Groups: [][]call{{cGreetA}}, MaxDelay: 2},
		{Name: "1-rejected-input", Groups: [][]call{{cBadIn}}, MaxDelay: 1},
		{Name: "1-unknown-step", Groups: [][]call{{cBadStep}}, MaxDelay: 1},
		{Name: "2-serial", Groups: [][]call{{cGreetA}, {cSum}}, MaxDelay: 1},
		{Name: "2-concurrent", Groups: [][]call{{cGreetA, cSum}}, MaxDelay: 1},
		{Name: "2-concurrent-one-rejected", Groups: [][]call{{cBadIn, cSum}}, MaxDelay: 1},
		{Name: "2-concurrent-same-step", Groups: [][]call{{cGreetA, cGreetB}}, MaxDelay: 1},
		{Name: "1-greet-signal", Groups: [][]call{{cGreetS}}, MaxDelay: 1},
		{Name: "2-concurrent-same-run-id", Groups: [][]call{{cGreetA, cGreetA}}, MaxDelay: 1},
		{Name: "3-serial-run-id-used-again", Groups: [][]call{{cGreetA}, {cGreetA}, {cBadIn}, {cBadIn}}, MaxDelay: 0},
		{Name: "6-rejected-1-good-concurrent-reader-stalls", StallReader: true, MaxDelay: -1,
			Groups: [][]call{{badIn("e1"), badIn("e2"), badIn("e3"), badIn("e4"), badIn("e5"), badIn("e6"), cGreetA}}},
		{Name: "1-echo-rich-payload", Groups: [][]call{{cEcho}}, MaxDelay: 0},
		{Name: "v1-echo-rich-payload", V1: true, Groups: [][]call{{cEcho}}, MaxDelay: 0},
		{Name: "2-concurrent-stream-fragmented", Stream: true, Fragment: true, Groups: [][]call{{cGreetA, cSumErr}}, MaxDelay: 0},
		{Name: "2-serial-stream", Stream: true, Groups: [][]call{{cGreetB}, {cSum}}, MaxDelay: 1},
		{Name: "v1-2-serial", V1: true, Groups: [][]call{{cGreetA}, {cSum}}, MaxDelay: 1},
	}
	for i := range s {
		s[i].MaxDelay++
	}
	if tier == "thorough" {
		for i := range s {
			s[i].MaxDelay++
		}
		s = append(s,
			session{Name: "2-concurrent-then-1", Groups: [][]call{{cGreetA, cSum}, {cGreetB}}, MaxDelay: 2},
			session{Name: "3-concurrent", Groups: [][]call{{cGreetA, cSum, cSumErr}}, MaxDelay: 1},
			session{Name: "v1-stream-fragmented", V1: true, Stream: true, Fragment: true, Groups: [][]call{{cSum}}, MaxDelay: 1},
		)
	}
	return s
}

var sess map[string]*session

// genSpecs: every schema of the universe that can be a step's input and output (it has to describe itself in the
// hello message: no typed enums - the ledgered C09 finding -, no struct-literal enums, no dangling foreign references).
func genSpecs(tier string) []*ukit.Spec {
	var all []*ukit.Spec
	if tier == "thorough" {
		all = ukit.Universe(2, false)
	} else {
		all = append(ukit.LeafSpecs(), ukit.Depth1()...)
	}
	var out []*ukit.Spec
	for _, sp := range all {
		ok := true
		sp.Walk(func(n *ukit.Spec) {
			if n.Kind == ukit.KTypedEnum || n.Literal || (n.Kind == ukit.KRef && n.RefNS != "") {
				ok = false
			}
		})
		if !ok {
			continue
		}
		w := ukit.WrapScope(sp)
		if pan, _, _ := ukit.Call(func() { ukit.BuildScope(w) }); pan {
			continue
		}
		out = append(out, w)
	}
	return out
}

func genPlugin(w *ukit.Spec) *schema.CallableSchema {
	echo := schema.NewCallableStep[any]("echo", ukit.BuildScope(w),
		map[string]*schema.StepOutputSchema{"success": schema.NewStepOutputSchema(ukit.BuildScope(w), nil, false)}, nil,
		func(_ context.Context, in any) (string, any) { return "success", in })
	return schema.NewCallableSchema(echo)
}

// genSession: up to three accepted inputs and one the input schema rejects, executed one after the other.
func genSession(i int, w *ukit.Spec) session {
	se := session{Name: fmt.Sprintf("gen/%04d %s", i, clipName(w.String())), Gen: w, MaxDelay: 0}
	probe := ukit.BuildScope(w)
	n := 0
	add := func(v any) {
		n++
		se.Groups = append(se.Groups, []call{{RunID: fmt.Sprintf("g%d", n), Step: "echo", Input: v}})
	}
	for _, v := range ukit.ValidValues(w, 3) {
		if _, err := cbor.Marshal(v); err == nil {
			add(v)
		}
	}
	for _, r := range ukit.RawValues(w) {
		rejected := false
		if pan, _, _ := ukit.Call(func() {
			_, err := probe.Unserialize(ukit.DeepCopy(normalise(r)))
			rejected = err != nil
		}); pan || !rejected {
			continue
		}
		if _, isMap := r.(map[string]any); isMap {
			add(r)
			break
		}
	}
	return se
}

func resKey(group int, run string) string { return fmt.Sprintf("%d/%s", group, run) }

func clipName(n string) string {
	if len(n) > 60 {
		return n[:60] + "..."
	}
	return n
}

func (se *session) expected() map[string]expected {
	if se.Gen == nil {
		return want
	}
	if se.want == nil {
		se.want = map[string]expected{}
		p := genPlugin(se.Gen)
		for _, g := range se.Groups {
			for _, c := range g {
				id, data, err := p.CallStep(context.Background(), "expect-"+c.RunID, c.Step, normalise(c.Input))
				if err != nil {
					se.want[c.RunID] = expected{Err: true}
					continue
				}
				se.want[c.RunID] = expected{OutputID: id, Data: normalise(data)}
			}
		}
	}
	return se.want
}

type expected struct {
	OutputID string
	Data     any
	Err      bool
}

var want = map[string]expected{}

var clientDec = func() cbor.DecMode {
	m, err := cbor.DecOptions{ExtraReturnErrors: cbor.ExtraDecErrorUnknownField}.DecMode()
	if err != nil {
		panic(err)
	}
	return m
}()

func normalise(v any) any {
	b, err := cbor.Marshal(v)
	if err != nil {
		panic(err)
	}
	var out any
	if err := clientDec.Unmarshal(b, &out); err != nil {
		panic(err)
	}
	return out
}

func computeExpected() {
	p := newPlugin()
	for _, c := range []call{cGreetA, cGreetB, cSum, cSumErr, cBadIn, cBadStep, cGreetS, cEcho, badIn("e1"), badIn("e2"), badIn("e3"), badIn("e4"), badIn("e5"), badIn("e6")} {
		id, data, err := p.CallStep(context.Background(), "expect-"+c.RunID, c.Step, normalise(c.Input))
		if err != nil {
			want[c.RunID] = expected{Err: true}
			continue
		}
		want[c.RunID] = expected{OutputID: id, Data: normalise(data)}
	}
}

type obs struct {
	results   map[string][]atp.ExecutionResult
	schemaErr error
	closeErr  error
	srvErrs   []*atp.ServerError
	srvDone   bool
}

var cur *obs

func v1Peer(in *mcrt.Link, out *mcrt.Link, plugin *schema.CallableSchema, n int) {
	dec := cbor.NewDecoder(in.Reader())
	enc := cbor.NewEncoder(out.Writer())
	var empty any
	if dec.Decode(&empty) != nil {
		return
	}
	sch, err := plugin.SelfSerialize()
	if err != nil {
		panic(err)
	}
	if enc.Encode(atp.HelloMessage{Version: 1, Schema: sch}) != nil {
		return
	}
	for i := 0; i < n; i++ {
		var ws atp.WorkStartMessage
		if dec.Decode(&ws) != nil {
			return
		}
		id, data, err := plugin.CallStep(context.Background(), fmt.Sprintf("v1-%d", i), ws.StepID, ws.Config)
		if err != nil {
			panic("v1 peer is only used with valid input: " + err.Error())
		}
		if enc.Encode(atp.WorkDoneMessage{StepID: ws.StepID, OutputID: id, OutputData: data}) != nil {
			return
		}
	}
	_ = out.Writer().Close()
}

// stallingReader delays its stallAt-th Read by a virtual second (see session.StallReader).
type stallingReader struct {
	r       io.Reader
	n       int
	stallAt int
}

func (s *stallingReader) Read(p []byte) (int, error) {
	s.n++
	if s.n == s.stallAt {
		mcrt.Sleep(time.Second)
	}
	return s.r.Read(p)
}

func body(se *session) func() {
	return func() {
		o := &obs{results: map[string][]atp.ExecutionResult{}}
		cur = o
		var c2s, s2c *mcrt.Link
		if se.Stream {
			c2s, s2c = mcrt.NewStream("c2s"), mcrt.NewStream("s2c")
			c2s.Fragment, s2c.Fragment = se.Fragment, se.Fragment
		} else {
			c2s, s2c = mcrt.NewPipe("c2s"), mcrt.NewPipe("s2c")
		}
		plugin := newPlugin()
		if se.Gen != nil {
			plugin = genPlugin(se.Gen)
		}
		if se.V1 {
			n := 0
			for _, g := range se.Groups {
				n += len(g)
			}
			mcrt.GoNamed("peer-v1", func() { v1Peer(c2s, s2c, plugin, n) })
		} else {
			mcrt.GoNamed("server", func() {
				o.srvErrs = atp.RunATPServer(context.Background(), c2s.Reader(), s2c.Writer(), plugin)
				o.srvDone = true
				_ = s2c.Writer().Close()
			})
		}
		var clientIn io.Reader = s2c.Reader()
		if se.StallReader {
			clientIn = &stallingReader{r: s2c.Reader(), stallAt: 2}
		}
		cli := atp.NewClient(mcrt.Duplex{Reader: clientIn, Writer: c2s.Writer()})
		if _, err := cli.ReadSchema(); err != nil {
			o.schemaErr = err
			return
		}
		for gi, g := range se.Groups {
			gi := gi
			var wg mcrt.WaitGroup
			for _, c := range g {
				c := c
				run := func() {
					var to chan schema.Input
					if c.Signal {
						to = make(chan schema.Input, 2)
						to <- schema.Input{RunID: c.RunID, ID: "bump", InputData: map[string]any{"by": int64(2)}}
						close(to)
					}
					res := cli.Execute(schema.Input{RunID: c.RunID, ID: c.Step, InputData: c.Input}, to, nil)
					o.results[resKey(gi, c.RunID)] = append(o.results[resKey(gi, c.RunID)], res)
				}
				if len(g) == 1 {
					run()
				} else {
					wg.Add(1)
					mcrt.GoNamed("exec-"+c.RunID, func() { defer wg.Done(); run() })
				}
			}
			wg.Wait()
		}
		o.closeErr = cli.Close()
		// The engine is done with this plugin: it lets go of both pipe ends, as it does when it reaps the plugin process.
		// A message the server still tries to send then fails at once (EPIPE) instead of sitting in front of a reader
		// that will never come until the server's own send timeout expires.
		_ = c2s.Writer().Close()
		_ = s2c.Reader().Close()
	}
}

func judge(se *session, r *mcrt.Result) (string, []mc.Finding) {
	o := cur
	var fs []mc.Finding
	add := func(sig, detail string) { fs = append(fs, mc.Finding{Signature: sig, Detail: detail}) }
	switch r.Status {
	case mcrt.StPanic:
		add("panic: "+lib.PanicClass(r.PanicValue)+" in "+lib.PanicSite(r.PanicStack), fmt.Sprintf("thread T%d panicked: %s\n%s", r.PanicTID, r.PanicValue, r.PanicStack))
	case mcrt.StHorizon:
		add("step horizon exceeded (livelock?)", "")
	case mcrt.StBlocked:
		var pat []string
		for _, b := range r.Blocked {
			n := b.Name
			if i := strings.LastIndex(n, ":"); i > 0 {
				n = n[:i]
			}
			w := b.Where
			if i := strings.Index(w, " < "); i > 0 {
				w = w[:i]
			}
			pat = append(pat, fmt.Sprintf("%s@%s[%s]", n, b.Op, w))
		}
		sort.Strings(pat)
		add("deadlock: "+strings.Join(pat, ", "), fmt.Sprintf("%v", r.Blocked))
	}
	for _, n := range r.Notes {
		if strings.HasPrefix(n, "interleaved writes") {
			add(n, "two threads were inside Write on the same stream at once")
		}
	}
	allowed := 0
	if se.StallReader {
		allowed = 1 // the stall itself is a (virtual) timer of the harness
	}
	if r.TimerFires > allowed {
		add("timer needed on a healthy connection", "")
	}
	outcome := r.Status.String()
	if o == nil || r.Status != mcrt.StComplete {
		return outcome, fs
	}
	if o.schemaErr != nil {
		add("ReadSchema failed on a healthy connection", o.schemaErr.Error())
		return outcome, fs
	}
	if o.closeErr != nil {
		add("Close failed on a healthy connection", o.closeErr.Error())
	}
	var ks []string
	// a run id may be used again once its run has returned (another group: each use is a run of its own); used twice
	// within one group the two calls overlap
	judged := map[string]bool{}
	for gi, g := range se.Groups {
		issued := map[string]int{}
		for _, c := range g {
			issued[c.RunID]++
		}
		for _, c := range g {
			rs := o.results[resKey(gi, c.RunID)]
			if n := issued[c.RunID]; n > 1 {
				// the same run id issued more than once at the same time: whichever call the client lets through returns
				// the in-process result, every other one that result or an error of its own
				if judged[resKey(gi, c.RunID)] {
					continue
				}
				judged[resKey(gi, c.RunID)] = true
				w := se.expected()[c.RunID]
				good := 0
				for _, res := range rs {
					if res.Error == nil && res.OutputID == w.OutputID && reflect.DeepEqual(res.OutputData, w.Data) {
						good++
					} else if res.Error == nil {
						add("Execute returned something else than the in-process call", fmt.Sprintf("run %s (issued %d times): got (%q, %#v) want (%q, %#v)", c.RunID, n, res.OutputID, res.OutputData, w.OutputID, w.Data))
					}
				}
				if len(rs) != n {
					add("Execute did not return exactly once", fmt.Sprintf("run %s issued %d times: %d returns", c.RunID, n, len(rs)))
				} else if good == 0 {
					add("a run id issued twice: no call returned the in-process result", fmt.Sprintf("run %s: %v", c.RunID, rs))
				}
				ks = append(ks, fmt.Sprintf("%s=%dof%d", c.RunID, good, n))
				continue
			}
			if len(rs) != 1 {
				add("Execute did not return exactly once", fmt.Sprintf("run %s: %d returns", c.RunID, len(rs)))
				continue
			}
			res, w := rs[0], se.expected()[c.RunID]
			switch {
			case w.Err && res.Error == nil:
				add("input the step rejects in-process was not reported as that Execute's error", fmt.Sprintf("run %s -> %q %v", c.RunID, res.OutputID, res.OutputData))
			case w.Err:
				ks = append(ks, c.RunID+"=err")
			case res.Error != nil:
				add("Execute failed although the in-process call succeeds", fmt.Sprintf("run %s: %v", c.RunID, res.Error))
			case res.OutputID != w.OutputID || !reflect.DeepEqual(res.OutputData, w.Data):
				add("Execute returned something else than the in-process call", fmt.Sprintf("run %s: got (%q, %#v) want (%q, %#v)", c.RunID, res.OutputID, res.OutputData, w.OutputID, w.Data))
			default:
				ks = append(ks, c.RunID+"="+res.OutputID)
			}
		}
	}
	sort.Strings(ks)
	return outcome + " " + strings.Join(ks, ","), fs
}

func main() {
	computeExpected()
	mc.Main(mc.Harness{
		Property: "C05",
		Level:    "model_checking",
		Scenarios: func(tier string) []mc.Scenario {
			sess = map[string]*session{}
			var out []mc.Scenario
			for _, s := range sessions(tier) {
				s := s
				sess[s.Name] = &s
				var levels []mc.Bounds
				dev := 0
				if s.Fragment {
					dev = 1
					if tier == "thorough" {
						dev = 2
					}
				}
				for d := 0; d <= s.MaxDelay; d++ {
					levels = append(levels, mc.Bounds{Preempt: d, Delay: d, Deviate: dev})
				}
				out = append(out, mc.Scenario{Name: s.Name, Levels: levels, Races: true})
			}
			// generated plugins: every schema of the universe as the input and output of an echo step, its inputs executed
			// through the real client and server under the default schedule
			for i, w := range genSpecs(tier) {
				gs := genSession(i, w)
				if len(gs.Groups) == 0 {
					continue
				}
				sess[gs.Name] = &gs
				out = append(out, mc.Scenario{Name: gs.Name, Levels: []mc.Bounds{{Preempt: 0, Delay: 0, Deviate: 0}}})
			}
			return out
		},
		Body:  func(sc mc.Scenario) func() { return body(sess[sc.Name]) },
		Judge: func(sc mc.Scenario, r *mcrt.Result) (string, []mc.Finding) { return judge(sess[sc.Name], r) },
		Budget: func(tier string) time.Duration {
			if tier == "thorough" {
				return 25 * time.Minute
			}
			return 300 * time.Second
		},
		Assumptions: []string{
			"expected results are computed by calling CallableSchema.CallStep in-process on a fresh plugin instance with the CBOR-normalised input",
			"the fixed sessions keep payloads few and schedules many; the generated-plugin sessions (gen/...) keep the schedule fixed (default) and range over every schema of the universe (quick: leaves and depth 1; thorough: U_2) as the input and output of an echo step, with up to three accepted inputs and one rejected input each",
			"v1 sessions use a scripted v1 peer that answers with the real CallStep (the SDK has no v1 server)",
			"fragmentation menu per read: everything available, 1 byte, up to the first message boundary, boundary+-1",
			"scheduling points at synchronisation/channel/transport operations; timers virtual",
		},
	})
}
