// Package atpkit holds what the ATP harnesses share: transports, a scripted causally-correct v3/v1
// peer built from the repository's own message types, and result bookkeeping.
package atpkit

import (
	"fmt"
	"io"

	"github.com/fxamacker/cbor/v2"
	"go.flow.arcalot.io/pluginsdk/atp"
	"go.flow.arcalot.io/pluginsdk/mcrt"
	"go.flow.arcalot.io/pluginsdk/schema"
)

// EmptyHello is the CBOR hello message of a plugin with no steps (the client never consults the
// schema when executing, so the cheapest valid hello keeps executions short).
func HelloBytes(version int64, sch any) []byte {
	b, err := cbor.Marshal(atp.HelloMessage{Version: version, Schema: sch})
	if err != nil {
		panic(err)
	}
	return b
}

// EmptySchema returns the self-description of a plugin schema without steps.
func EmptySchema() any {
	s, err := schema.NewCallableSchema().SelfSerialize()
	if err != nil {
		panic(err)
	}
	return s
}

// RunPlan says how the scripted peer answers one run.
type RunPlan struct {
	SignalsFromStep int  // signal messages emitted before the terminal message
	NonFatalErrors  int  // error messages (neither step- nor server-fatal) emitted before the terminal message
	StepFatal       bool // terminal message is a step-fatal error instead of work-done
	// UnattributedFatalFirst: before the terminal message the peer sends a step-fatal error WITHOUT a run id (what
	// RunATPServer does for a work-start it cannot attribute); the client fails every running step on it, so the
	// terminal message that follows finds no waiting caller any more
	UnattributedFatalFirst bool
	ServerFatal            bool // instead of answering, the peer reports a server-fatal error and shuts down (as RunATPServer does)
}

// SentMsg records one message the peer wrote (in stream order; index 0 is the hello).
type SentMsg struct {
	Kind  string // hello, signal, error, fatal, done
	RunID string
	End   int // cumulative stream offset after this message (0 if the write failed)
}

// Peer is a scripted, causally correct ATP v3 server: it answers exactly what was asked, once.
type Peer struct {
	In      io.ReadCloser  // closed when the client says it is done, as RunATPServer does
	Out     io.WriteCloser // closed when the peer ends (the plugin process exits)
	OutLink *mcrt.Link
	Hello   []byte
	// WithDebugLogs: work-done messages carry debug logs (see DebugLogsFor); off = empty, as the SDK's own server sends
	WithDebugLogs bool
	V1            bool // legacy framing: bare WorkStartMessage in, bare WorkDoneMessage out, one run
	Sent          []SentMsg
	Plans         map[string]RunPlan // by run id; missing = plain work-done

	// observations
	Started []string
	// OnWorkStart, if set, is called (in the peer's read loop) for every work-start the peer accepts
	OnWorkStart func(run string)
	SignalsSeen map[string]int
	ClientDone  bool
	ReadErr     error
	Answered    map[string]int
	writeMu     mcrt.Mutex
	enc         *cbor.Encoder
}

// OutputFor is the payload the peer returns for a run (distinct per run so that cross-talk shows).
func OutputFor(runID string) map[string]any {
	return map[string]any{"message": "result of " + runID}
}

func (p *Peer) send(kind, runID string, msg any) error {
	p.writeMu.Lock()
	defer p.writeMu.Unlock()
	before := len(p.OutLink.WriteBounds())
	err := p.enc.Encode(msg)
	m := SentMsg{Kind: kind, RunID: runID}
	if b := p.OutLink.WriteBounds(); len(b) > before {
		m.End = b[len(b)-1]
	}
	p.Sent = append(p.Sent, m)
	return err
}

// Run is the peer's read loop (one thread); every accepted work-start is answered by its own thread.
func (p *Peer) Run() {
	dec := cbor.NewDecoder(p.In)
	p.enc = cbor.NewEncoder(p.Out)
	p.SignalsSeen = map[string]int{}
	p.Answered = map[string]int{}
	var steps mcrt.WaitGroup
	defer func() {
		steps.Wait()
		_ = p.Out.Close()
	}()
	var empty any
	if err := dec.Decode(&empty); err != nil {
		p.ReadErr = err
		return
	}
	if _, err := p.Out.Write(p.Hello); err != nil {
		p.ReadErr = err
		return
	}
	p.Sent = append(p.Sent, SentMsg{"hello", "", len(p.Hello)})
	if p.V1 {
		var ws atp.WorkStartMessage
		if err := dec.Decode(&ws); err != nil {
			p.ReadErr = err
			return
		}
		p.Started = append(p.Started, "v1")
		p.Answered["v1"]++
		_ = p.send("done", "v1", atp.WorkDoneMessage{StepID: ws.StepID, OutputID: "out-v1", OutputData: p.outputFor("v1"), DebugLogs: p.debugLogs("v1")})
		return
	}
	for {
		var m atp.DecodedRuntimeMessage
		if err := dec.Decode(&m); err != nil {
			p.ReadErr = err
			return
		}
		switch m.MessageID {
		case atp.MessageTypeWorkStart:
			var ws atp.WorkStartMessage
			if err := cbor.Unmarshal(m.RawMessageData, &ws); err != nil {
				p.ReadErr = fmt.Errorf("client sent undecodable work start: %w", err)
				return
			}
			runID := m.RunID
			p.Started = append(p.Started, runID)
			if p.OnWorkStart != nil {
				p.OnWorkStart(runID)
			}
			plan := p.Plans[runID]
			steps.Add(1)
			mcrt.GoNamed("peer-step-"+runID, func() {
				defer steps.Done()
				for i := 0; i < plan.NonFatalErrors; i++ {
					_ = p.send("error", runID, atp.RuntimeMessage{MessageID: atp.MessageTypeError, RunID: runID,
						MessageData: atp.ErrorMessage{Error: "just so you know: " + runID}})
				}
				for i := 0; i < plan.SignalsFromStep; i++ {
					_ = p.send("signal", runID, atp.RuntimeMessage{MessageID: atp.MessageTypeSignal, RunID: runID,
						MessageData: atp.SignalMessage{SignalID: "progress", Data: map[string]any{"n": int64(i)}}})
				}
				p.Answered[runID]++
				if plan.ServerFatal {
					_ = p.send("serverfatal", runID, atp.RuntimeMessage{MessageID: atp.MessageTypeError, RunID: "",
						MessageData: atp.ErrorMessage{Error: "the plugin is going down", StepFatal: true, ServerFatal: true}})
					_ = p.In.Close() // stop reading; Run closes the output once all step threads are done
					return
				}
				if plan.UnattributedFatalFirst {
					_ = p.send("unattributed", "", atp.RuntimeMessage{MessageID: atp.MessageTypeError, RunID: "",
						MessageData: atp.ErrorMessage{Error: "a step failed that cannot be attributed to a run", StepFatal: true}})
				}
				if plan.StepFatal {
					_ = p.send("fatal", runID, atp.RuntimeMessage{MessageID: atp.MessageTypeError, RunID: runID,
						MessageData: atp.ErrorMessage{Error: "step failed: " + runID, StepFatal: true}})
					return
				}
				_ = p.send("done", runID, atp.RuntimeMessage{MessageID: atp.MessageTypeWorkDone, RunID: runID,
					MessageData: atp.WorkDoneMessage{StepID: ws.StepID, OutputID: "out-" + runID, OutputData: p.outputFor(runID), DebugLogs: p.debugLogs(runID)}})
			})
		case atp.MessageTypeSignal:
			p.SignalsSeen[m.RunID]++
		case atp.MessageTypeClientDone:
			p.ClientDone = true
			_ = p.In.Close()
			return
		}
	}
}

// outputFor: with WithDebugLogs (the "a plugin written by somebody else" mode) the output also carries numbers at the
// edges of what CBOR can say - an unsigned integer above the int64 range, the smallest int64, a half-precision float -
// next to the message every run is recognised by.
func (p *Peer) outputFor(runID string) map[string]any {
	out := OutputFor(runID)
	if p.WithDebugLogs {
		out["total"] = uint64(1<<63) + 5
		out["lowest"] = int64(-1 << 63)
		out["ratio"] = float32(0.5)
		out["by_id"] = map[any]any{uint64(1 << 63): "big key", int64(-1): "negative key"}
	}
	return out
}

func (p *Peer) debugLogs(runID string) string {
	if !p.WithDebugLogs {
		return ""
	}
	return DebugLogsFor(runID)
}

// DebugLogsFor: the debug logs a plugin may attach to its result are free text: empty, several lines, CRLF line ends,
// a progress bar redrawn with bare carriage returns, no final newline. Chosen by run id so that every session has a mix.
func DebugLogsFor(runID string) string {
	menu := []string{"", "one line\n", "first\r\nsecond\r\n", "no newline at the end", "\n\n", "tab\tand \x00 byte\n", "downloading 10%\rdownloading 80%\rdone\n"}
	h := 0
	for _, c := range runID {
		h = h*31 + int(c)
	}
	if h < 0 {
		h = -h
	}
	return menu[h%len(menu)]
}
