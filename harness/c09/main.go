// C09: self-description is faithful - describe, rebuild, describe is a fixed point.
package main

import (
	"bytes"
	"context"
	"encoding/json"
	"fmt"
	"io"
	"strings"
	"time"

	"github.com/fxamacker/cbor/v2"
	"go.flow.arcalot.io/pluginsdk/atp"
	"go.flow.arcalot.io/pluginsdk/schema"
	"gopkg.in/yaml.v3"
	"verif/engine/lib"
	"verif/engine/ux"
	"verif/harness/ukit"
)

func hasForeignNS(s *ukit.Spec) bool {
	f := false
	s.Walk(func(n *ukit.Spec) {
		if n.Kind == ukit.KRef && n.RefNS != "" {
			f = true
		}
	})
	return f
}

func hasLiteral(s *ukit.Spec) bool {
	f := false
	s.Walk(func(n *ukit.Spec) { f = f || n.Literal })
	return f
}

func scopes(tier string) []*ukit.Spec {
	var out []*ukit.Spec
	for _, s := range ukit.Universe(2, tier == "thorough") {
		if hasForeignNS(s) || hasLiteral(s) {
			continue // struct-literal schemas are not 'built through the public constructors'
		}
		out = append(out, ukit.WrapScope(s))
	}
	// display data on properties, unenforced ids, examples-free flags
	out = append(out, &ukit.Spec{Kind: ukit.KScope, Root: "D", Objects: []*ukit.Spec{{Kind: ukit.KObject, ID: "D", Unenforced: true, Props: []ukit.Prop{
		{Name: "shown", Type: &ukit.Spec{Kind: ukit.KString}, DisplayName: "Shown", Required: true},
		{Name: "either", Type: &ukit.Spec{Kind: ukit.KInt, Units: "bytes"}, RequiredIfNot: []string{"or"}, Conflicts: []string{"or"}},
		{Name: "or", Type: &ukit.Spec{Kind: ukit.KFloat, Units: "sec"}, RequiredIf: []string{"shown"}, Default: ukit.Str("1.5")},
		{Name: "gone", Type: &ukit.Spec{Kind: ukit.KBool}, Disabled: true},
	}}}})
	return out
}

type via struct {
	Name string
	F    func(d any) (any, error)
}

var vias = []via{
	{"direct", func(d any) (any, error) { return d, nil }},
	{"cbor", func(d any) (any, error) {
		b, err := cbor.Marshal(d)
		if err != nil {
			return nil, err
		}
		var out any
		return out, cbor.Unmarshal(b, &out)
	}},
	{"yaml", func(d any) (any, error) {
		b, err := yaml.Marshal(d)
		if err != nil {
			return nil, err
		}
		var out any
		return out, yaml.Unmarshal(b, &out)
	}},
}

func canon(d any) any {
	c, err := vias[1].F(d)
	if err != nil {
		return fmt.Sprintf("cbor error %v", err)
	}
	return c
}

type batch struct {
	Kind string `json:"kind"`
	Idx  int    `json:"idx"`
}

type replay struct {
	Kind string     `json:"kind"`
	Spec *ukit.Spec `json:"spec,omitempty"`
	Idx  int        `json:"idx"`
}

type checker struct {
	res  *ux.Result
	name string
	rp   replay
}

func (c *checker) fail(sig, detail string) { c.res.Add(sig, detail+"\nschema: "+c.name, c.rp) }

func (c *checker) guard(what string, f func()) bool {
	pan, val, stack := ukit.Call(f)
	if pan {
		c.fail(fmt.Sprintf("panic in %s: %s", lib.PanicSite(stack), lib.PanicClass(fmt.Sprint(val))), fmt.Sprintf("%s panicked: %v", what, val))
	}
	return !pan
}

// featureTag names the schema feature a behavioural difference can be attributed to (part of the signature,
// so that a ledger entry for one cause does not hide another).
func featureTag(s *ukit.Spec) string {
	tag := "map-based schema"
	s.Walk(func(n *ukit.Spec) {
		if n.Kind == ukit.KObject && n.Struct != "" {
			if tag == "map-based schema" {
				tag = "struct-mapped object"
			}
			for _, p := range n.Props {
				t := p.Type
				if t.Kind == ukit.KRef && t.Resolved() != nil {
					t = t.Resolved()
				}
				if t.Kind == ukit.KObject && t.Struct != "" && t.Struct[len(t.Struct)-1] != '*' && len(t.Props) > 0 {
					tag = "struct-mapped object with a by-value struct-mapped sub-object"
				}
			}
		}
	})
	return tag
}

// errClass reduces a validation error to its message without path and value specifics.
func errClass(err error) string {
	m := err.Error()
	if i := strings.Index(m, "': "); i >= 0 && strings.HasPrefix(m, "Validation failed for") {
		m = m[strings.LastIndex(m[:strings.Index(m+" (valid types", " (valid types")], "': ")+3:]
	}
	if i := strings.Index(m, " (valid types"); i >= 0 {
		m = m[:i]
	}
	if i := strings.Index(m, "["); i >= 0 {
		m = m[:i] + "[...]'"
	}
	if len(m) > 120 {
		m = m[:120]
	}
	return m
}

func pureMapBased(s *ukit.Spec) bool {
	pure := true
	s.Walk(func(n *ukit.Spec) {
		if n.Struct != "" || n.Kind == ukit.KTypedEnum {
			pure = false
		}
	})
	return pure
}

// compareBehaviour: original and rebuilt agree on accept/reject and on the wire form of what they accept.
func (c *checker) compareBehaviour(spec *ukit.Spec, orig, rebuilt schema.Type, how string) {
	raws := append(ukit.ValidValues(spec, 3), ukit.RawValues(spec)...)
	// the first few accepted inputs once more at the end: by then the caller has overwritten every value the original
	// handed out (below), which must not have changed what the original does
	raws = append(raws, ukit.ValidValues(spec, 3)...)
	raws = append(raws, map[string]any{"v": map[string]any{}}, map[string]any{})
	pure := pureMapBased(spec)
	for _, raw := range raws {
		c.res.Evaluations++
		c.guard("behaviour comparison ("+how+") on "+ukit.Show(raw), func() {
			uo, eo := orig.Unserialize(ukit.DeepCopy(raw))
			ur, er := rebuilt.Unserialize(ukit.DeepCopy(raw))
			if (eo == nil) != (er == nil) {
				c.fail("rebuilt schema accepts/rejects differently from the original ["+featureTag(spec)+"]", fmt.Sprintf("rebuilt via %s; input %s: original -> %v, rebuilt -> %v", how, ukit.Show(raw), eo, er))
				return
			}
			if eo != nil {
				return
			}
			if pure && !ukit.Equiv(uo, ur) {
				c.fail("rebuilt schema unserializes to another value than the original ["+featureTag(spec)+"]", fmt.Sprintf("rebuilt via %s; input %s: original -> %s, rebuilt -> %s", how, ukit.Show(raw), ukit.Show(uo), ukit.Show(ur)))
				return
			}
			// the caller owns what it was handed: overwrite the original's result in place (only the original's, so that a
			// value that shares memory with the schema shows as a difference from the rebuilt one on a later input)
			ukit.Scribble(uo)
		})
	}
}

func (c *checker) scope(spec *ukit.Spec) {
	var sch *schema.ScopeSchema
	if !c.guard("Build", func() { sch = ukit.BuildScope(spec) }) {
		return
	}
	ukit.Link(spec)
	var d any
	ok := c.guard("SelfSerialize", func() {
		var err error
		d, err = sch.SelfSerialize()
		if err != nil {
			c.fail("SelfSerialize fails for a schema built through the public constructors: "+errClass(err), err.Error())
			d = nil
		}
	})
	if !ok || d == nil {
		return
	}
	c.res.Nontrivial++
	if !ukit.IsWireValue(d) {
		c.fail("self-description is not built from the wire alphabet", ukit.Show(d))
	}
	for _, v := range vias {
		c.res.Evaluations++
		c.guard("rebuild via "+v.Name, func() {
			d2, err := v.F(d)
			if err != nil {
				c.fail("self-description does not survive "+v.Name, err.Error())
				return
			}
			rebuilt, err := schema.UnserializeScope(d2)
			if err != nil {
				c.fail("the SDK rejects its own self-description ("+v.Name+")", err.Error())
				return
			}
			dd, err := rebuilt.SelfSerialize()
			if err != nil {
				c.fail("rebuilt schema cannot describe itself ("+v.Name+")", err.Error())
				return
			}
			if !ukit.Equiv(canon(d), canon(dd)) {
				c.fail("describe -> rebuild -> describe is not a fixed point ("+v.Name+")", fmt.Sprintf("first:  %s\nsecond: %s", ukit.Show(canon(d)), ukit.Show(canon(dd))))
				return
			}
			c.compareBehaviour(spec, sch, rebuilt, v.Name)
		})
	}
	// Loaded through the meta-schema directly (no constructor, no convenience wrapper): first use of all lazy state.
	c.res.Evaluations++
	c.guard("load via DescribeScope().Unserialize", func() {
		l, err := schema.DescribeScope().Unserialize(ukit.DeepCopy(d))
		if err != nil {
			c.fail("the SDK rejects its own self-description (DescribeScope().Unserialize)", err.Error())
			return
		}
		ls := l.(*schema.ScopeSchema)
		ls.ApplySelf()
		c.compareBehaviour(spec, sch, ls, "DescribeScope().Unserialize + ApplySelf")
	})
	// The same scope as the input, an output, a signal handler and a signal emitter of a one-step plugin, carried by
	// a real hello message: this is where the description is nested deepest and where the client's own decoder
	// settings apply.
	c.plugin(pluginSpec{"wrapped " + c.name, []stepSpec{{ID: "s", Input: spec, Outputs: map[string]*ukit.Spec{"success": spec},
		Handlers: map[string]*ukit.Spec{"h": spec}, Emitters: map[string]*ukit.Spec{"e": spec}}}}, true)
}

// ---- whole plugin schemas through the hello message ------------------------------------------------

type pluginSpec struct {
	Name  string
	Steps []stepSpec
}

type stepSpec struct {
	ID       string
	Input    *ukit.Spec
	Outputs  map[string]*ukit.Spec
	Handlers map[string]*ukit.Spec
	Emitters map[string]*ukit.Spec
}

func plugins() []pluginSpec {
	ss := ukit.ScopeSpecs()
	leaf := func(s *ukit.Spec) *ukit.Spec { return ukit.WrapScope(s) }
	return []pluginSpec{
		{"one-step", []stepSpec{{ID: "s1", Input: leaf(ukit.MapObjA("In")), Outputs: map[string]*ukit.Spec{"success": leaf(ukit.MapObjB("Out"))}}}},
		{"refs-and-signals", []stepSpec{{ID: "s1", Input: ss[0], Outputs: map[string]*ukit.Spec{"success": ss[1], "error": ss[2]},
			Handlers: map[string]*ukit.Spec{"cancel": leaf(ukit.MapObjB("Sig")), "rec": ss[2]}, Emitters: map[string]*ukit.Spec{"progress": ss[0]}}}},
		{"two-steps", []stepSpec{
			{ID: "a", Input: ss[4], Outputs: map[string]*ukit.Spec{"ok": leaf(&ukit.Spec{Kind: ukit.KInt, Units: "sec"})}, Handlers: map[string]*ukit.Spec{"h": ss[3]}},
			{ID: "b", Input: ss[5], Outputs: map[string]*ukit.Spec{"ok": ss[3], "other": leaf(&ukit.Spec{Kind: ukit.KAny})}, Emitters: map[string]*ukit.Spec{"e": ss[4]}},
		}},
	}
}

func buildPlugin(p pluginSpec) *schema.SchemaSchema {
	steps := map[string]*schema.StepSchema{}
	for _, st := range p.Steps {
		outs := map[string]*schema.StepOutputSchema{}
		for id, o := range st.Outputs {
			outs[id] = schema.NewStepOutputSchema(ukit.BuildScope(o), schema.NewDisplayValue(schema.PointerTo("Output "+id), nil, nil), id == "error")
		}
		var hs, es map[string]*schema.SignalSchema
		if st.Handlers != nil {
			hs = map[string]*schema.SignalSchema{}
			for id, h := range st.Handlers {
				hs[id] = schema.NewSignalSchema(id, ukit.BuildScope(h), schema.NewDisplayValue(schema.PointerTo("Signal "+id), nil, nil))
			}
		}
		if st.Emitters != nil {
			es = map[string]*schema.SignalSchema{}
			for id, h := range st.Emitters {
				es[id] = schema.NewSignalSchema(id, ukit.BuildScope(h), nil)
			}
		}
		steps[st.ID] = schema.NewStepSchema(st.ID, ukit.BuildScope(st.Input), outs, hs, es, schema.NewDisplayValue(schema.PointerTo("Step "+st.ID), schema.PointerTo("does things"), nil))
	}
	return schema.NewSchema(steps).(*schema.SchemaSchema)
}

type helloChannel struct {
	io.Reader
	io.Writer
}

func (helloChannel) Close() error { return nil }

// Callable plugins: what a plugin process really describes itself with is CallableSchema.SelfSerialize (the hello
// message). A callable step is configured through exported fields; whatever it is at the moment of a description is
// what the description must say - also the second time, after the plugin author has added to it.
type callableCase struct {
	Name   string
	Mutate func(st *schema.CallableStepSchema[any, map[string]any])
}

func callableCases() []callableCase {
	return []callableCase{
		{"described twice, unchanged", func(st *schema.CallableStepSchema[any, map[string]any]) {}},
		{"a signal handler added after the first description", func(st *schema.CallableStepSchema[any, map[string]any]) {
			st.SignalHandlersValue["resume"] = callableSignal("resume")
		}},
		{"display data set after the first description", func(st *schema.CallableStepSchema[any, map[string]any]) {
			st.DisplayValue = schema.NewDisplayValue(schema.PointerTo("Step"), schema.PointerTo("does things"), nil)
		}},
		{"an output and an emitter added after the first description", func(st *schema.CallableStepSchema[any, map[string]any]) {
			st.OutputsValue["late"] = schema.NewStepOutputSchema(callableScope("Late"), nil, true)
			st.SignalEmittersValue["progress"] = schema.NewSignalSchema("progress", callableScope("Progress"), nil)
		}},
		{"the input scope replaced after the first description", func(st *schema.CallableStepSchema[any, map[string]any]) {
			st.InputValue = callableScope("In2")
		}},
	}
}

func callableScope(id string) *schema.ScopeSchema {
	return schema.NewScopeSchema(schema.NewObjectSchema(id, map[string]*schema.PropertySchema{
		"n": schema.NewPropertySchema(schema.NewIntSchema(schema.IntPointer(0), nil, schema.UnitBytes), nil, false, nil, nil, nil, schema.PointerTo("1"), nil),
		"s": schema.NewPropertySchema(schema.NewStringSchema(nil, nil, nil), schema.NewDisplayValue(schema.PointerTo("S"), nil, nil), true, nil, nil, nil, nil, nil),
	}))
}

func callableSignal(id string) schema.CallableSignal {
	return schema.NewCallableSignal[any, map[string]any](id, callableScope("Sig_"+id), nil, func(context.Context, any, map[string]any) {})
}

func newCallableStep() *schema.CallableStepSchema[any, map[string]any] {
	st := schema.NewCallableStepWithSignals[any, map[string]any]("s", callableScope("In"),
		map[string]*schema.StepOutputSchema{"success": schema.NewStepOutputSchema(callableScope("Out"), nil, false)},
		map[string]schema.CallableSignal{"pause": callableSignal("pause")},
		map[string]*schema.SignalSchema{"tick": schema.NewSignalSchema("tick", callableScope("Tick"), nil)},
		nil, nil,
		func(context.Context, any, map[string]any) (string, any) { return "success", map[string]any{"s": "x"} })
	return st.(*schema.CallableStepSchema[any, map[string]any])
}

func (c *checker) callable(cc callableCase) {
	c.guard("callable plugin", func() {
		st := newCallableStep()
		cs := schema.NewCallableSchema(st)
		d1, err := cs.SelfSerialize()
		if err != nil {
			c.fail("callable plugin SelfSerialize fails", err.Error())
			return
		}
		c.res.Nontrivial++
		c.res.Evaluations++
		rebuilt, err := schema.UnserializeSchema(d1)
		if err != nil {
			c.fail("the SDK rejects the self-description of a callable plugin", err.Error())
			return
		}
		if dd, err := rebuilt.SelfSerialize(); err != nil || !ukit.Equiv(canon(d1), canon(dd)) {
			c.fail("callable plugin describe -> rebuild -> describe is not a fixed point", fmt.Sprintf("err=%v\nfirst:  %s\nsecond: %s", err, ukit.Show(canon(d1)), ukit.Show(canon(dd))))
			return
		}
		// the plugin author goes on configuring the step; the next description (the next engine connecting) must say
		// what the step is now - exactly what a plugin built that way from the start says
		cc.Mutate(st)
		d2, err := cs.SelfSerialize()
		if err != nil {
			c.fail("callable plugin SelfSerialize fails the second time", err.Error())
			return
		}
		fresh := newCallableStep()
		cc.Mutate(fresh)
		want, err := schema.NewCallableSchema(fresh).SelfSerialize()
		if err != nil {
			c.fail("callable plugin SelfSerialize fails", err.Error())
			return
		}
		c.res.Evaluations++
		if !ukit.Equiv(canon(d2), canon(want)) {
			c.fail("the second self-description of a callable plugin is not that of the plugin as it is now", fmt.Sprintf("%s\nsecond description: %s\nplugin built that way from the start: %s", cc.Name, ukit.Show(canon(d2)), ukit.Show(canon(want))))
			return
		}
		if _, err := schema.UnserializeSchema(d2); err != nil {
			c.fail("the SDK rejects the second self-description of a callable plugin", err.Error())
		}
	})
}

func (c *checker) plugin(p pluginSpec, wrapped bool) {
	var orig *schema.SchemaSchema
	if !c.guard("build plugin", func() { orig = buildPlugin(p) }) {
		return
	}
	var d any
	if !c.guard("SelfSerialize", func() {
		var err error
		d, err = orig.SelfSerialize()
		if err != nil {
			c.fail("plugin SelfSerialize fails", err.Error())
			d = nil
		}
	}) || d == nil {
		return
	}
	c.res.Nontrivial++
	rebuilds := map[string]func() (*schema.SchemaSchema, error){
		"UnserializeSchema": func() (*schema.SchemaSchema, error) { return schema.UnserializeSchema(d) },
		"hello message -> Client.ReadSchema": func() (*schema.SchemaSchema, error) {
			b, err := cbor.Marshal(atp.HelloMessage{Version: atp.ProtocolVersion, Schema: d})
			if err != nil {
				return nil, err
			}
			cli := atp.NewClient(helloChannel{bytes.NewReader(b), io.Discard})
			return cli.ReadSchema()
		},
	}
	if wrapped {
		delete(rebuilds, "UnserializeSchema")
	}
	for how, f := range rebuilds {
		c.res.Evaluations++
		c.guard("rebuild via "+how, func() {
			rebuilt, err := f()
			if err != nil {
				c.fail("the SDK rejects its own plugin self-description ("+how+")", err.Error())
				return
			}
			dd, err := rebuilt.SelfSerialize()
			if err != nil {
				c.fail("rebuilt plugin schema cannot describe itself ("+how+")", err.Error())
				return
			}
			if !ukit.Equiv(canon(d), canon(dd)) {
				c.fail("plugin describe -> rebuild -> describe is not a fixed point ("+how+")", fmt.Sprintf("first:  %s\nsecond: %s", ukit.Show(canon(d)), ukit.Show(canon(dd))))
				return
			}
			for _, st := range p.Steps {
				rs := rebuilt.StepsValue[st.ID]
				os := orig.StepsValue[st.ID]
				if rs == nil {
					c.fail("rebuilt plugin schema lost a step", st.ID)
					continue
				}
				ukit.Link(st.Input)
				c.compareBehaviour(st.Input, os.InputValue, rs.InputValue, how+", input of "+st.ID)
				if wrapped {
					continue // the other three positions hold the same scope; their descriptions were compared above
				}
				for id, o := range st.Outputs {
					ukit.Link(o)
					if rs.OutputsValue[id] == nil {
						c.fail("rebuilt plugin schema lost an output", st.ID+"/"+id)
						continue
					}
					c.compareBehaviour(o, os.OutputsValue[id].SchemaValue, rs.OutputsValue[id].SchemaValue, how+", output "+id+" of "+st.ID)
				}
				for id, h := range st.Handlers {
					ukit.Link(h)
					if rs.SignalHandlersValue[id] == nil {
						c.fail("rebuilt plugin schema lost a signal handler", st.ID+"/"+id)
						continue
					}
					c.compareBehaviour(h, os.SignalHandlersValue[id].DataSchemaValue, rs.SignalHandlersValue[id].DataSchemaValue, how+", signal handler "+id+" of "+st.ID)
				}
				for id, h := range st.Emitters {
					ukit.Link(h)
					if rs.SignalEmittersValue[id] == nil {
						c.fail("rebuilt plugin schema lost a signal emitter", st.ID+"/"+id)
						continue
					}
					c.compareBehaviour(h, os.SignalEmittersValue[id].DataSchemaValue, rs.SignalEmittersValue[id].DataSchemaValue, how+", signal emitter "+id+" of "+st.ID)
				}
			}
		})
	}
}

// ---- schemas built with nil collections ----------------------------------------------------------------

// The constructors accept nil for every collection argument (no properties, no outputs, no steps, no signals);
// such schemas must describe themselves like their empty-but-non-nil twins.
type nilCase struct {
	Name     string
	Describe func() (any, error)
	Rebuild  func(d any) (interface{ SelfSerialize() (any, error) }, error)
}

func nilCases() []nilCase {
	scopeRebuild := func(d any) (interface{ SelfSerialize() (any, error) }, error) { return schema.UnserializeScope(d) }
	schemaRebuild := func(d any) (interface{ SelfSerialize() (any, error) }, error) { return schema.UnserializeSchema(d) }
	in := func() *schema.ScopeSchema { return ukit.BuildScope(ukit.WrapScope(ukit.MapObjA("In"))) }
	return []nilCase{
		{"object with nil properties", func() (any, error) {
			return schema.NewScopeSchema(schema.NewObjectSchema("Marker", nil)).SelfSerialize()
		}, scopeRebuild},
		{"object with empty properties", func() (any, error) {
			return schema.NewScopeSchema(schema.NewObjectSchema("Marker", map[string]*schema.PropertySchema{})).SelfSerialize()
		}, scopeRebuild},
		{"scope with a second object with nil properties", func() (any, error) {
			return schema.NewScopeSchema(schema.NewObjectSchema("Root", map[string]*schema.PropertySchema{
				"m": schema.NewPropertySchema(schema.NewRefSchema("Marker", nil), nil, false, nil, nil, nil, nil, nil),
			}), schema.NewObjectSchema("Marker", nil)).SelfSerialize()
		}, scopeRebuild},
		{"plugin schema with nil steps", func() (any, error) { return schema.NewSchema(nil).SelfSerialize() }, schemaRebuild},
		{"plugin schema with empty steps", func() (any, error) { return schema.NewSchema(map[string]*schema.StepSchema{}).SelfSerialize() }, schemaRebuild},
		{"step with nil outputs and signals", func() (any, error) {
			return schema.NewSchema(map[string]*schema.StepSchema{"s": schema.NewStepSchema("s", in(), nil, nil, nil, nil)}).SelfSerialize()
		}, schemaRebuild},
		{"step with empty outputs and signals", func() (any, error) {
			return schema.NewSchema(map[string]*schema.StepSchema{"s": schema.NewStepSchema("s", in(), map[string]*schema.StepOutputSchema{},
				map[string]*schema.SignalSchema{}, map[string]*schema.SignalSchema{}, nil)}).SelfSerialize()
		}, schemaRebuild},
		{"list and map with nil bounds inside an object", func() (any, error) {
			return schema.NewScopeSchema(schema.NewObjectSchema("Root", map[string]*schema.PropertySchema{
				"l": schema.NewPropertySchema(schema.NewListSchema(schema.NewStringSchema(nil, nil, nil), nil, nil), nil, false, nil, nil, nil, nil, nil),
				"e": schema.NewPropertySchema(schema.NewStringEnumSchema(map[string]*schema.DisplayValue{"a": nil}), nil, false, nil, nil, nil, nil, nil),
			})).SelfSerialize()
		}, scopeRebuild},
	}
}

func (c *checker) nilCase(nc nilCase) {
	c.res.Evaluations++
	c.guard(nc.Name, func() {
		d, err := nc.Describe()
		if err != nil {
			c.fail("SelfSerialize fails for a schema built through the public constructors with nil / empty collections", nc.Name+": "+err.Error())
			return
		}
		c.res.Nontrivial++
		for _, v := range vias {
			d2, err := v.F(d)
			if err != nil {
				c.fail("self-description does not survive "+v.Name, nc.Name+": "+err.Error())
				continue
			}
			rebuilt, err := nc.Rebuild(d2)
			if err != nil {
				c.fail("the SDK rejects its own self-description ("+v.Name+")", nc.Name+": "+err.Error())
				continue
			}
			dd, err := rebuilt.SelfSerialize()
			if err != nil {
				c.fail("rebuilt schema cannot describe itself ("+v.Name+")", nc.Name+": "+err.Error())
				continue
			}
			if !ukit.Equiv(canon(d), canon(dd)) {
				c.fail("describe -> rebuild -> describe is not a fixed point ("+v.Name+")", fmt.Sprintf("%s\nfirst:  %s\nsecond: %s", nc.Name, ukit.Show(canon(d)), ukit.Show(canon(dd))))
			}
		}
	})
}

func main() {
	ux.Main(ux.Harness{
		Property:   "C09",
		Level:      "exploration",
		Exhaustive: true,
		Batches: func(tier string) []any {
			var out []any
			for i := range scopes(tier) {
				out = append(out, batch{"scope", i})
			}
			for i := range plugins() {
				out = append(out, batch{"plugin", i})
			}
			for i := range nilCases() {
				out = append(out, batch{"nil", i})
			}
			for i := range callableCases() {
				out = append(out, batch{"callable", i})
			}
			return out
		},
		Run: func(tier string, raw json.RawMessage, from int, deadline time.Time) ux.Result {
			var b batch
			_ = json.Unmarshal(raw, &b)
			var res ux.Result
			ux.Progress(0)
			if b.Kind == "scope" {
				spec := scopes(tier)[b.Idx]
				c := &checker{res: &res, name: spec.String(), rp: replay{"scope", spec, b.Idx}}
				c.scope(spec)
				if b.Idx%97 == 0 {
					res.Samples = append(res.Samples, map[string]any{"scope": spec.String(), "evaluations": res.Evaluations})
				}
			} else if b.Kind == "nil" {
				nc := nilCases()[b.Idx]
				(&checker{res: &res, name: nc.Name, rp: replay{"nil", nil, b.Idx}}).nilCase(nc)
			} else if b.Kind == "callable" {
				cc := callableCases()[b.Idx]
				(&checker{res: &res, name: "callable plugin, " + cc.Name, rp: replay{"callable", nil, b.Idx}}).callable(cc)
			} else {
				p := plugins()[b.Idx]
				c := &checker{res: &res, name: "plugin " + p.Name, rp: replay{"plugin", nil, b.Idx}}
				c.plugin(p, false)
				res.Samples = append(res.Samples, map[string]any{"plugin": p.Name, "steps": len(p.Steps), "evaluations": res.Evaluations})
			}
			return res
		},
		Replay: func(raw json.RawMessage) []ux.Finding {
			var r replay
			if json.Unmarshal(raw, &r) != nil {
				return nil
			}
			var res ux.Result
			if r.Kind == "scope" {
				(&checker{res: &res, name: r.Spec.String(), rp: r}).scope(r.Spec)
			} else if r.Kind == "nil" {
				nc := nilCases()[r.Idx]
				(&checker{res: &res, name: nc.Name, rp: r}).nilCase(nc)
			} else if r.Kind == "callable" {
				cc := callableCases()[r.Idx]
				(&checker{res: &res, name: "callable plugin, " + cc.Name, rp: r}).callable(cc)
			} else {
				p := plugins()[r.Idx]
				(&checker{res: &res, name: "plugin " + p.Name, rp: r}).plugin(p, false)
			}
			return res.Findings
		},
		Rule: "every spec of U_2 wrapped as a scope (all kinds, units, enums with display names, defaults, presence rules, disabled properties, nested scopes, recursive references) plus a display/unenforced-id scope: d = SelfSerialize; for each of {direct, CBOR round trip, YAML round trip}: rebuilt = UnserializeScope(d') (plus DescribeScope().Unserialize + ApplySelf for the behaviour comparison), d2 = rebuilt.SelfSerialize must equal d, and rebuilt must agree with the original on accept/reject, unserialized value (map-based schemas) and serialized form for every raw value of V(spec); every one of those scopes also as input, output, signal handler and signal emitter of a one-step plugin rebuilt from a real hello message by Client.ReadSchema (description fixed point, behaviour of the input); 8 schemas built with nil or empty collections (no properties, no steps, no outputs / signals); 3 whole plugin schemas (1-2 steps, several outputs, signal handlers and emitters with recursive and one-of scopes) rebuilt through UnserializeSchema and through a real hello message read by Client.ReadSchema, with the same comparison for every input, output and signal data scope; a callable plugin (CallableSchema.SelfSerialize, what the hello message is made from) described, rebuilt and described again, then configured further through its exported fields (signal handler, display, output and emitter, input scope) and described a second time: the second description must be that of a plugin built that way from the start; non-trivial = schemas that described themselves",
		Assumptions: []string{
			"descriptions are compared after CBOR normalisation (dynamic Go types of numbers and maps differ by transport)",
			"schemas referring to foreign namespaces are excluded (they cannot be linked from their own description alone)",
		},
	})
}
