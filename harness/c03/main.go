// C03: object presence rules, defaults and one-of dispatch are enforced as declared.
package main

import (
	"encoding/json"
	"fmt"
	"strings"
	"time"

	"go.flow.arcalot.io/pluginsdk/mcrt"
	"go.flow.arcalot.io/pluginsdk/schema"
	"verif/engine/lib"
	"verif/engine/ux"
	"verif/harness/ukit"
)

// property type menu: (type spec, valid raw, type-invalid raw, default JSON)
type ptype struct {
	spec    func() *ukit.Spec
	valid   any
	invalid any
	deflt   string
}

var ptypes = []ptype{
	{func() *ukit.Spec { return &ukit.Spec{Kind: ukit.KString, Min: ukit.I64(1)} }, "a", []any{}, "\"dflt\""},
	{func() *ukit.Spec { return &ukit.Spec{Kind: ukit.KInt, Min: ukit.I64(0), Max: ukit.I64(5)} }, int64(3), "x", "2"},
	{func() *ukit.Spec {
		return &ukit.Spec{Kind: ukit.KObject, ID: "Nested", Props: []ukit.Prop{{Name: "k", Type: &ukit.Spec{Kind: ukit.KString}, Required: true}}}
	}, map[string]any{"k": "v"}, map[string]any{"zz": "v"}, "{\"k\": \"d\"}"},
}

var names = []string{"p", "q", "r"}

// flag bits per property: required, default, disabled, then for each other property: required_if, required_if_not, conflicts
func applyFlags(p *ukit.Prop, bits int, others []string, pt ptype) {
	p.Required = bits&1 != 0
	if bits&2 != 0 {
		p.Default = ukit.Str(pt.deflt)
	}
	p.Disabled = bits&4 != 0
	b := 3
	for _, o := range others {
		if bits&(1<<b) != 0 {
			p.RequiredIf = append(p.RequiredIf, o)
		}
		if bits&(1<<(b+1)) != 0 {
			p.RequiredIfNot = append(p.RequiredIfNot, o)
		}
		if bits&(1<<(b+2)) != 0 {
			p.Conflicts = append(p.Conflicts, o)
		}
		b += 3
	}
}

func flagBits(nOthers int) int { return 3 + 3*nOthers }

type objGen struct {
	N      int
	Types  []int
	Flags  []int
	Struct string
}

func (g objGen) spec() *ukit.Spec {
	s := &ukit.Spec{Kind: ukit.KObject, ID: "Obj", Struct: g.Struct}
	for i := 0; i < g.N; i++ {
		var others []string
		for j := 0; j < g.N; j++ {
			if j != i {
				others = append(others, g.name(j))
			}
		}
		p := ukit.Prop{Name: g.name(i), Type: ptypes[g.Types[i]].spec()}
		applyFlags(&p, g.Flags[i], others, ptypes[g.Types[i]])
		s.Props = append(s.Props, p)
	}
	return s
}

func (g objGen) name(i int) string {
	if g.Struct != "" {
		return []string{"s", "i"}[i]
	}
	return names[i]
}

func popcount(x int) int {
	n := 0
	for ; x != 0; x &= x - 1 {
		n++
	}
	return n
}

// objects enumerates the object universe of a tier.
func objects(tier string) []objGen {
	var out []objGen
	// n = 1: all flag combinations x all types
	for t := range ptypes {
		for f := 0; f < 1<<flagBits(0); f++ {
			out = append(out, objGen{N: 1, Types: []int{t}, Flags: []int{f}})
		}
	}
	// n = 2: all flag combinations for (string, int); (string, nested) and (int, nested) with <= 3 set flags
	nb := flagBits(1)
	for f0 := 0; f0 < 1<<nb; f0++ {
		for f1 := 0; f1 < 1<<nb; f1++ {
			out = append(out, objGen{N: 2, Types: []int{0, 1}, Flags: []int{f0, f1}})
			if popcount(f0)+popcount(f1) <= 3 {
				out = append(out, objGen{N: 2, Types: []int{0, 2}, Flags: []int{f0, f1}}, objGen{N: 2, Types: []int{1, 2}, Flags: []int{f0, f1}})
			}
			// struct mapped (value fields and pointer fields)
			out = append(out, objGen{N: 2, Types: []int{0, 1}, Flags: []int{f0, f1}, Struct: "SP"})
			if popcount(f0)+popcount(f1) <= 3 {
				out = append(out, objGen{N: 2, Types: []int{0, 1}, Flags: []int{f0, f1}, Struct: "SA"})
			}
		}
	}
	// n = 3: at most 2 (thorough: 3) set flags in total
	limit := 2
	if tier == "thorough" {
		limit = 3
	}
	nb = flagBits(2)
	var rec func(i int, flags []int, used int)
	rec = func(i int, flags []int, used int) {
		if i == 3 {
			out = append(out, objGen{N: 3, Types: []int{0, 1, 2}, Flags: append([]int{}, flags...)})
			return
		}
		for f := 0; f < 1<<nb; f++ {
			if used+popcount(f) <= limit {
				rec(i+1, append(flags, f), used+popcount(f))
			}
		}
	}
	rec(0, nil, 0)
	return out
}

type batch struct {
	Kind string `json:"kind"` // objects / oneof
	Lo   int    `json:"lo"`
	Hi   int    `json:"hi"`
}

type replay struct {
	Spec *ukit.Spec `json:"spec"`
	Path string     `json:"path"`
	Desc string     `json:"value"`
	Idx  int        `json:"index"`
}

// inputs for an object: every subset of supplied properties x valid/invalid per supplied property, in two
// map representations, plus structural probes.
func objectInputs(g objGen) []any {
	var out []any
	n := g.N
	total := 1
	for i := 0; i < n; i++ {
		total *= 3
	}
	for code := 0; code < total; code++ {
		m := map[string]any{}
		c := code
		for i := 0; i < n; i++ {
			switch c % 3 {
			case 1:
				m[g.name(i)] = ptypes[g.Types[i]].valid
			case 2:
				m[g.name(i)] = ptypes[g.Types[i]].invalid
			}
			c /= 3
		}
		out = append(out, m)
		am := map[any]any{}
		for k, v := range m {
			am[k] = v
		}
		out = append(out, am)
	}
	full := map[string]any{}
	for i := 0; i < n; i++ {
		full[g.name(i)] = ptypes[g.Types[i]].valid
	}
	extra := map[string]any{"undeclared": "x"}
	nonString := map[any]any{int64(7): "x"}
	for k, v := range full {
		extra[k] = v
		nonString[k] = v
	}
	out = append(out, extra, nonString, nil, []any{"a"})
	// lone values
	for i := 0; i < n && i < 1; i++ {
		out = append(out, ptypes[g.Types[i]].valid, ptypes[g.Types[i]].invalid, "a", int64(3))
	}
	return out
}

type checker struct {
	res    *ux.Result
	spec   *ukit.Spec
	only   *replay
	orders bool // explore map iteration orders (set while the constructor-built instance runs)
	tier   string
}

func (c *checker) fail(sig, detail, path string, i int, v any) {
	c.res.Add(sig, detail+"\nschema: "+c.spec.String(), replay{c.spec, path, ukit.Show(v), i})
}

func (c *checker) guard(path string, i int, v any, f func()) {
	if c.only != nil && (c.only.Path != path || c.only.Idx != i) {
		return
	}
	if ux.Stop() {
		c.res.Capped = true // the batch's time is up: the rest is left unexplored and the run says so
		return
	}
	// Unserialize on the constructor-built instance and its judgement run under the sorted iteration order and under
	// every single deviating order of every map the operation ranges over (map-order seam; schema/ is built with the
	// maporder rewrite for this check): presence rules, defaults and dispatch must come out the same whichever
	// property is visited first. The other operations run under the sorted order.
	if !(path == "Unserialize" && c.orders) {
		// sorted order (what the seam yields outside an exploration)
		pan, val, stack := ukit.Call(f)
		if pan {
			c.fail(fmt.Sprintf("panic in %s: %s", lib.PanicSite(stack), lib.PanicClass(fmt.Sprint(val))), fmt.Sprintf("%s(%s) panicked: %v", path, ukit.Show(v), val), path, i, v)
		}
		return
	}
	e := &mcrt.Explorer{Embedded: true, MaxPreempt: 0, MaxDelay: -1, MaxDeviate: 1, MaxSteps: 1 << 20, Body: f, Check: func(r *mcrt.Result) bool {
		c.res.Transitions++
		if r.Status == mcrt.StPanic {
			c.fail(fmt.Sprintf("panic in %s: %s", lib.PanicSite(r.PanicStack), lib.PanicClass(r.PanicValue)), fmt.Sprintf("%s(%s) panicked: %v", path, ukit.Show(v), r.PanicValue), path, i, v)
		}
		return true
	}}
	e.Deadline = ux.BatchDeadline()
	e.All()
	if e.Stats.Capped {
		c.res.Capped = true
	}
}

// small: no object of the spec has more than four properties (the iteration-order menu is complete - all
// permutations - up to four keys; beyond that it is a sample of n+1 orders, and the quick tier leaves those to the
// thorough tier).
func small(spec *ukit.Spec) bool {
	ok := true
	spec.Walk(func(n *ukit.Spec) {
		if n.Kind == ukit.KObject && len(n.Props) > 4 {
			ok = false
		}
	})
	return ok
}

func (c *checker) run(sch schema.Type, inputs []any, what string) {
	spec := c.spec
	if c.orders && c.tier != "thorough" && !small(spec) {
		c.orders = false
	}
	var natives []any
	for i, raw := range inputs {
		want, denoted := ukit.Denote(spec, raw)
		if want == ukit.Unknown {
			c.res.Skipped++
			continue
		}
		c.res.Evaluations++
		c.guard("Unserialize", i, raw, func() {
			got, err := sch.Unserialize(ukit.DeepCopy(raw))
			switch {
			case err == nil && want == ukit.No:
				c.fail(what+": Unserialize accepts a value the declared rules reject", fmt.Sprintf("Unserialize(%s) = %s", ukit.Show(raw), ukit.Show(got)), "Unserialize", i, raw)
			case err != nil && want == ukit.Yes:
				c.fail(what+": Unserialize rejects a value the declared rules accept", fmt.Sprintf("Unserialize(%s) -> %v; expected %s", ukit.Show(raw), err, ukit.Show(denoted)), "Unserialize", i, raw)
			case err == nil && !ukit.Equiv(got, denoted):
				c.fail(what+": Unserialize returns another value than declared (defaults / dispatch)", fmt.Sprintf("Unserialize(%s) = %s; expected %s", ukit.Show(raw), ukit.Show(got), ukit.Show(denoted)), "Unserialize", i, raw)
			}
			if err == nil {
				natives = append(natives, got)
			}
		})
	}
	// native path: accepted values, plus each with one key removed / one undeclared key added
	seen := map[string]bool{}
	var cands []any
	repairs := map[int]func() string{} // candidate index -> puts the removed key back into that very map
	for _, n := range natives {
		cands = append(cands, n)
		if m, ok := n.(map[string]any); ok {
			for _, k := range ukit.SortedKeys(m) {
				d := map[string]any{}
				for kk, vv := range m {
					if kk != k {
						d[kk] = vv
					}
				}
				k, v := k, m[k]
				whole := ukit.Snapshot(n)
				repairs[len(cands)] = func() string { d[k] = v; return whole }
				cands = append(cands, d)
			}
			e := map[string]any{"undeclared": "x"}
			for kk, vv := range m {
				e[kk] = vv
			}
			cands = append(cands, e)
		}
	}
	for i, nv := range cands {
		k := ukit.Snapshot(nv)
		if seen[k] {
			continue
		}
		seen[k] = true
		want := ukit.ValidNative(spec, nv)
		if want == ukit.Unknown {
			c.res.Skipped++
			continue
		}
		c.res.Evaluations += 2
		c.guard("Validate", i, nv, func() {
			err := sch.Validate(nv)
			if (err == nil) != (want == ukit.Yes) {
				c.fail(what+": Validate disagrees with the declared rules on a native value", fmt.Sprintf("Validate(%s) -> %v; reference says %s", ukit.Show(nv), err, want), "Validate", i, nv)
			}
		})
		c.guard("Serialize", i, nv, func() {
			_, err := sch.Serialize(nv)
			if (err == nil) != (want == ukit.Yes) {
				c.fail(what+": Serialize disagrees with the declared rules on a native value", fmt.Sprintf("Serialize(%s) -> %v; reference says %s", ukit.Show(nv), err, want), "Serialize", i, nv)
			}
		})
		if repair := repairs[i]; repair != nil && want == ukit.No {
			// the caller repairs the rejected value (puts the missing key back into the same map) and tries again: it is
			// now the value Unserialize returned, which the rules accept
			c.res.Evaluations++
			c.guard("Validate", i, nv, func() {
				if whole := repair(); ukit.Snapshot(nv) != whole {
					c.fail(what+": a rejected Validate / Serialize changed the value it was given", fmt.Sprintf("the key removed from %s was put back after the rejected calls; the map is now %s", whole, ukit.Show(nv)), "Validate", i, nv)
					return
				}
				if err := sch.Validate(nv); err != nil {
					c.fail(what+": Validate rejects a repaired native value that the declared rules accept", fmt.Sprintf("after a rejected Validate / Serialize the missing key was put back: Validate(%s) -> %v", ukit.Show(nv), err), "Validate", i, nv)
				} else if _, err := sch.Serialize(nv); err != nil {
					c.fail(what+": Serialize rejects a repaired native value that the declared rules accept", fmt.Sprintf("after a rejected Validate / Serialize the missing key was put back: Serialize(%s) -> %v", ukit.Show(nv), err), "Serialize", i, nv)
				}
			})
		}
	}
}

// loaded returns the same schema obtained without constructors (see ukit.LoadScope): first use of every lazily
// computed part. Only for map-based specs, which denote the same values either way.
func loaded(spec *ukit.Spec) schema.Type {
	if !ukit.PureMapBased(spec) {
		return nil
	}
	l, err := ukit.LoadType(spec)
	if err != nil {
		return nil
	}
	return l
}

func oneOfSpecs() []*ukit.Spec {
	out := ukit.OneOfSpecs()
	out = append(out, ukit.OneOfAllSpecs()...) // members with every leaf kind; members under the key 0 / ""
	// one-ofs over references inside a scope
	out = append(out, ukit.ScopeSpecs()[4])
	return out
}

// runChain: a finite chain of one-property objects against the reference: every raw value of the spec, and every valid
// value with each one-property object also given as its lone value.
func runChain(spec *ukit.Spec, tier string, res *ux.Result) {
	var sch schema.Type
	if pan, _, _ := ukit.Call(func() { sch = ukit.Build(spec) }); pan {
		return
	}
	spec.Walk(func(n *ukit.Spec) {
		if n.Kind == ukit.KScope {
			ukit.Link(n)
		}
	})
	inputs := ukit.RawValues(spec)
	for _, v := range ukit.ValidValues(spec, 3) {
		if sh, changed := ukit.Shorthand(spec, v); changed {
			inputs = append(inputs, sh)
		}
	}
	c := &checker{res: res, spec: spec, tier: tier}
	c.run(sch, inputs, "chain of one-property objects")
	res.Nontrivial++
	if l := loaded(spec); l != nil {
		c.run(l, inputs, "chain of one-property objects loaded from its description")
	}
}

func main() {
	ux.Main(ux.Harness{
		Property:    "C03",
		Level:       "exploration",
		Exhaustive:  true,
		TaskTimeout: 600 * time.Second,
		Batches: func(tier string) []any {
			n := len(objects(tier))
			var out []any
			for lo := 0; lo < n; lo += 100 {
				hi := lo + 100
				if hi > n {
					hi = n
				}
				out = append(out, batch{"objects", lo, hi})
			}
			for i := range oneOfSpecs() {
				out = append(out, batch{"oneof", i, i + 1})
			}
			out = append(out, batch{"shapes", 0, len(ukit.ShapeSpecs())})
			out = append(out, batch{"chains", 0, len(ukit.SameIDChainSpecs())})
			return out
		},
		Run: func(tier string, raw json.RawMessage, from int, deadline time.Time) ux.Result {
			var b batch
			_ = json.Unmarshal(raw, &b)
			var res ux.Result
			if b.Kind == "shapes" {
				// the struct menu (value fields, pointer fields, nested structs, treat-empty-as-default fields with conflict
				// rules): Unserialize against the reference, and - struct-mapped native values being outside the reference -
				// Validate and Serialize must at least accept every value Unserialize has just produced
				for _, spec := range ukit.ShapeSpecs() {
					var sch schema.Type
					if pan, _, _ := ukit.Call(func() { sch = ukit.Build(spec) }); pan {
						continue
					}
					c := &checker{res: &res, spec: spec, tier: tier}
					c.orders = true
					inputs := ukit.RawValues(spec)
					what := "struct-mapped object"
					for _, p := range spec.Props {
						if t := p.Type; t.Kind == ukit.KObject && t.Struct != "" && !strings.HasSuffix(t.Struct, "*") && len(t.Props) > 0 {
							// the sub-object default injection of by-value struct fields is a ledgered behaviour (see C09); its
							// consequences get a signature of their own
							what = "struct-mapped object with a by-value struct-mapped sub-object"
						}
					}
					c.run(sch, inputs, what)
					for i, raw := range inputs {
						c.guard("Validate", i, raw, func() {
							got, err := sch.Unserialize(ukit.DeepCopy(raw))
							if err != nil {
								return
							}
							res.Evaluations++
							if verr := sch.Validate(got); verr != nil {
								c.fail("struct-mapped object: Validate applies other presence rules than Unserialize", fmt.Sprintf("Unserialize(%s) = %s; Validate of that value -> %v", ukit.Show(raw), ukit.Show(got), verr), "Validate", i, raw)
							} else if _, serr := sch.Serialize(got); serr != nil {
								c.fail("struct-mapped object: Serialize applies other presence rules than Unserialize", fmt.Sprintf("Unserialize(%s) = %s; Serialize of that value -> %v", ukit.Show(raw), ukit.Show(got), serr), "Validate", i, raw)
							}
						})
					}
					res.Nontrivial++
				}
				return res
			}
			if b.Kind == "chains" {
				// finite chains of one-property objects, two of which carry the same id: every raw value of the spec, and
				// every valid value with each one-property object also given as its lone value
				for _, spec := range ukit.SameIDChainSpecs() {
					runChain(spec, tier, &res)
				}
				return res
			}
			if b.Kind == "oneof" {
				for _, spec := range oneOfSpecs()[b.Lo:b.Hi] {
					var sch schema.Type
					pan, _, _ := ukit.Call(func() { sch = ukit.Build(spec) })
					if pan {
						continue
					}
					spec.Walk(func(n *ukit.Spec) {
						if n.Kind == ukit.KScope {
							ukit.Link(n)
						}
					})
					c := &checker{res: &res, spec: spec, tier: tier}
					c.orders = true
					c.run(sch, ukit.RawValues(spec), "one-of")
					res.Nontrivial++
					if l := loaded(spec); l != nil {
						c.orders = false
						c.run(l, ukit.RawValues(spec), "one-of loaded from its description")
					}
				}
				if b.Lo == 1 {
					res.Samples = append(res.Samples, map[string]any{"one_of": oneOfSpecs()[1].String()})
				}
				return res
			}
			objs := objects(tier)
			for i := b.Lo; i < b.Hi; i++ {
				if ux.Stop() {
					res.Capped = true
					break
				}
				ux.Progress(i - b.Lo)
				g := objs[i]
				spec := g.spec()
				var sch schema.Type
				pan, _, _ := ukit.Call(func() { sch = ukit.Build(spec) })
				if pan {
					continue // the constructors refuse this combination
				}
				c := &checker{res: &res, spec: spec, tier: tier}
				what := "object"
				if g.Struct != "" {
					what = "struct-mapped object"
				}
				c.orders = true
				c.run(sch, objectInputs(g), what)
				res.Nontrivial++
				if l := loaded(spec); l != nil {
					c.orders = false
					c.run(l, objectInputs(g), "object loaded from its description")
				}
			}
			if b.Lo%5000 == 0 && b.Kind != "oneof" {
				g := objs[(b.Lo+b.Hi)/2]
				res.Samples = append(res.Samples, map[string]any{"object": g.spec().String(), "inputs": len(objectInputs(g))})
			}
			return res
		},
		Replay: func(raw json.RawMessage) []ux.Finding {
			var r replay
			if json.Unmarshal(raw, &r) != nil {
				return nil
			}
			var res ux.Result
			for _, ch := range ukit.SameIDChainSpecs() {
				if ch.String() == r.Spec.String() {
					runChain(ch, "thorough", &res)
					return res.Findings
				}
			}
			sch := ukit.Build(r.Spec)
			r.Spec.Walk(func(n *ukit.Spec) {
				if n.Kind == ukit.KScope {
					ukit.Link(n)
				}
			})
			c := &checker{res: &res, spec: r.Spec, tier: "thorough"}
			if r.Spec.Kind == ukit.KObject {
				// rebuild the generator inputs from the spec: types by property kind
				g := objGen{N: len(r.Spec.Props), Struct: r.Spec.Struct}
				for _, p := range r.Spec.Props {
					switch p.Type.Kind {
					case ukit.KString:
						g.Types = append(g.Types, 0)
					case ukit.KInt:
						g.Types = append(g.Types, 1)
					default:
						g.Types = append(g.Types, 2)
					}
				}
				c.orders = true
				c.run(sch, objectInputs(g), "object")
				if l := loaded(r.Spec); l != nil {
					c.orders = false
					c.run(l, objectInputs(g), "object loaded from its description")
				}
			} else {
				c.orders = true
				c.run(sch, ukit.RawValues(r.Spec), "one-of")
				if l := loaded(r.Spec); l != nil {
					c.orders = false
					c.run(l, ukit.RawValues(r.Spec), "one-of loaded from its description")
				}
			}
			return res.Findings
		},
		Rule: "Unserialize on the constructor-built instance runs under the sorted and under every single deviating iteration order of every map it ranges over (map-order seam; the other operations under the sorted order); objects with 1-3 properties over property types {string[1..], int[0..5], nested object}: ALL combinations of the per-property flags required / required_if / required_if_not / conflicts (each over every subset of the other properties) / default / disabled for n=1 (3 types) and n=2 (string,int; map-based and struct-mapped with pointer fields), <=3 set flags for the other n=2 type pairs and value-field structs, <=2 (thorough 3) set flags for n=3; x every subset of supplied properties x {valid, type-invalid} value per supplied property in two map representations x {undeclared key, non-string key, nil, list, lone values}; every map-based object and one-of twice: built by the constructors, and loaded from its own description through the meta-schema without constructors (first use of all lazily computed state); Unserialize is compared with the reference presence interpreter (verdict and value incl. defaults), Validate/Serialize with the reference on every accepted native value and its one-key-removed / undeclared-key-added neighbours. Finite chains of one-property objects in which two different objects carry the same id (object used directly as a property type; embedded scope whose root is named like the enclosing root): raw values and the lone-value shorthand at every level. The struct menu of the universe (9 shapes): Unserialize against the reference, and Validate / Serialize must accept every value Unserialize produced. One-ofs: string and int keys x inlined / not x map-based, struct-mapped and referenced members x discriminator in every representation / unknown / missing / wrong type x member-valid and member-invalid payloads; non-trivial = distinct object / one-of schemas",
		Assumptions: []string{
			"defaults are applied first and never override a supplied value; then presence rules; a disabled property that is supplied or defaulted is 'in use'",
			"Unknown (skipped): disabled properties in native values, struct-mapped native values, named string key types",
		},
	})
}
