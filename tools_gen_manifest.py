#!/usr/bin/env python3
"""Regenerates /verif/MANIFEST.json from the table below (kept in one place so it stays valid)."""
import json, os
CHECKS = {
 "C01": dict(level="exploration", engine="U",
   text="Every spec of U_2 (~600 schemas of all 15 kinds incl. struct-mapped objects, typed enums, one-ofs with inlined/non-inlined string/int discriminators, (recursive) references) x every raw value of its boundary/representation set that Unserialize accepts is driven through the fixed pipeline Unserialize -> Validate -> Serialize (wire alphabet only) -> Unserialize -> Serialize -> CBOR encode/decode with ATP's decoder options -> Unserialize -> Validate -> Serialize -> Unserialize, demanding equal values and identical wire forms at every stage; 14 typed instantiations compare UnserializeType/ValidateType/SerializeType with the untyped calls.",
   note="Trusted: the value generators and structural equality in harness/ukit; relational oracle (no expected values).",
   technique="exhaustive enumeration of a bounded (schema, accepted value) universe with a relational round-trip oracle incl. real CBOR transport", design="DESIGN.md §7 C01"),
 "C02": dict(level="exploration", engine="U",
   text="Exhaustive small-scope comparison with a reference interpreter: ~90 leaf schemas (every (min,max) presence combination incl. min>max, units, patterns, enums with/without display names, typed enum, any) plus lists/maps over one representative per kind x 6 size-bound combinations x 4 key kinds and depth-2 nestings, each against its full boundary value set in every Go representation (int/uint widths, float32/64, decimal and unit strings, boolean words, 2^63 edges, NaN/Inf, wrong types). Unserialize must accept exactly what the reference denotes and return exactly that value; Validate and Serialize must enforce the same constraints on every value of the native type and produce the reference wire form.",
   note="Trusted: the reference interpreter harness/ukit/ref.go (independent for bounds/sizes/membership/unit arithmetic; delegates to strconv and fmt for the lenient conversions); ambiguous inputs are skipped and counted.",
   technique="exhaustive enumeration of a bounded (schema, value) universe against a reference model (differential, small-scope)", design="DESIGN.md §6, §7 C02"),
 "C03": dict(level="exploration", engine="U",
   text="~9500 object schemas generated from ALL combinations of the per-property flags (required, required_if / required_if_not / conflicts over every subset of the other properties, default, disabled) for 1- and 2-property objects (map-based and struct-mapped) and bounded flag counts for 3 properties, each against every subset of supplied properties x {valid, type-invalid} values in two map representations plus undeclared keys, non-string keys and lone values; Unserialize (verdict, defaults, value), Validate and Serialize are compared with a reference presence interpreter. One-of schemas (string/int keys, inlined or not, map-based / struct-mapped / referenced members) are compared with a reference dispatcher over discriminators in every representation, unknown, missing and wrongly typed, with member-valid and member-invalid payloads.",
   note="Trusted: the reference presence interpreter and dispatcher in harness/ukit/ref_object.go; disabled properties in native values and struct-mapped native values are skipped as ambiguous.",
   technique="exhaustive enumeration of the flag-combination space of small objects x supplied-property subsets against a reference model", design="DESIGN.md §7 C03"),
 "C04": dict(level="exploration", engine="U",
   text="Exhaustive small-scope enumeration: every spec of U_2 (~600 schemas: all leaf kinds x bound presence combinations, lists, maps, map-based and struct-mapped objects, typed enums, one-ofs, scopes with (recursive) references, containers of those) x {its own boundary/representation value set; a valid value with each of ~55 hostile values (nil, typed nils, named scalars, byte strings, CBOR tags, big numbers, typed maps/slices, non-string and NaN keys, extreme numbers, nesting depth 1000) at every value and key position; the native value likewise} x {Unserialize, data-mode ValidateCompatibility, Validate, Serialize}; each call must return - a panic is caught per case, a fatal runtime error or hang kills the supervised worker and is attributed to the case in flight.",
   note="Trusted: the enumerators in harness/ukit; single substitution per value; panics are identified by (function of the SDK on the stack, message class).",
   technique="exhaustive enumeration of a bounded (schema, operation, value) space with per-case panic capture and supervised workers (bounded exhaustive exploration of input shapes)", design="DESIGN.md §6, §7 C04"),
 "C05": dict(level="model_checking", engine="S",
   text="The real client against the real RunATPServer (and a v1 peer answering with the real CallStep) for 11-14 sessions (1-3 Executes serial/concurrent, valid / schema-rejected / unknown-step input, a signal, pipe and buffered-stream transports with read fragmentation): every schedule within the delay bound and every fragmentation within the deviation bound is executed and each Execute must return exactly the (output id, CBOR-normalised data) that CallStep returns in-process for its own input; rejected input must come back as that call's error.",
   note="Trusted: scheduler shim, rewriter; expected values come from the repository's own CallStep in-process; payload variety is C01's job.",
   technique="stateless model checking of client+server implementation: delay-bounded DFS over schedules and fragmentation choices, differential oracle against the in-process call", design="DESIGN.md §7 C05"),
 "C06": dict(level="model_checking", engine="S",
   text="Exhaustive enumeration of all thread schedules (bounded by the number of non-default scheduling choices, iterated 0,1,2[,3]) of the real ATP client against a scripted correct peer, for 15-18 session histories of 1-3 Executes with signals and step-fatal errors; every execution must end with every Execute and Close returned, own results delivered, no client thread left, no timer needed.",
   note="Trusted: the cooperative scheduler shim (engine/mcrt) and the source rewriter (engine/vinstr); scripted peer is causally correct; scheduling points only at sync/channel/transport operations; bounds as reported in evidence.",
   technique="stateless model checking of the implementation: delay/preemption-bounded DFS over schedules under a controlled scheduler", design="DESIGN.md §3, §7 C06"),
 "C07": dict(level="fault_enumeration", engine="S",
   text="Client scripts = handshake + every sequence of 1-2 (thorough: 3) messages over a 23-item alphabet of valid and invalid client behaviour (7 step behaviours incl. panic/undeclared/invalid output, duplicate/unknown/empty ids, wrongly typed payloads, 6 signal variants, unknown message id, client-done, malformed CBOR), cut at every byte offset, then end of input (thorough: server output failing from write j on); for each script every thread schedule of the real RunATPServer within the delay bound. No panic, no deadlock, the server returns, output is a well-formed message sequence with exactly one terminal message per accepted work-start.",
   note="Trusted: scheduler shim, rewriter; 'accepted work-start' computed from the script; signal-handler panics (plugin bug, not client input) are outside the alphabet.",
   technique="exhaustive enumeration of client message sequences and truncation points combined with delay-bounded schedule exploration of the implementation", design="DESIGN.md §7 C07"),
 "C08": dict(level="fault_enumeration", engine="S",
   text="For 11-13 session scenarios (v3 with 1-3 concurrent runs, signals, non-fatal errors, a later Execute; v1; unusable hellos) every byte offset of the server->client transcript x {EOF, read error, 0xFF garbage} and every client write index x {fails once, fails persistently} is enumerated as an environment choice, each under every thread schedule within the delay bound; ReadSchema/Execute/Close must return, nothing may panic or stay blocked, and success may be reported only for a run whose work-done message arrived intact, with exactly its payload.",
   note="Trusted: scheduler shim, rewriter, the scripted peer built from the repository's own message types; 0xFF-garbage argument for 'not intact' (DESIGN §4.2); timers virtual.",
   technique="exhaustive fault-point enumeration (every byte offset x fault kind, every write index) combined with delay-bounded schedule exploration of the implementation", design="DESIGN.md §4.2, §7 C08"),
 "C09": dict(level="exploration", engine="U",
   text="Every spec of U_2 wrapped as a scope (all kinds, units, enums, defaults, presence rules, disabled properties, nested scopes, recursive references) is described with SelfSerialize, rebuilt with UnserializeScope directly, after a CBOR round trip and after a YAML round trip, and described again: the descriptions must be identical and the rebuilt schema must accept/reject every raw value of V(spec) like the original and (map-based schemas) unserialize it to the same value. Three whole plugin schemas with several outputs, signal handlers and emitters are rebuilt through UnserializeSchema and through a real hello message read by Client.ReadSchema, with the same comparison for every input, output and signal data scope.",
   note="Trusted: value generators and structural equality of harness/ukit; descriptions are compared after CBOR normalisation; schemas with foreign-namespace references are excluded.",
   technique="exhaustive enumeration of a bounded schema universe x three transports with a fixed-point and differential-behaviour oracle", design="DESIGN.md §7 C09"),
 "C10": dict(level="fault_enumeration", engine="U",
   text="Every single structural mutation at every node of ~18 base self-descriptions (references under properties/lists/maps/one-of, recursive objects, nested scopes with colliding ids, struct-mapped objects, all one-of flavours, units, patterns, enums, defaults, presence rules) and of a whole plugin schema: value retyped to 12 alien values, key replaced, entry deleted or duplicated, id/root/namespace/discriminator re-pointed, inlining flag flipped, default made unparsable, pattern made invalid, type_id replaced; plus ~3000 grammar-free trees. Each is given to UnserializeScope / UnserializeSchema / Client.ReadSchema (real hello bytes); the result must be an error or a schema that survives the total-operation harness (SelfSerialize, ValidateReferences, four operations on valid values, hostile values one level down and at top level). Fatal errors and hangs are attributed to the mutant by the worker supervisor.",
   note="Trusted: the mutation generator over CBOR-normalised descriptions; single mutations only.",
   technique="exhaustive single-fault (mutation) enumeration over every node of bounded schema descriptions, each followed by bounded exhaustive use of the returned schema", design="DESIGN.md §7 C10"),
 "C11": dict(level="model_checking", engine="S+A+U",
   text="Part S: CallStep and CallSignal for two run ids issued by 2-4 (thorough 5) threads on one callable schema with an initializer; every interleaving within the delay bound (3, thorough 5) is executed under the scheduler shim with access events on schema/: the initializer must run exactly once per run id whichever of step or signal arrives first, step and signal handlers of a run must see the same step data object, every call must succeed, no happens-before race. Part U: one callable step over each of 6 input scopes x every raw input x 5 handler behaviours x existing/unknown step id, and 5 signal calls per scope, compared with the reference interpreter: handler invoked exactly once iff the input is accepted and with exactly the denoted value, output id and serialized data, error types BadArgumentError / InvalidInputError / InvalidOutputError, unknown ids are errors.",
   note="Trusted: scheduler shim, access rewrite, reference interpreter; error type for non-conforming output data is not pinned down.",
   technique="stateless model checking (delay-bounded schedule exploration with vector-clock race detection) of the step-data table plus exhaustive input enumeration against a reference model", design="DESIGN.md §7 C11"),
 "C12": dict(level="model_checking", engine="C+U",
   text="(a) schema/ is compiled with every range-over-map and reflect MapKeys routed through the map-order seam; every (schema of U_2 that ranges over a map, operation, argument) is executed under the sorted order and under every single (thorough: every pair of) deviating iteration order(s), all permutations each; accept/reject and the returned value must be identical. (b) the argument's deep snapshot is compared before/after every call. (c) explicit-state BFS over call histories (depth 3, thorough 4, ~9 calls per schema incl. erroring, default-filling and unit-parsing calls) on one instance: states are deep dumps incl. unexported caches, and every reached instance must equal a fresh one on self-description and a probe set.",
   note="Trusted: maporder rewrite, DeepDump/Snapshot, the probe set; recursive scopes are not used as schema arguments here (C15 reports their non-termination).",
   technique="exhaustive exploration of map-iteration orders (environment nondeterminism, deviation-bounded) plus explicit-state breadth-first search over call histories with a differential fresh-instance oracle", design="DESIGN.md §4.1, §7 C12"),
 "C13": dict(level="model_checking", engine="S+A",
   text="schema/ is compiled with the sync shim and access events on every field / package variable that the package writes outside composite literals and on every map object. For 10 subjects (units, defaults, struct-mapped sub-objects with and without defaulted sub-objects, references, recursive references, one-of over references, treat-empty-as-default), freshly built or freshly rebuilt from their description per execution, every unordered pair (thorough: selected triples) of operations {Unserialize x2 inputs, Validate, Serialize, data- and schema-mode ValidateCompatibility, SelfSerialize} is issued by concurrent threads; every schedule within the delay bound is executed, vector clocks over the shim's synchronisation events report any two conflicting accesses unordered by happens-before, and every result must equal the isolated call's. The five package-level unit definitions are raced (parse/format pairs) in one fresh process per trial.",
   note="Trusted: the access rewrite (engine/vinstr) and vector-clock detector (engine/mcrt/vc.go); accesses through reflect or inside dependencies are not seen; race identity = the unordered pair of accessing functions.",
   technique="stateless model checking under a controlled scheduler with vector-clock happens-before race detection on instrumented accesses (every explored execution), differential isolated-call oracle", design="DESIGN.md §5, §7 C13"),
 "C14": dict(level="model_checking", engine="U",
   text="144 (quick: 93) scope trees with a nested scope whose object id collides with the outer one, references at 4 positions (property, list, map, one-of) x 3 namespaces in outer and inner roots, objects with equal ids made distinguishable by marker enums. Per tree an explicit-state BFS over all ApplyNamespace sequences (depth <= 3 over {n1, n2, self}): in every state which reference is linked to which object (ObjectReady, target, ValidateReferences) must equal the lexical reference resolver of the model; the fully linked tree must behave like its mechanically inlined twin on every raw input for Unserialize/Validate/Serialize; three recursive graphs run on valid and invalid inputs of depth 0..50.",
   note="Trusted: the reference resolver harness/ukit/link.go and the inliner; BFS nodes are rebuilt from fresh instances.",
   technique="explicit-state breadth-first search over namespace-application histories of the real schema objects with a reference-model state comparison, plus differential inlined-twin oracle", design="DESIGN.md §7 C14"),
 "C15": dict(level="exploration", engine="U+C",
   text="Every spec A of U_2 as consumer against: a second instance of itself, every single-feature mutation of A at any depth (12 mutation operators), and ~70 unrelated specs incl. every nil/non-nil (min,max) combination for int, float, string and map sizes with overlapping and disjoint ranges; each ValidateCompatibility call runs under the sorted and every single deviating map iteration order (schema/ compiled with the map-order seam). A verdict must be returned (panics are caught, stack exhaustion and hangs kill the supervised worker and are attributed to the pair), be the same in every order, be 'compatible' for the schema against itself, and be 'incompatible' for every pair in the reference MustReject relation (base kind, element/key/value/property types, undeclared / missing required property, enforced id, enum values, discriminator / members, disjoint ranges).",
   note="Trusted: the MustReject reference (harness/ukit/compat.go), sound by construction (claims nothing outside it); degenerate min>max schemas are exempt from reflexivity and range claims.",
   technique="exhaustive enumeration of bounded schema pairs (identical / single-feature-mutated / unrelated) x exhaustive map-iteration orders, against a reference relation; supervised workers for non-termination", design="DESIGN.md §7 C15"),
 "C16": dict(level="exploration", engine="U",
   text="For the 5 built-in unit sets and 18 generated definitions (multipliers over {2,10,60,1000}, names that are prefixes of each other, names with regexp metacharacters, names with a space inside): every integer in [0,200000], powers of ten, multiplier boundaries and the 63-bit edge formatted (short and long) and parsed back exactly; floats on two grids within tolerance; every well-formed string of 1-3 descending components over a count alphabet in 4 name/spacing variants must parse to the sum; near misses and 64-bit overflows must be errors.",
   note="Trusted: the reference sum/overflow computation in harness/c16; ambiguous strings (bare numbers, decimal counts, negative quantities) are outside the alphabet.",
   technique="exhaustive enumeration of a bounded input space (integers, float grids, component strings) against a reference model", design="DESIGN.md §7 C16"),
 "C17": dict(level="exploration", engine="U",
   text="21 nested skeletons plus every list/map/object/scope of U_2 x 2 valid inputs x every leaf, key, list, map and object of the input corrupted one at a time with each applicable corruption (3 wrong-type variants, below min, above max, pattern miss, not in enum, bad key, size bounds, undeclared key, missing required, unknown discriminator), for Unserialize on raw trees and Validate on native values; every rejection must be a ConstraintError whose path (decoration stripped) equals the path of the corrupted element, computed by the corruption generator.",
   note="Trusted: the corruption generator (harness/ukit/corrupt.go) which knows the element's path by construction; undeclared keys / unknown discriminators may be reported at the enclosing object or at the key.",
   technique="exhaustive single-fault enumeration over every position of bounded inputs with a by-construction path oracle", design="DESIGN.md §7 C17"),
 "C18": dict(level="exploration", engine="U",
   text="The full matrix of handler signatures built with reflect.MakeFunc (0-2 parameters over 7 native types, 3 over 3; 10 result shapes incl. a non-error type named 'error') x declarations (matching / single-position mismatch / shorter / longer inputs; output nil or one of 7; outputsError) for both constructors is compared with a reference acceptance predicate; every accepted function is called with 0..4 arguments and with an error-returning handler, checking the returned value, function-reported vs call-shape errors and 'error not panic' on wrong arity.",
   note="Trusted: the reference predicate in harness/c18 (type identity with the schemas' reflected types; error = the predeclared interface).",
   technique="exhaustive enumeration of the (signature x declaration x argument count) matrix against a reference predicate", design="DESIGN.md §7 C18"),
 "C19": dict(level="exploration", engine="U+C",
   text="gen.go is compiled from the working tree with every range-over-map routed through the map-order seam; for all 1893 documents with 0-2 objects x 0-2 properties x 6 type ids and 3 argument forms, every permutation of every map's iteration order is executed (twice): no panic, output parses with go/parser, exactly one struct per non-ignored object with one json-tagged field per property and the stated type mapping, and byte-identical output across all orders and runs.",
   note="Trusted: the instrumenter's maporder/entry rewrites, the document generator and reference description in harness/c19; names are lower-case identifiers.",
   technique="exhaustive enumeration of small input documents x exhaustive exploration of map-iteration orders (environment nondeterminism) of the implementation", design="DESIGN.md §4.1, §7 C19"),
}
# additions made after the second round of seeded changes (appended to the texts above)
ADD = {
 "C01": (" schema/ is built with the map-order seam; for specs whose objects have at most four properties the whole pipeline runs under the sorted and every single deviating iteration order.",
         "exhaustive enumeration of a bounded (schema, accepted value) universe with a relational round-trip oracle incl. real CBOR transport, each under exhaustive (deviation-bounded) map-iteration orders"),
 "C17": (" schema/ is built with the map-order seam and every operation runs under the sorted and every single deviating iteration order of every map it ranges over: which element a rejection names must not depend on it.",
         "exhaustive single-fault enumeration over every position of bounded inputs with a by-construction path oracle, each under exhaustive (deviation-bounded) map-iteration orders"),
 "C19": (" Names include identifiers starting with a non-ASCII letter and names that are proper parts of each other (and of the ignore argument).", None),
 "C07": (" The alphabet includes a work-start whose input the step's schema rejects; one fixed script is a burst of six failing runs over an unbuffered pipe whose reader starts late.", None),
 "C05": (" One session has six rejected runs and a good one at once while the client's reader stalls (virtual timer). A map-based echo step carries a payload-rich input (integer-keyed map, nested collections, nested object, any) in a v3 and a v1 session.", None),
 "C11": (" Part U includes a signal whose handler is declared for another step data type than the step creates, and an input that is rejected only at the validation stage.", None),
 "C02": (" Schemas with units are additionally raced on first use: two threads unserialize accepted unit strings on one fresh schema under the cooperative scheduler, all schedules with <= 2 preemptions, vector-clock race scan and denoted results.",
         "exhaustive enumeration of a bounded (schema, value) universe against a reference model (differential, small-scope); first-use paths of unit-bearing schemas by preemption-bounded schedule exploration with race detection"),
 "C03": (" Every map-based object and one-of is checked twice: built by the constructors, and loaded from its own description through the meta-schema without any constructor (first use of all lazily computed state). schema/ is built with the map-order seam: Unserialize on the built instance runs under the sorted and every single deviating iteration order (quick: objects with at most four properties).",
         "exhaustive enumeration of the flag-combination space of small objects x supplied-property subsets against a reference model, under exhaustive (deviation-bounded) map-iteration orders"),
 "C06": (" Histories include the same run id used twice (concurrently and back to back) and a peer that sends a step-fatal error without run id before a run's own terminal message.", None),
 "C08": (" Scenarios include server-fatal error messages followed by a later Execute, a dying peer (every client write fails from the moment the read fault is reached) and Close called while runs are pending; every read-side scenario also has its fault-free alternative judged.", None),
 "C09": (" Every scope is also loaded through DescribeScope().Unserialize + ApplySelf, and wrapped as input, output, signal handler and emitter of a one-step plugin that is rebuilt from a real hello message by Client.ReadSchema.", None),
 "C10": (" Load history: every description rejected in a batch is loaded again twice in the same process after a garbage collection and must be rejected again.",
         "exhaustive single-fault (mutation) enumeration over every node of bounded schema descriptions, each followed by bounded exhaustive use of the returned schema; repeated-load histories for rejected descriptions"),
 "C13": (" The access rewrite treats slice backing arrays as shared objects (range, index, append into spare capacity, copy, sort / slices calls); one of the operations is an Unserialize the schema rejects. Step calls: CallStep / CallSignal for run ids r1, r2 from 2-4 threads on one callable schema (first use of a run id raced between step and signal), same race scan, initializer once per run id, handlers see their run's step data.", None),
 "C14": (" The alphabet of applications includes failing ones (a namespace applied with an empty table; the documented panic is recovered): every reference must be as before. Chain trees through same-id objects; every fully linked tree is also loaded from its own description, the same namespaces applied, and compared.", None),
 "C15": (" Every pair is also evaluated with the schema objects of the common parts shared by identity between consumer and producer.", None),
 "C12": (" The history oracle also observes, before any probe, the defaults and direct behaviour of every object schema inside the instance.", None),
 "C16": (" First use: every pair over {ParseInt, FormatShortInt, FormatLongInt, ParseFloat} issued by two threads on one fresh definition under the cooperative scheduler, all schedules with <= 2 preemptions, vector-clock race scan and results equal to a single caller's.",
         "exhaustive enumeration of a bounded input space (integers, float grids, component strings) against a reference model; first-use paths by preemption-bounded schedule exploration with race detection"),
}
for pid, (extra, tech) in ADD.items():
    CHECKS[pid]["text"] += extra
    if tech:
        CHECKS[pid]["technique"] = tech
NOT_YET = {}
props = [json.loads(l)["id"] for l in open("/verif/properties.jsonl")]
checks = []
for pid in props:
    if pid in CHECKS:
        c = CHECKS[pid]
        checks.append({
          "property_id": pid,
          "quick_cmd": f"./check {pid} --tier quick",
          "thorough_cmd": f"./check {pid} --tier thorough",
          "evidence_file": f"/verif/evidence/{pid}.json",
          "replay_cmd_template": f"./check {pid} --replay {{path}}",
          "engine": c["engine"],
          "level_claimed": {"category": c["level"], "text": c["text"], "design_ref": c["design"]},
          "level_note": c["note"],
          "technique": c["technique"],
        })
na = [{"property_id": p, "reason": NOT_YET.get(p, "check not built yet in this session; planned as bounded exhaustive exploration, see DESIGN.md §7")} for p in props if p not in CHECKS]
m = {
 "version": 1,
 "setup_cmd": "./setup.sh",
 "hooks": {
   "guard": "none: no hook is committed to /repo; instrumentation is generated from the working tree per check and injected with go build -overlay (virtual package go.flow.arcalot.io/pluginsdk/mcrt)",
   "enable": "./check <id> runs engine/vinstr over /repo's working tree and builds harness/<id> with -overlay .work/<id>/src/overlay.json",
   "baseline_off_cmd": "cd /repo && GOFLAGS=-mod=mod GOPROXY=off GOSUMDB=off go test -vet=off -count=1 ./... && cd cmd/arcaflow-codegen && GOFLAGS=-mod=mod GOPROXY=off GOSUMDB=off go test -vet=off -count=1 ./...",
   "source_commits": [],
   "add_only": True
 },
 "engines": [
  {"name": "S", "path": "engine/mcrt + engine/vinstr + engine/mc", "serves_properties": ["C05","C06","C07","C08","C11","C13","C02","C16"], "kind_free_text": "cooperative scheduler + stateless bounded DFS over schedules and environment choices of the instrumented implementation"},
  {"name": "U", "path": "engine/lib + harness/*", "serves_properties": ["C01","C02","C03","C04","C09","C10","C14","C15","C16","C17","C18","C19"], "kind_free_text": "exhaustive small-scope enumeration of schemas x values against a reference interpreter; explicit-state BFS over call histories"},
 ],
 "checks": checks,
 "not_applicable": na,
 "notes": "All checks rebuild from /repo's working tree. Exit 2 + INFRA-ERROR means the machinery could not run (never accompanied by a VIOLATION line). known_findings.json is the ledger."
}
json.dump(m, open("/verif/MANIFEST.json","w"), indent=1)
print("checks:", [c["property_id"] for c in checks], "not_applicable:", len(na))
