#!/bin/bash
# Runs every registered check (tier $1, default quick) on /repo's current tree; prints one line per check.
cd "$(dirname "$0")" || exit 2
tier=${1:-quick}
rc=0
for p in $(python3 -c "import json;print(' '.join(c['property_id'] for c in json.load(open('MANIFEST.json'))['checks']))"); do
  out=$(./check "$p" --tier "$tier" 2>&1); code=$?
  echo "$p exit=$code $(echo "$out" | tail -1 | cut -c1-150)"
  [ $code -ne 0 ] && rc=1
done
exit $rc
