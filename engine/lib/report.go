// Package lib holds what every check shares: the findings ledger, evidence and replay writers, the
// worker pool that shards work over processes and attributes crashes, and command-line conventions.
package lib

import (
	"crypto/sha1"
	"encoding/hex"
	"encoding/json"
	"flag"
	"fmt"
	"os"
	"path/filepath"
	"regexp"
	"sort"
	"strconv"
	"strings"
	"time"
)

// Root is the /verif directory the check runs from (set by ./check).
var Root = func() string {
	if r := os.Getenv("VERIF_ROOT"); r != "" {
		return r
	}
	return "/verif"
}()

// Args are the command-line conventions of every harness binary.
type Args struct {
	Tier    string
	Replay  string
	Seed    int
	Workers int
	Worker  bool
	Extra   map[string]string
}

func ParseArgs() Args {
	tier := flag.String("tier", os.Getenv("VERIF_TIER"), "quick|thorough")
	replay := flag.String("replay", "", "replay artefact to re-run")
	workers := flag.Int("workers", 0, "worker processes (default: min(16, NumCPU))")
	flag.Parse()
	a := Args{Tier: *tier, Replay: *replay, Workers: *workers}
	if a.Tier != "thorough" {
		a.Tier = "quick"
	}
	a.Seed, _ = strconv.Atoi(os.Getenv("VERIF_SEED"))
	a.Worker = os.Getenv("VERIF_WORKER") == "1"
	if a.Workers <= 0 {
		a.Workers = 16
		if n, err := strconv.Atoi(os.Getenv("VERIF_WORKERS")); err == nil && n > 0 {
			a.Workers = n
		}
	}
	return a
}

// Violation is one property violation found by a check.
type Violation struct {
	Signature string `json:"signature"` // cause-level identity (matches known_findings.json)
	Detail    string `json:"detail"`
	Replay    any    `json:"replay,omitempty"`
	Count     int    `json:"count"`
	Confirmed bool   `json:"confirmed"`
}

// KnownFinding is an entry of /verif/known_findings.json.
type KnownFinding struct {
	Property  string `json:"property"`
	Signature string `json:"signature"`
	What      string `json:"what"`
}

type knownFile struct {
	Known []KnownFinding `json:"known"`
	Fixed []string       `json:"fixed"`
}

// Report accumulates the outcome of one check run.
type Report struct {
	Property   string
	Level      string
	Tier       string
	Seed       int
	start      time.Time
	violations map[string]*Violation
	order      []string
	Infra      []string
}

func NewReport(property, level string, a Args) *Report {
	return &Report{Property: property, Level: level, Tier: a.Tier, Seed: a.Seed, start: time.Now(), violations: map[string]*Violation{}}
}

// Violate records a violation; only the first replay per signature is kept (enumerations run
// simplest-first, so that is the smallest one).
func (r *Report) Violate(sig, detail string, replay any) {
	if v, ok := r.violations[sig]; ok {
		v.Count++
		return
	}
	r.violations[sig] = &Violation{Signature: sig, Detail: detail, Replay: replay, Count: 1}
	r.order = append(r.order, sig)
}

// ViolateN merges a violation that was already counted elsewhere (worker results).
func (r *Report) ViolateN(v Violation) {
	if old, ok := r.violations[v.Signature]; ok {
		old.Count += v.Count
		return
	}
	c := v
	r.violations[v.Signature] = &c
	r.order = append(r.order, v.Signature)
}

func (r *Report) InfraError(msg string) { r.Infra = append(r.Infra, msg) }

func (r *Report) Violations() []*Violation {
	out := make([]*Violation, 0, len(r.order))
	for _, s := range r.order {
		out = append(out, r.violations[s])
	}
	return out
}

// IsKnown reports whether a violation signature is listed in known_findings.json.
func IsKnown(property, sig string) bool {
	for _, k := range loadKnown().Known {
		if k.Property == property && k.Signature == sig {
			return true
		}
	}
	return false
}

func loadKnown() knownFile {
	var k knownFile
	b, err := os.ReadFile(filepath.Join(Root, "known_findings.json"))
	if err == nil {
		_ = json.Unmarshal(b, &k)
	}
	return k
}

// Coverage is the evidence payload; Extra keys are merged into the coverage object.
type Coverage struct {
	Evaluations        int
	DistinctNontrivial int
	Rule               string
	Samples            []any
	States             int
	Transitions        int
	TracesValidated    int
	Exhaustive         bool
	Extra              map[string]any
}

const maxArtefacts = 60

// Finish prints the verdict lines, writes evidence and replay artefacts and exits.
func (r *Report) Finish(cov Coverage, assumptions []string) {
	known := loadKnown()
	isKnown := func(sig string) *KnownFinding {
		for i := range known.Known {
			k := &known.Known[i]
			if k.Property == r.Property && k.Signature == sig {
				return k
			}
		}
		return nil
	}
	_ = os.MkdirAll(filepath.Join(Root, "replays"), 0o755)
	_ = os.MkdirAll(filepath.Join(Root, "evidence"), 0o755)
	newCount := 0
	knownHit, fresh := []string{}, []string{}
	sigs := append([]string(nil), r.order...)
	sort.Strings(sigs)
	for _, sig := range sigs {
		v := r.violations[sig]
		if k := isKnown(sig); k != nil {
			fmt.Printf("KNOWN-FINDING: property=%s %s [%s] (seen %d times in this run)\n", r.Property, k.What, sig, v.Count)
			knownHit = append(knownHit, sig)
			continue
		}
		newCount++
		if newCount > maxArtefacts {
			// a fault whose message varies from case to case would write one artefact per case: the first ones are kept,
			// the rest are counted
			if newCount == maxArtefacts+1 {
				fmt.Printf("  (further new violations are counted but not written out)\n")
			}
			fresh = append(fresh, sig)
			continue
		}
		h := sha1.Sum([]byte(sig))
		path := filepath.Join(Root, "replays", fmt.Sprintf("%s-%s.json", r.Property, hex.EncodeToString(h[:5])))
		b, _ := json.MarshalIndent(map[string]any{
			"property": r.Property, "signature": sig, "detail": v.Detail, "replay": v.Replay, "tier": r.Tier,
			"how": fmt.Sprintf("cd /verif && ./check %s --replay %s", r.Property, path),
		}, "", " ")
		_ = os.WriteFile(path, b, 0o644)
		fmt.Printf("VIOLATION property=%s replay=%s\n", r.Property, path)
		fmt.Printf("  signature: %s\n  detail: %s\n", sig, firstLines(v.Detail, 12))
		fresh = append(fresh, sig)
	}
	coverage := map[string]any{
		"rule":       cov.Rule,
		"samples":    cov.Samples,
		"exhaustive": cov.Exhaustive,
	}
	if cov.Evaluations > 0 || r.Level != "model_checking" {
		coverage["evaluations"] = cov.Evaluations
		coverage["distinct_nontrivial"] = cov.DistinctNontrivial
	}
	if r.Level == "model_checking" {
		coverage["states"] = cov.States
		coverage["transitions"] = cov.Transitions
		coverage["traces_validated_against_impl"] = cov.TracesValidated
	}
	for k, v := range cov.Extra {
		coverage[k] = v
	}
	coverage["known_findings_hit"] = knownHit
	if len(fresh) > 200 {
		coverage["new_violation_signature_count"] = len(fresh)
		fresh = fresh[:200]
	}
	coverage["new_violation_signatures"] = fresh
	if len(r.Infra) > 0 {
		coverage["infra_errors"] = r.Infra
	}
	if len(cov.Samples) == 0 {
		coverage["samples"] = []any{"(none)"}
	}
	ev := map[string]any{
		"property_id": r.Property,
		"tier":        r.Tier,
		"seed":        r.Seed,
		"level":       r.Level,
		"coverage":    coverage,
		"assumptions": assumptions,
		"wall_s":      time.Since(r.start).Seconds(),
		"violations":  newCount,
	}
	b, _ := json.MarshalIndent(ev, "", " ")
	if err := os.WriteFile(filepath.Join(Root, "evidence", r.Property+".json"), b, 0o644); err != nil {
		fmt.Fprintf(os.Stderr, "INFRA-ERROR cannot write evidence: %v\n", err)
		os.Exit(2)
	}
	if len(r.Infra) > 0 {
		for _, m := range r.Infra {
			fmt.Fprintf(os.Stderr, "INFRA-ERROR %s\n", firstLines(m, 6))
		}
		if newCount == 0 {
			os.Exit(2)
		}
	}
	fmt.Printf("%s %s: %s; known findings hit: %d; new violations: %d; %.1fs\n", r.Property, r.Tier, summary(coverage), len(knownHit), newCount, time.Since(r.start).Seconds())
	if newCount > 0 {
		os.Exit(1)
	}
	os.Exit(0)
}

func summary(c map[string]any) string {
	var parts []string
	for _, k := range []string{"evaluations", "distinct_nontrivial", "states", "transitions", "traces_validated_against_impl", "exhaustive"} {
		if v, ok := c[k]; ok {
			parts = append(parts, fmt.Sprintf("%s=%v", k, v))
		}
	}
	return strings.Join(parts, " ")
}

func firstLines(s string, n int) string {
	l := strings.Split(s, "\n")
	if len(l) > n {
		l = append(l[:n], "...")
	}
	return strings.Join(l, "\n    ")
}

// LoadReplay reads a replay artefact written by Finish.
func LoadReplay(path string, into any) (sig string, err error) {
	b, err := os.ReadFile(path)
	if err != nil {
		return "", err
	}
	var f struct {
		Signature string          `json:"signature"`
		Replay    json.RawMessage `json:"replay"`
	}
	if err := json.Unmarshal(b, &f); err != nil {
		return "", err
	}
	return f.Signature, json.Unmarshal(f.Replay, into)
}

// PanicSite returns the innermost function of the module under test on a panic stack, without
// arguments or addresses, e.g. "schema.CallableSchema.CallSignal".
func PanicSite(stack string, pkgMarkers ...string) string {
	if len(pkgMarkers) == 0 {
		pkgMarkers = []string{"pluginsdk/atp.", "pluginsdk/schema.", "pluginsdk/plugin.", "main.", "codegen"}
	}
	lines := strings.Split(stack, "\n")
	// a stack taken inside a deferred recover: the panicking frames come after the "panic(" frame
	for i, l := range lines {
		if strings.HasPrefix(l, "panic(") {
			lines = lines[i+1:]
			break
		}
	}
	for _, l := range lines {
		l = strings.TrimSpace(l)
		hit := false
		for _, m := range pkgMarkers {
			if strings.Contains(l, m) && !strings.Contains(l, "/mcrt.") {
				hit = true
			}
		}
		if !hit {
			continue
		}
		fn := stripTypeArgs(l)
		if i := strings.Index(fn, " "); i > 0 {
			fn = fn[:i]
		}
		// cut the argument list: the first "(" that does not directly follow a "."
		for i := 0; i < len(fn); i++ {
			if fn[i] == '(' && i > 0 && fn[i-1] != '.' {
				fn = fn[:i]
				break
			}
		}
		if i := strings.LastIndex(fn, "/"); i >= 0 {
			fn = fn[i+1:]
		}
		return fn
	}
	return "?"
}

// PanicClass reduces a panic value to its first line without addresses.
func PanicClass(v string) string {
	if i := strings.IndexByte(v, '\n'); i >= 0 {
		v = v[:i]
	}
	// drop hex addresses
	var b strings.Builder
	for i := 0; i < len(v); i++ {
		if v[i] == '0' && i+1 < len(v) && v[i+1] == 'x' {
			j := i + 2
			for j < len(v) && strings.IndexByte("0123456789abcdefABCDEF", v[j]) >= 0 {
				j++
			}
			b.WriteString("0x?")
			i = j - 1
			continue
		}
		b.WriteByte(v[i])
	}
	v = digitRuns.ReplaceAllString(stripQuoted(b.String()), "#")
	if len(v) > 140 {
		v = v[:140]
	}
	return v
}

// digitRuns: runs of three or more digits (process ids, random suffixes of temporary names, addresses, counters) say
// which instance failed, not why.
var digitRuns = regexp.MustCompile(`[0-9]{3,}`)

// stripQuoted replaces the content of single- and double-quoted substrings (ids, values) by "?".
func stripQuoted(s string) string {
	var b strings.Builder
	for i := 0; i < len(s); i++ {
		c := s[i]
		if c == '\'' || c == '"' {
			j := strings.IndexByte(s[i+1:], c)
			if j >= 0 && j < 80 {
				b.WriteByte(c)
				b.WriteByte('?')
				b.WriteByte(c)
				i += j + 1
				continue
			}
		}
		b.WriteByte(c)
	}
	return b.String()
}

// stripTypeArgs replaces every bracketed type-argument list by [...] (they may contain spaces and parentheses).
func stripTypeArgs(s string) string {
	var b strings.Builder
	depth := 0
	for i := 0; i < len(s); i++ {
		switch s[i] {
		case '[':
			if depth == 0 {
				b.WriteString("[...]")
			}
			depth++
		case ']':
			if depth > 0 {
				depth--
			}
		default:
			if depth == 0 {
				b.WriteByte(s[i])
			}
		}
	}
	return b.String()
}

// HangSite names the outermost function of the module under test on the stack of the goroutine that was running
// when the watchdog's SIGQUIT arrived (the entry point of the call that does not return; the innermost frame of a
// spinning loop differs from one dump to the next).
func HangSite(stderr string) string {
	lines := strings.Split(stderr, "\n")
	for i, l := range lines {
		if !strings.HasPrefix(l, "goroutine ") || !(strings.Contains(l, "[running]") || strings.Contains(l, "[runnable]")) || strings.HasPrefix(l, "goroutine 0 ") {
			continue
		}
		site := ""
		for _, fl := range lines[i+1:] {
			if strings.TrimSpace(fl) == "" {
				break
			}
			if strings.HasPrefix(fl, "\t") {
				continue
			}
			if strings.Contains(fl, "pluginsdk/schema.") || strings.Contains(fl, "pluginsdk/atp.") || strings.Contains(fl, "pluginsdk/plugin.") {
				site = PanicSite(fl)
			}
		}
		if site != "" && site != "?" {
			return site
		}
	}
	return ""
}
