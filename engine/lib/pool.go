package lib

import (
	"bufio"
	"bytes"
	"encoding/json"
	"fmt"
	"io"
	"os"
	"os/exec"
	"strings"
	"sync"
	"syscall"
	"time"
)

// The worker pool runs copies of the current binary (VERIF_WORKER=1). Tasks and results are JSON lines.
// A worker that dies (fatal runtime error, stack exhaustion, os.Exit) is restarted and the death is
// attributed to the task it was working on.

// WorkerMain is the loop of a worker process: it reads tasks from stdin and answers on stdout.
func WorkerMain(handle func(task json.RawMessage) any) {
	in := bufio.NewReaderSize(os.Stdin, 1<<20)
	out := bufio.NewWriter(os.Stdout)
	for {
		line, err := in.ReadBytes('\n')
		if len(bytes.TrimSpace(line)) > 0 {
			res := handle(json.RawMessage(bytes.TrimSpace(line)))
			b, merr := json.Marshal(res)
			if merr != nil {
				b, _ = json.Marshal(map[string]string{"marshal_error": merr.Error()})
			}
			out.Write(b)
			out.WriteByte('\n')
			out.Flush()
		}
		if err != nil {
			return
		}
	}
}

// WorkerRetired is what a worker writes to stderr before it exits because it must not run another task (a goroutine of
// an earlier task is still running in it).
const WorkerRetired = "VERIF-WORKER-RETIRED"

// TaskOutcome is what the pool reports per task.
type TaskOutcome struct {
	Index    int
	Result   json.RawMessage
	Crashed  bool
	Stderr   string // tail of the worker's stderr when it crashed
	TimedOut bool
}

type PoolOpts struct {
	Workers     int
	TaskTimeout time.Duration // watchdog per task (0 = none)
	Env         []string
	MemLimitKB  int // ulimit -v for workers (0 = none)
}

// RunPool executes tasks on worker processes and calls handle (serialised) for every outcome.
func RunPool(tasks []any, o PoolOpts, handle func(TaskOutcome)) {
	p := NewPool(o)
	defer p.Close()
	p.Run(tasks, handle)
}

// Pool keeps worker processes alive across several Run calls.
type Pool struct {
	o       PoolOpts
	workers []*worker
}

func NewPool(o PoolOpts) *Pool {
	if o.Workers <= 0 {
		o.Workers = 16
	}
	return &Pool{o: o, workers: make([]*worker, o.Workers)}
}

// Close stops all workers.
func (p *Pool) Close() {
	for i, w := range p.workers {
		if w != nil {
			w.stop()
			p.workers[i] = nil
		}
	}
}

// Run executes tasks on the pool's workers (started on demand) and calls handle (serialised) per outcome.
func (p *Pool) Run(tasks []any, handle func(TaskOutcome)) {
	o := p.o
	n := o.Workers
	if n > len(tasks) {
		n = len(tasks)
	}
	var mu sync.Mutex
	next := 0
	take := func() (int, bool) {
		mu.Lock()
		defer mu.Unlock()
		if next >= len(tasks) {
			return 0, false
		}
		i := next
		next++
		return i, true
	}
	var hmu sync.Mutex
	var wg sync.WaitGroup
	for w := 0; w < n; w++ {
		wg.Add(1)
		go func(slot int) {
			defer wg.Done()
			for {
				i, ok := take()
				if !ok {
					return
				}
				if p.workers[slot] == nil {
					wk, err := startWorker(o)
					if err != nil {
						hmu.Lock()
						handle(TaskOutcome{Index: i, Crashed: true, Stderr: "cannot start worker: " + err.Error()})
						hmu.Unlock()
						continue
					}
					p.workers[slot] = wk
				}
				b, _ := json.Marshal(tasks[i])
				out := p.workers[slot].do(b, o.TaskTimeout)
				if out.Crashed && strings.Contains(out.Stderr, WorkerRetired) {
					// the worker took itself out of service before touching this task (see WorkerRetired): a fresh one does it
					p.workers[slot].stop()
					p.workers[slot] = nil
					if wk, err := startWorker(o); err == nil {
						p.workers[slot] = wk
						out = wk.do(b, o.TaskTimeout)
					}
				}
				out.Index = i
				if out.Crashed || out.TimedOut {
					p.workers[slot].stop()
					p.workers[slot] = nil
				}
				hmu.Lock()
				handle(out)
				hmu.Unlock()
			}
		}(w)
	}
	wg.Wait()
}

type worker struct {
	cmd    *exec.Cmd
	stdin  io.WriteCloser
	stdout *bufio.Reader
	stderr *tailBuffer
}

type tailBuffer struct {
	mu  sync.Mutex
	buf []byte
}

func (t *tailBuffer) Write(p []byte) (int, error) {
	t.mu.Lock()
	defer t.mu.Unlock()
	t.buf = append(t.buf, p...)
	if len(t.buf) > 64<<10 {
		// keep head (the fatal error line) and tail
		head := append([]byte(nil), t.buf[:16<<10]...)
		t.buf = append(head, t.buf[len(t.buf)-(16<<10):]...)
	}
	return len(p), nil
}

func (t *tailBuffer) String() string {
	t.mu.Lock()
	defer t.mu.Unlock()
	return string(t.buf)
}

func startWorker(o PoolOpts) (*worker, error) {
	self, err := os.Executable()
	if err != nil {
		return nil, err
	}
	var cmd *exec.Cmd
	if o.MemLimitKB > 0 {
		cmd = exec.Command("/bin/sh", "-c", fmt.Sprintf("ulimit -v %d; exec \"$0\" \"$@\"", o.MemLimitKB), self)
		cmd.Args = append(cmd.Args, os.Args[1:]...)
	} else {
		cmd = exec.Command(self, os.Args[1:]...)
	}
	cmd.Env = append(os.Environ(), "VERIF_WORKER=1", "GOMAXPROCS=1")
	if o.MemLimitKB > 0 && os.Getenv("GOMEMLIMIT") == "" {
		// the collector works harder before the address-space limit is reached (the limit counts more than the heap)
		cmd.Env = append(cmd.Env, fmt.Sprintf("GOMEMLIMIT=%dKiB", o.MemLimitKB/2))
	}
	cmd.Env = append(cmd.Env, o.Env...)
	stdin, err := cmd.StdinPipe()
	if err != nil {
		return nil, err
	}
	stdout, err := cmd.StdoutPipe()
	if err != nil {
		return nil, err
	}
	tb := &tailBuffer{}
	cmd.Stderr = tb
	if err := cmd.Start(); err != nil {
		return nil, err
	}
	return &worker{cmd: cmd, stdin: stdin, stdout: bufio.NewReaderSize(stdout, 1<<20), stderr: tb}, nil
}

func (w *worker) stop() {
	_ = w.stdin.Close()
	done := make(chan struct{})
	go func() { _ = w.cmd.Wait(); close(done) }()
	select {
	case <-done:
	case <-time.After(2 * time.Second):
		_ = w.cmd.Process.Kill()
		<-done
	}
}

func (w *worker) do(task []byte, timeout time.Duration) TaskOutcome {
	if _, err := w.stdin.Write(append(task, '\n')); err != nil {
		return TaskOutcome{Crashed: true, Stderr: "write to worker failed: " + err.Error() + "\n" + w.stderr.String()}
	}
	type rd struct {
		line []byte
		err  error
	}
	ch := make(chan rd, 1)
	go func() {
		line, err := w.stdout.ReadBytes('\n')
		ch <- rd{line, err}
	}()
	var timer <-chan time.Time
	if timeout > 0 {
		timer = time.After(timeout)
	}
	select {
	case r := <-ch:
		if r.err != nil {
			_ = w.cmd.Wait()
			return TaskOutcome{Crashed: true, Stderr: tail(w.stderr.String(), 40000)}
		}
		return TaskOutcome{Result: json.RawMessage(bytes.TrimSpace(r.line))}
	case <-timer:
		// SIGQUIT first: the Go runtime then dumps every goroutine's stack, which says where the worker is stuck
		_ = w.cmd.Process.Signal(syscall.SIGQUIT)
		select {
		case <-ch:
		case <-time.After(3 * time.Second):
		}
		_ = w.cmd.Process.Kill()
		return TaskOutcome{TimedOut: true, Stderr: tail(w.stderr.String(), 40000)}
	}
}

func tail(s string, n int) string {
	if len(s) <= n {
		return s
	}
	return s[:n/2] + "\n...\n" + s[len(s)-n/2:]
}

// FatalLine extracts the Go runtime's "fatal error: ..." / "panic: ..." line from a crash dump.
func FatalLine(stderr string) string {
	for _, l := range strings.Split(stderr, "\n") {
		if strings.HasPrefix(l, "fatal error:") || strings.HasPrefix(l, "panic:") || strings.HasPrefix(l, "runtime: goroutine stack exceeds") {
			return l
		}
	}
	if len(stderr) > 200 {
		return stderr[:200]
	}
	return stderr
}
