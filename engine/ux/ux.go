// Package ux drives an Engine-U check: an exhaustive enumeration of cases, cut into batches that are
// executed by supervised worker processes (a fatal runtime error or a hang is attributed to the case in
// flight and the rest of the batch is resumed), with findings ledger, replay artefacts and evidence.
package ux

import (
	"context"
	"encoding/binary"
	"encoding/json"
	"fmt"
	"os"
	"os/exec"
	"path/filepath"
	"strings"
	"time"

	"verif/engine/lib"
)

// Finding is one violation.
type Finding struct {
	Signature string `json:"signature"`
	Detail    string `json:"detail"`
	Replay    any    `json:"replay,omitempty"`
}

// Result is what a worker reports for one batch.
type Result struct {
	Evaluations int            `json:"evaluations"`
	Nontrivial  int            `json:"nontrivial"` // distinct non-trivial cases of this batch (batches partition the case space)
	Skipped     int            `json:"skipped"`    // reference said Unknown
	Findings    []Finding      `json:"findings,omitempty"`
	Counts      map[string]int `json:"counts,omitempty"` // free-form tallies merged into the evidence
	Samples     []any          `json:"samples,omitempty"`
	States      int            `json:"states,omitempty"`
	Transitions int            `json:"transitions,omitempty"`
	Capped      bool           `json:"capped,omitempty"`
}

// Add merges a finding (first replay per signature wins).
func (r *Result) Add(sig, detail string, replay any) {
	for _, f := range r.Findings {
		if f.Signature == sig {
			return
		}
	}
	r.Findings = append(r.Findings, Finding{sig, detail, replay})
}

func (r *Result) Count(k string, n int) {
	if r.Counts == nil {
		r.Counts = map[string]int{}
	}
	r.Counts[k] += n
}

// Harness is what a check provides.
type Harness struct {
	Property string
	Level    string
	// Batches enumerates the work as JSON-able batch descriptors (deterministic for a tier).
	Batches func(tier string) []any
	// Run executes cases of a batch starting at case index from; it must call Progress(i) before case i.
	Run func(tier string, batch json.RawMessage, from int, deadline time.Time) Result
	// Replay re-runs one recorded case and reports the signatures it produces now.
	Replay func(replay json.RawMessage) []Finding
	// CaseName describes case i of a batch (for crash attribution).
	CaseName    func(tier string, batch json.RawMessage, i int) (name string, replay any)
	Rule        string
	Assumptions []string
	Budget      func(tier string) time.Duration
	TaskTimeout time.Duration // watchdog per batch (default 120 s)
	MemLimitKB  int
	Exhaustive  bool // the enumeration is a complete finite space (set false if sampled)
	ModelCheck  bool // report states/transitions (explicit-state search)
}

type wtask struct {
	Batch json.RawMessage `json:"b"`
	From  int             `json:"f"`
}

var progressFile *os.File

// Progress records the case in flight (one pwrite; survives the death of the worker).
func Progress(i int) {
	if progressFile == nil {
		return
	}
	var b [8]byte
	binary.LittleEndian.PutUint64(b[:], uint64(i)+1)
	_, _ = progressFile.WriteAt(b[:], 0)
}

var batchDeadline time.Time

// Stop reports whether the current batch's internal deadline has passed; a harness loop that sees it sets
// Result.Capped and breaks.
func Stop() bool { return Over(batchDeadline) }

// BatchDeadline is the current batch's internal deadline (for explorers that take one).
func BatchDeadline() time.Time { return batchDeadline }

// Over reports whether an internal deadline has passed (zero = none).
func Over(deadline time.Time) bool { return !deadline.IsZero() && time.Now().After(deadline) }

func readProgress(path string) int {
	b, err := os.ReadFile(path)
	if err != nil || len(b) < 8 {
		return -1
	}
	return int(binary.LittleEndian.Uint64(b[:8])) - 1
}

// Main is the entry point of an Engine-U harness binary.
func Main(h Harness) {
	args := lib.ParseArgs()
	if args.Worker {
		if p := os.Getenv("VERIF_PROGRESS_DIR"); p != "" {
			f, err := os.OpenFile(filepath.Join(p, fmt.Sprintf("w%d", os.Getpid())), os.O_CREATE|os.O_RDWR|os.O_TRUNC, 0o644)
			if err == nil {
				progressFile = f
				fmt.Fprintf(os.Stderr, "PROGRESS-FILE %s\n", f.Name())
			}
		}
		var deadline time.Time
		if d := os.Getenv("VERIF_DEADLINE"); d != "" {
			var ns int64
			fmt.Sscan(d, &ns)
			deadline = time.Unix(0, ns)
		}
		lib.WorkerMain(func(raw json.RawMessage) any {
			var t wtask
			if err := json.Unmarshal(raw, &t); err != nil {
				return Result{}
			}
			Progress(-1)
			// Internal deadlines end an enumeration early and quietly (Capped -> exhaustive:false): the budget of the
			// whole check, and per batch a slice well below the hang watchdog so that a slow batch is never mistaken for
			// a hang. Harnesses test Over(deadline) between cases.
			if !deadline.IsZero() && time.Now().After(deadline) {
				return Result{Capped: true}
			}
			dl := deadline
			timeout := h.TaskTimeout
			if timeout == 0 {
				timeout = 120 * time.Second
			}
			if sl := time.Now().Add(timeout * 2 / 5); dl.IsZero() || sl.Before(dl) {
				dl = sl
			}
			batchDeadline = dl
			return h.Run(args.Tier, t.Batch, t.From, dl)
		})
		return
	}
	if args.Replay != "" {
		var raw json.RawMessage
		sig, err := lib.LoadReplay(args.Replay, &raw)
		if err != nil {
			fmt.Fprintf(os.Stderr, "INFRA-ERROR cannot load replay: %v\n", err)
			os.Exit(2)
		}
		hit := false
		for _, f := range h.Replay(raw) {
			fmt.Printf("finding: %s\n  %s\n", f.Signature, strings.ReplaceAll(f.Detail, "\n", "\n  "))
			if f.Signature == sig {
				hit = true
			}
		}
		if hit {
			fmt.Printf("VIOLATION property=%s replay=%s\n", h.Property, args.Replay)
			os.Exit(1)
		}
		fmt.Println("the recorded violation does not reproduce on the current tree")
		os.Exit(0)
	}

	rep := lib.NewReport(h.Property, h.Level, args)
	budget := 100 * time.Second
	if args.Tier == "thorough" {
		budget = 20 * time.Minute
	}
	if h.Budget != nil {
		budget = h.Budget(args.Tier)
	}
	deadline := time.Now().Add(budget)
	batches := h.Batches(args.Tier)
	progDir := filepath.Join(lib.Root, ".work", h.Property, "progress")
	_ = os.RemoveAll(progDir)
	_ = os.MkdirAll(progDir, 0o755)
	timeout := h.TaskTimeout
	if timeout == 0 {
		timeout = 120 * time.Second
	}

	total := Result{Counts: map[string]int{}}
	capped := false
	pending := make([]any, len(batches))
	for i, b := range batches {
		raw, _ := json.Marshal(b)
		pending[i] = wtask{Batch: raw}
	}
	crashes, hangs, cappedBatches, unconfirmed := 0, 0, 0, 0
	for round := 0; len(pending) > 0 && round < 200; round++ {
		var retry []any
		cur := pending
		lib.RunPool(cur, lib.PoolOpts{Workers: args.Workers, TaskTimeout: timeout, MemLimitKB: h.MemLimitKB,
			Env: []string{"VERIF_PROGRESS_DIR=" + progDir, fmt.Sprintf("VERIF_DEADLINE=%d", deadline.UnixNano())}}, func(o lib.TaskOutcome) {
			t := cur[o.Index].(wtask)
			if o.Crashed || o.TimedOut {
				crashes++
				pf := ""
				for _, l := range strings.Split(o.Stderr, "\n") {
					if strings.HasPrefix(l, "PROGRESS-FILE ") {
						pf = strings.TrimSpace(strings.TrimPrefix(l, "PROGRESS-FILE "))
					}
				}
				ci := readProgress(pf)
				kind := "fatal runtime error"
				what := lib.FatalLine(stripProgress(o.Stderr))
				if o.TimedOut {
					kind, what = "hang", fmt.Sprintf("no answer within %s", timeout)
				}
				if ci < 0 || h.CaseName == nil {
					// Outside a case: while the batch was being prepared (schemas built, native values obtained by calling the
					// library). If the crash is inside the module under test it is the library's failure all the same; if it is
					// in the harness it is ours.
					site := crashSite(o.Stderr)
					if o.TimedOut {
						site = lib.HangSite(o.Stderr)
					}
					if strings.HasPrefix(site, "a cycle through schema.") || strings.HasPrefix(site, "a cycle through atp.") ||
						strings.HasPrefix(site, "schema.") || strings.HasPrefix(site, "atp.") {
						sig := kind + ": " + crashClass(what) + " in " + site
						rep.Violate(sig, fmt.Sprintf("while preparing batch %s (before its first case)\n%s", string(t.Batch),
							lib.FatalLine(stripProgress(o.Stderr))+"\n"+tailLines(stripProgress(o.Stderr), 25)), map[string]any{"batch": t.Batch})
						capped = true
						return
					}
					rep.InfraError(fmt.Sprintf("worker died (%s: %s) outside a case; batch %s", kind, what, string(t.Batch)))
					return
				}
				name, replay := h.CaseName(args.Tier, t.Batch, ci)
				if !o.TimedOut && resourceExhaustion(o.Stderr) && h.Replay != nil {
					// Memory ran out while this case was in flight - which says little about the case: the worker had been
					// running the whole batch. The case is run once more, alone, in a fresh process under the same limit; only
					// if that one dies as well is the exhaustion the case's doing.
					if !confirmAlone(h, replay, timeout) {
						unconfirmed++
						if crashes < 500 {
							retry = append(retry, wtask{Batch: t.Batch, From: ci + 1})
						}
						return
					}
				}
				sig := kind + ": " + crashClass(what)
				if o.TimedOut {
					if site := lib.HangSite(o.Stderr); site != "" {
						sig += " in a call to " + site
					}
				} else if site := crashSite(o.Stderr); site != "" {
					sig += " in " + site
				}
				rep.Violate(sig, fmt.Sprintf("case %s\n%s", name, lib.FatalLine(stripProgress(o.Stderr))+"\n"+tailLines(stripProgress(o.Stderr), 25)), replay)
				if o.TimedOut {
					hangs++
				}
				// A hang costs a whole watchdog period, so only a few are attributed one by one; after that (or past
				// the budget) the rest of the batch is left unexplored and the run is reported as not exhaustive.
				if o.TimedOut && (hangs > 3 || time.Now().After(deadline)) {
					capped = true
				} else if crashes < 500 {
					retry = append(retry, wtask{Batch: t.Batch, From: ci + 1})
				}
				return
			}
			var r Result
			if err := json.Unmarshal(o.Result, &r); err != nil {
				rep.InfraError("bad worker result: " + err.Error())
				return
			}
			total.Evaluations += r.Evaluations
			if f := os.Getenv("VERIF_DEBUG_BATCHES"); f != "" {
				if fh, err := os.OpenFile(f, os.O_APPEND|os.O_CREATE|os.O_WRONLY, 0o644); err == nil {
					fmt.Fprintf(fh, "%s from=%d evaluations=%d nontrivial=%d capped=%v\n", string(t.Batch), t.From, r.Evaluations, r.Nontrivial, r.Capped)
					fh.Close()
				}
			}
			total.Nontrivial += r.Nontrivial
			total.Skipped += r.Skipped
			total.States += r.States
			total.Transitions += r.Transitions
			for k, n := range r.Counts {
				total.Counts[k] += n
			}
			for _, f := range r.Findings {
				rep.Violate(f.Signature, f.Detail, f.Replay)
			}
			if len(total.Samples) < 8 {
				total.Samples = append(total.Samples, r.Samples...)
			}
			if r.Capped {
				capped = true
				cappedBatches++
			}
		})
		pending = retry
	}
	if len(total.Samples) > 8 {
		total.Samples = total.Samples[:8]
	}
	extra := map[string]any{"batches": len(batches), "skipped_as_unknown": total.Skipped, "worker_crashes_attributed": crashes - unconfirmed}
	if unconfirmed > 0 {
		// the worker's memory was used up by the batch as a whole; each such case passed when run alone
		extra["memory_exhaustions_not_reproduced_by_the_case_alone"] = unconfirmed
	}
	for k, n := range total.Counts {
		extra["count_"+k] = n
	}
	if capped {
		extra["capped"] = fmt.Sprintf("an internal deadline (the check's budget, or a batch's time slice) ended %d of %d batches early; the enumeration is incomplete", cappedBatches, len(batches))
	}
	rep.Finish(lib.Coverage{
		Evaluations:        total.Evaluations,
		DistinctNontrivial: total.Nontrivial,
		Rule:               h.Rule,
		Samples:            total.Samples,
		Exhaustive:         h.Exhaustive && !capped,
		States:             total.States,
		Transitions:        total.Transitions,
		TracesValidated:    total.Transitions,
		Extra:              extra,
	}, h.Assumptions)
}

func stripProgress(s string) string {
	var out []string
	for _, l := range strings.Split(s, "\n") {
		if !strings.HasPrefix(l, "PROGRESS-FILE ") {
			out = append(out, l)
		}
	}
	return strings.Join(out, "\n")
}

func tailLines(s string, n int) string {
	l := strings.Split(s, "\n")
	if len(l) > n {
		l = l[:n]
	}
	return strings.Join(l, "\n")
}

// resourceExhaustion: the runtime gave up for lack of memory (address space limit of the worker).
func resourceExhaustion(stderr string) bool {
	return strings.Contains(stderr, "fatal error: out of memory") || strings.Contains(stderr, "cannot allocate memory") ||
		strings.Contains(stderr, "runtime: out of memory")
}

// confirmAlone replays one case in a fresh process (same memory limit, same watchdog) and reports whether that process
// dies of a fatal runtime error or hangs as well.
func confirmAlone(h Harness, replay any, timeout time.Duration) bool {
	self, err := os.Executable()
	if err != nil {
		return true
	}
	f, err := os.CreateTemp("", "verif-confirm-*.json")
	if err != nil {
		return true
	}
	defer os.Remove(f.Name())
	b, _ := json.Marshal(map[string]any{"signature": "confirmation run", "replay": replay})
	_, _ = f.Write(b)
	f.Close()
	ctx, cancel := context.WithTimeout(context.Background(), timeout)
	defer cancel()
	var cmd *exec.Cmd
	if h.MemLimitKB > 0 {
		cmd = exec.CommandContext(ctx, "/bin/sh", "-c", fmt.Sprintf("ulimit -v %d; exec \"$0\" \"$@\"", h.MemLimitKB), self, "--replay", f.Name())
	} else {
		cmd = exec.CommandContext(ctx, self, "--replay", f.Name())
	}
	cmd.Env = append(os.Environ(), "GOMAXPROCS=1")
	out, err := cmd.CombinedOutput()
	if ctx.Err() != nil {
		return true // hangs alone
	}
	if err == nil {
		return false
	}
	if ee, ok := err.(*exec.ExitError); ok && ee.ExitCode() == 1 && !strings.Contains(string(out), "fatal error") {
		return false // ran to the end (it reported findings of its own; those are found by the batch run too)
	}
	return strings.Contains(string(out), "fatal error") || strings.Contains(string(out), "panic:")
}

func crashClass(s string) string {
	s = strings.TrimSpace(s)
	if strings.Contains(s, "stack exceeds") || strings.Contains(s, "stack overflow") {
		return "stack overflow"
	}
	if i := strings.Index(s, "\n"); i >= 0 {
		s = s[:i]
	}
	if len(s) > 120 {
		s = s[:120]
	}
	return s
}

// crashSite names a function of the module under test on the crashing goroutine's stack: the innermost one,
// or - for unbounded recursion, where the innermost frame is arbitrary - the alphabetically first among the
// innermost 60 frames (a stable representative of the cycle).
func crashSite(stderr string) string {
	lines := strings.Split(stderr, "\n")
	for i, l := range lines {
		if strings.HasPrefix(l, "goroutine ") && strings.Contains(l, "[running]") {
			rest := lines[i+1:]
			if !strings.Contains(stderr, "stack exceeds") {
				return lib.PanicSite(strings.Join(rest, "\n"))
			}
			// The representative of a recursion cycle: a reference's method if the cycle passes through one (unbounded
			// recursion over a reference cycle is one cause, whatever containers lie in between), else the smallest name.
			best, ref := "", ""
			allCompat := true
			n := 0
			for j := 0; j < len(rest) && n < 120; j++ {
				if strings.HasPrefix(rest[j], "\t") || strings.HasPrefix(rest[j], " ") || !strings.Contains(rest[j], "pluginsdk/") {
					continue // a file:line row, a runtime frame, a separator: only frames of the module under test count
				}
				if strings.HasPrefix(rest[j], "goroutine ") {
					break // the next goroutine's stack
				}
				n++
				fn := lib.PanicSite(rest[j])
				if !strings.HasSuffix(strings.TrimSpace(rest[j]), ")") || strings.Count(fn, "(") != strings.Count(fn, ")") || strings.HasSuffix(fn, "*") || strings.HasSuffix(fn, ".") {
					continue // a line cut by the stderr buffer (a whole frame line ends with its argument list)
				}
				if fn != "?" && (best == "" || fn < best) {
					best = fn
				}
				if fn != "?" && !strings.Contains(strings.ToLower(fn), "compatibility") {
					allCompat = false
				}
				if strings.Contains(fn, "(*RefSchema).") && (ref == "" || fn < ref) {
					ref = fn
				}
			}
			if ref != "" {
				best = ref
			} else if allCompat && best != "" {
				// the visible part of the stack shows only the containers between two references (the dump is cut): a
				// compatibility check can only recurse without end through a reference cycle, so it is named by the
				// reference's method all the same
				best = "schema.(*RefSchema).ValidateCompatibility"
			}
			return "a cycle through " + best
		}
	}
	return ""
}
