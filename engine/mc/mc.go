// Package mc drives a model-checking harness: scenarios x iterated bounds x sharded depth-first search
// over schedules/environment choices of the real code (engine/mcrt), with findings ledger and evidence.
package mc

import (
	"encoding/json"
	"fmt"
	"os"
	"sort"
	"strings"
	"time"

	"go.flow.arcalot.io/pluginsdk/mcrt"
	"verif/engine/lib"
)

// Bounds of one exploration level.
type Bounds struct {
	Preempt int `json:"preempt"`
	Delay   int `json:"delay"` // <0 unbounded
	Deviate int `json:"deviate"`
}

func (b Bounds) String() string {
	return fmt.Sprintf("P<=%d,delays<=%d,D<=%d", b.Preempt, b.Delay, b.Deviate)
}

// Finding is a violation found in one execution.
type Finding struct {
	Signature string `json:"signature"`
	Detail    string `json:"detail"`
}

// Scenario is one closed system to explore.
type Scenario struct {
	Name   string   `json:"name"`
	Levels []Bounds `json:"levels"` // iterated in order; each level is a complete search
	Races  bool     `json:"races"`
	// MaxSteps per execution (0 = default)
	MaxSteps int `json:"max_steps,omitempty"`
}

// Harness is what a check provides.
type Harness struct {
	Property    string
	Level       string // MANIFEST category
	Scenarios   func(tier string) []Scenario
	Body        func(sc Scenario) func()                                        // the closed system; runs as thread 0
	Judge       func(sc Scenario, r *mcrt.Result) (outcome string, f []Finding) // oracle for one finished execution
	Assumptions []string
	Rule        string
	Budget      func(tier string) time.Duration
	// Pre runs once in the parent before the scenarios (e.g. trials that need a fresh process each); it may record
	// violations and returns (evaluations, extra evidence keys).
	Pre func(tier string, rep *lib.Report) (int, map[string]any)
}

type task struct {
	Scenario int           `json:"s"`
	Level    int           `json:"l"`
	Prefix   []mcrt.Choice `json:"p"`
}

type foundViolation struct {
	Finding
	Scenario string        `json:"scenario"`
	Choices  []mcrt.Choice `json:"choices"`
	Bounds   Bounds        `json:"bounds"`
	Count    int           `json:"count"`
}

type taskResult struct {
	Executions  int              `json:"e"`
	Transitions int              `json:"t"`
	NewStates   []uint64         `json:"st,omitempty"`
	Outcomes    map[string]int   `json:"o,omitempty"`
	Violations  []foundViolation `json:"v,omitempty"`
	Infra       []string         `json:"infra,omitempty"`
	Capped      bool             `json:"capped,omitempty"`
	MaxPoints   int              `json:"mp"`
	Sample      []mcrt.Choice    `json:"sample,omitempty"`
	Races       int              `json:"races"`
	Stragglers  int              `json:"stragglers,omitempty"`
}

type replayFile struct {
	Scenario string        `json:"scenario"`
	Choices  []mcrt.Choice `json:"choices"`
	Bounds   Bounds        `json:"bounds"`
	Trace    []string      `json:"trace,omitempty"`
	Status   string        `json:"status,omitempty"`
}

// Main is the entry point of a model-checking harness binary.
func Main(h Harness) {
	args := lib.ParseArgs()
	mcrt.StallAfter = 90 * time.Second
	if v := os.Getenv("VERIF_STALL_SECONDS"); v != "" {
		var n int
		if _, err := fmt.Sscan(v, &n); err == nil && n > 0 {
			mcrt.StallAfter = time.Duration(n) * time.Second
		}
	}
	scenarios := h.Scenarios(args.Tier)
	if args.Worker {
		w := &workerState{h: h, scenarios: scenarios, states: map[int]map[uint64]struct{}{}}
		if d := os.Getenv("VERIF_DEADLINE"); d != "" {
			var ns int64
			fmt.Sscan(d, &ns)
			w.deadline = time.Unix(0, ns)
		}
		lib.WorkerMain(w.handle)
		return
	}
	if args.Replay != "" {
		replay(h, scenarios, args)
		return
	}
	rep := lib.NewReport(h.Property, h.Level, args)
	budget := 100 * time.Second
	if args.Tier == "thorough" {
		budget = 20 * time.Minute
	}
	if h.Budget != nil {
		budget = h.Budget(args.Tier)
	}
	deadline := time.Now().Add(budget)

	type scStat struct {
		Name        string   `json:"scenario"`
		Completed   []string `json:"completed_bounds"`
		Capped      string   `json:"capped_at,omitempty"`
		Executions  int      `json:"executions"`
		Transitions int      `json:"transitions"`
		States      int      `json:"states"`
		Outcomes    int      `json:"distinct_outcomes"`
		MaxPoints   int      `json:"max_decision_points"`
	}
	var stats []scStat
	totalExec, totalTrans, totalStates := 0, 0, 0
	allOutcomes := map[string]int{}
	var samples []any
	exhaustive := true
	racesChecked := 0
	stragglers := 0

	preEvals := 0
	var preExtra map[string]any
	if h.Pre != nil {
		preEvals, preExtra = h.Pre(args.Tier, rep)
	}
	pool := lib.NewPool(lib.PoolOpts{Workers: args.Workers, Env: []string{fmt.Sprintf("VERIF_DEADLINE=%d", deadline.UnixNano())}})
	defer pool.Close()
	// level-major order: every scenario at bound 0, then every scenario at bound 1, ... so that a time
	// budget cuts the deepest bounds of all scenarios instead of starving the later scenarios
	stats = make([]scStat, len(scenarios))
	scStates := make([]map[uint64]struct{}, len(scenarios))
	scOutcomes := make([]map[string]int, len(scenarios))
	stopped := make([]bool, len(scenarios))
	maxLevels := 0
	for si, sc := range scenarios {
		stats[si] = scStat{Name: sc.Name}
		scStates[si] = map[uint64]struct{}{}
		scOutcomes[si] = map[string]int{}
		if len(sc.Levels) > maxLevels {
			maxLevels = len(sc.Levels)
		}
	}
	stalledRoot := false
	for li := 0; li < maxLevels && !stalledRoot; li++ {
		for si, sc := range scenarios {
			if li >= len(sc.Levels) || stopped[si] {
				continue
			}
			st := &stats[si]
			states := scStates[si]
			outcomes := scOutcomes[si]
			lv := sc.Levels[li]
			if time.Now().After(deadline) {
				st.Capped = lv.String() + " (not started: time budget)"
				exhaustive = false
				stopped[si] = true
				continue
			}
			// root execution in this process to obtain the subtrees
			var rootFindings []foundViolation
			e := newExplorer(h, sc, lv)
			var rootOutcome string
			e.Check = func(r *mcrt.Result) bool {
				o, fs := h.Judge(sc, r)
				rootOutcome = o
				for _, f := range fs {
					rootFindings = append(rootFindings, foundViolation{Finding: f, Scenario: sc.Name, Choices: r.Choices, Bounds: lv, Count: 1})
				}
				return true
			}
			root, subtrees := e.Root()
			if root.Status == mcrt.StStalled {
				// this process cannot execute anything any more: report what is known and stop
				if f, ok := stallFinding(root); ok {
					rep.ViolateN(toViolation(foundViolation{Finding: f, Scenario: sc.Name, Choices: root.Choices, Bounds: lv, Count: 1}))
				} else {
					rep.InfraError(sc.Name + ": an execution stopped making progress outside the code under test\n" + clipStacks(root.StallStacks))
				}
				st.Capped = lv.String() + " (the default execution stalled)"
				exhaustive = false
				stalledRoot = true
				break
			}
			outcomes[rootOutcome]++
			for k := range e.Stats.States {
				states[k] = struct{}{}
			}
			levelExec, levelTrans := 1, root.Steps
			for _, m := range e.Stats.Infra {
				rep.InfraError(sc.Name + ": " + m)
			}
			for _, v := range rootFindings {
				rep.ViolateN(toViolation(v))
			}
			if len(samples) < 3 && li == len(sc.Levels)-1 {
				samples = append(samples, map[string]any{"scenario": sc.Name, "schedule": choiceString(root.Choices), "status": root.Status.String(), "steps": root.Steps, "threads": root.Threads})
			}
			tasks := make([]any, len(subtrees))
			for i, p := range subtrees {
				tasks[i] = task{Scenario: si, Level: li, Prefix: p}
			}
			capped := false
			if len(tasks) > 0 {
				pool.Run(tasks, func(o lib.TaskOutcome) {
					if o.Crashed || o.TimedOut {
						t := tasks[o.Index].(task)
						rep.InfraError(fmt.Sprintf("%s: worker died exploring subtree %s: %s\n%s", sc.Name, choiceString(t.Prefix), lib.FatalLine(o.Stderr), o.Stderr))
						return
					}
					var tr taskResult
					if err := json.Unmarshal(o.Result, &tr); err != nil {
						rep.InfraError("bad worker result: " + err.Error())
						return
					}
					levelExec += tr.Executions
					levelTrans += tr.Transitions
					for _, s := range tr.NewStates {
						states[s] = struct{}{}
					}
					for k, n := range tr.Outcomes {
						outcomes[k] += n
					}
					for _, v := range tr.Violations {
						rep.ViolateN(toViolation(v))
					}
					for _, m := range tr.Infra {
						rep.InfraError(sc.Name + ": " + m)
					}
					stragglers += tr.Stragglers
					if tr.Capped {
						capped = true
					}
					if tr.MaxPoints > st.MaxPoints {
						st.MaxPoints = tr.MaxPoints
					}
					racesChecked += tr.Races
					if len(samples) < 6 && len(tr.Sample) > 0 && li == len(sc.Levels)-1 {
						samples = append(samples, map[string]any{"scenario": sc.Name, "schedule": choiceString(tr.Sample)})
					}
				})
			}
			st.Executions += levelExec
			st.Transitions += levelTrans
			if capped {
				st.Capped = lv.String() + " (time budget reached during this level)"
				exhaustive = false
				stopped[si] = true
				continue
			}
			st.Completed = append(st.Completed, fmt.Sprintf("%s: %d executions", lv, levelExec))
			// stop deepening a scenario as soon as a new (not ledgered) violation is known: the first
			// counter-example has the fewest deviations
			if len(rep.Violations()) > 0 && hasUnknown(rep) {
				stopped[si] = true
			}
		}
	}
	for si, sc := range scenarios {
		st := &stats[si]
		st.States = len(scStates[si])
		st.Outcomes = len(scOutcomes[si])
		for k, n := range scOutcomes[si] {
			allOutcomes[sc.Name+": "+k] += n
		}
		totalExec += st.Executions
		totalTrans += st.Transitions
		totalStates += st.States
	}
	outKeys := make([]string, 0, len(allOutcomes))
	for k := range allOutcomes {
		outKeys = append(outKeys, k)
	}
	sort.Strings(outKeys)
	outList := []string{}
	for _, k := range outKeys {
		if len(outList) < 60 {
			outList = append(outList, fmt.Sprintf("%s x%d", k, allOutcomes[k]))
		}
	}
	rule := h.Rule
	if rule == "" {
		rule = "stateless depth-first search over the choice sequences (thread schedule at every visible synchronisation / channel / transport operation, plus environment answers) of the real code under a cooperative scheduler; bounds iterated per scenario; a case is distinct by its choice sequence"
	}
	extraKeys := map[string]any{}
	for k, v := range preExtra {
		extraKeys[k] = v
	}
	totalExec += preEvals
	rep.Finish(lib.Coverage{
		Evaluations:        totalExec,
		DistinctNontrivial: len(allOutcomes),
		Rule:               rule,
		Samples:            samples,
		States:             totalStates,
		Transitions:        totalTrans,
		TracesValidated:    totalExec,
		Exhaustive:         exhaustive,
		Extra: mergeExtra(extraKeys, map[string]any{
			"scenarios":                 stats,
			"distinct_outcomes":         outList,
			"distinct_outcome_count":    len(allOutcomes),
			"distinct_nontrivial_rule":  "distinct (scenario, observable outcome) pairs over all executions",
			"states_rule":               "distinct scheduling-state signatures (per-thread pending operation, object and progress) summed over scenarios; reporting only, never used to prune",
			"traces_validated_how":      "every explored trace is an execution of the implementation compiled from /repo's working tree (no separate model); the first 20 executions of every search and every violating schedule are re-executed and must reproduce the same trace hash",
			"executions_with_race_scan": racesChecked,
			"executions_abandoned_because_a_goroutine_did_not_leave_in_time": stragglers,
		}),
	}, h.Assumptions)
}

func mergeExtra(a, b map[string]any) map[string]any {
	for k, v := range a {
		b[k] = v
	}
	return b
}

func hasUnknown(rep *lib.Report) bool {
	for _, v := range rep.Violations() {
		if !lib.IsKnown(rep.Property, v.Signature) {
			return true
		}
	}
	return false
}

func toViolation(v foundViolation) lib.Violation {
	return lib.Violation{
		Signature: v.Signature,
		Detail:    fmt.Sprintf("scenario %s, bounds %s, schedule %s\n%s", v.Scenario, v.Bounds, choiceString(v.Choices), v.Detail),
		Replay:    replayFile{Scenario: v.Scenario, Choices: v.Choices, Bounds: v.Bounds},
		Count:     v.Count,
		Confirmed: true,
	}
}

func choiceString(c []mcrt.Choice) string {
	var b strings.Builder
	for i, x := range c {
		if i > 0 {
			b.WriteByte(' ')
		}
		if x.I == 0 {
			b.WriteByte('.')
		} else {
			fmt.Fprintf(&b, "%d/%d", x.I, x.N)
		}
	}
	return b.String()
}

func newExplorer(h Harness, sc Scenario, lv Bounds) *mcrt.Explorer {
	return &mcrt.Explorer{
		Body:       h.Body(sc),
		MaxPreempt: lv.Preempt,
		MaxDelay:   lv.Delay,
		MaxDeviate: lv.Deviate,
		MaxSteps:   sc.MaxSteps,
		Races:      sc.Races,
	}
}

type workerState struct {
	h         Harness
	scenarios []Scenario
	states    map[int]map[uint64]struct{}
	deadline  time.Time
	retired   bool // an execution stalled in this process: no further task is run here
}

// stallFinding: an execution whose running thread never reached its next scheduling point. If the stuck goroutine is
// inside the module under test this is a busy loop there (a caller never returns, and no lock or channel is involved);
// otherwise it is the harness or the machine.
func stallFinding(r *mcrt.Result) (Finding, bool) {
	site := lib.HangSite(r.StallStacks)
	if site == "" {
		return Finding{}, false
	}
	return Finding{Signature: "an execution never reaches its next synchronisation point (busy loop) in " + site,
		Detail: fmt.Sprintf("no scheduling point for %s of real time after %d steps; the goroutine is still running:\n%s", mcrt.StallAfter, r.Steps, clipStacks(r.StallStacks))}, true
}

func clipStacks(s string) string {
	if len(s) > 6000 {
		return s[:6000] + "\n..."
	}
	return s
}

func (w *workerState) handle(raw json.RawMessage) any {
	if w.retired {
		fmt.Fprintln(os.Stderr, lib.WorkerRetired)
		os.Exit(0)
	}
	var t task
	if err := json.Unmarshal(raw, &t); err != nil {
		return taskResult{Infra: []string{"bad task: " + err.Error()}}
	}
	sc := w.scenarios[t.Scenario]
	lv := sc.Levels[t.Level]
	e := newExplorer(w.h, sc, lv)
	e.Deadline = w.deadline
	known := w.states[t.Scenario]
	if known == nil {
		known = map[uint64]struct{}{}
		w.states[t.Scenario] = known
		// first task of this scenario in this process: one default execution that is thrown away, so that whatever the
		// code under test builds lazily and keeps for the life of the process exists before executions are recorded
		if wr := mcrt.Run(nil, e.Body, mcrt.RunOpts{MaxSteps: e.MaxSteps, Races: e.Races}); wr.Status == mcrt.StStalled {
			w.retired = true
			res := taskResult{Outcomes: map[string]int{}, Capped: true}
			if f, ok := stallFinding(wr); ok {
				res.Violations = append(res.Violations, foundViolation{Finding: f, Scenario: sc.Name, Choices: wr.Choices, Bounds: lv, Count: 1})
			} else {
				res.Infra = append(res.Infra, "an execution stopped making progress outside the code under test\n"+clipStacks(wr.StallStacks))
			}
			return res
		}
	}
	e.Stats.States = map[uint64]struct{}{}
	res := taskResult{Outcomes: map[string]int{}}
	seen := map[string]int{}
	e.Check = func(r *mcrt.Result) bool {
		if r.Status == mcrt.StInfra {
			return true // recorded by the explorer
		}
		if r.Status == mcrt.StStalled {
			w.retired = true
			if f, ok := stallFinding(r); ok {
				res.Violations = append(res.Violations, foundViolation{Finding: f, Scenario: sc.Name, Choices: r.Choices, Bounds: lv, Count: 1})
			} else {
				res.Infra = append(res.Infra, "an execution stopped making progress outside the code under test\n"+clipStacks(r.StallStacks))
			}
			return false
		}
		if len(r.Races) > 0 || sc.Races {
			res.Races++
		}
		o, fs := w.h.Judge(sc, r)
		// happens-before races found by the vector-clock scan of this execution are violations in every harness (the
		// atomicity of the code between scheduling points rests on their absence); harnesses that report them
		// themselves use the same signature
		for _, rc := range r.Races {
			a, b := rc.First, rc.Then
			if a > b {
				a, b = b, a
			}
			sig := "data race: " + a + " <-> " + b
			dup := false
			for _, f := range fs {
				if f.Signature == sig {
					dup = true
				}
			}
			if !dup {
				fs = append(fs, Finding{Signature: sig, Detail: rc.String()})
			}
		}
		res.Outcomes[o]++
		for _, f := range fs {
			if i, ok := seen[f.Signature]; ok {
				res.Violations[i].Count++
				continue
			}
			if !e.Confirm(r, 2) {
				continue
			}
			seen[f.Signature] = len(res.Violations)
			res.Violations = append(res.Violations, foundViolation{Finding: f, Scenario: sc.Name, Choices: r.Choices, Bounds: lv, Count: 1})
		}
		if res.Sample == nil && len(r.Choices) > 0 {
			res.Sample = r.Choices
		}
		return true
	}
	e.Subtree(t.Prefix)
	res.Executions = e.Stats.Executions
	res.Transitions = e.Stats.Transitions
	for _, m := range e.Stats.Infra {
		if strings.Contains(m, "straggler goroutines") {
			// a goroutine of one execution did not leave in time (a machine that does not schedule the process, or a
			// goroutine parked outside the shim): that execution is not judged, the rest of this subtree is left
			// unexplored (the run is then not exhaustive) and this process takes no further task
			res.Stragglers++
			res.Capped = true
			w.retired = true
			continue
		}
		res.Infra = append(res.Infra, m)
	}
	res.Capped = e.Stats.Capped
	res.MaxPoints = e.Stats.MaxPoints
	for k := range e.Stats.States {
		if _, ok := known[k]; !ok {
			known[k] = struct{}{}
			res.NewStates = append(res.NewStates, k)
		}
	}
	return res
}

func replay(h Harness, scenarios []Scenario, args lib.Args) {
	var rf replayFile
	sig, err := lib.LoadReplay(args.Replay, &rf)
	if err != nil {
		fmt.Fprintf(os.Stderr, "INFRA-ERROR cannot load replay: %v\n", err)
		os.Exit(2)
	}
	for _, sc := range scenarios {
		if sc.Name != rf.Scenario {
			continue
		}
		e := newExplorer(h, sc, rf.Bounds)
		r := e.Replay(rf.Choices)
		fmt.Printf("replay of %s\nscenario %s schedule %s\nstatus: %s  steps: %d  threads: %d  timer fires: %d\n", args.Replay, sc.Name, choiceString(rf.Choices), r.Status, r.Steps, r.Threads, r.TimerFires)
		if r.Status == mcrt.StInfra {
			fmt.Printf("INFRA-ERROR %s\n", r.Infra)
			os.Exit(2)
		}
		for _, l := range r.Trace {
			fmt.Println("  ", l)
		}
		for _, b := range r.Blocked {
			fmt.Println("  blocked:", b)
		}
		if r.Status == mcrt.StPanic {
			fmt.Printf("  panic in T%d: %s\n%s\n", r.PanicTID, r.PanicValue, r.PanicStack)
		}
		o, fs := h.Judge(sc, r)
		fmt.Println("outcome:", o)
		hit := false
		for _, f := range fs {
			fmt.Printf("finding: %s\n  %s\n", f.Signature, strings.ReplaceAll(f.Detail, "\n", "\n  "))
			if f.Signature == sig {
				hit = true
			}
		}
		if hit {
			fmt.Printf("VIOLATION property=%s replay=%s\n", h.Property, args.Replay)
			os.Exit(1)
		}
		fmt.Println("the recorded violation does not reproduce on the current tree")
		os.Exit(0)
	}
	fmt.Fprintf(os.Stderr, "INFRA-ERROR unknown scenario %q\n", rf.Scenario)
	os.Exit(2)
}
