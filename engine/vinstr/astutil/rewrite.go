// Copyright 2017 The Go Authors. All rights reserved.
// Use of this source code is governed by a BSD-style
// license that can be found in the LICENSE file.

package astutil

import (
	"fmt"
	"go/ast"
	"reflect"
	"sort"
)

// An ApplyFunc is invoked by Apply for each node n, even if n is nil,
// before and/or after the node's children, using a Cursor describing
// the current node and providing operations on it.
//
// The return value of ApplyFunc controls the syntax tree traversal.
// See Apply for details.
type ApplyFunc func(*Cursor) bool

// Apply traverses a syntax tree recursively, starting with root,
// and calling pre and post for each node as described below.
// Apply returns the syntax tree, possibly modified.
//
// If pre is not nil, it is called for each node before the node's
// children are traversed (pre-order). If pre returns false, no
// children are traversed, and post is not called for that node.
//
// If post is not nil, and a prior call of pre didn't return false,
// post is called for each node after its children are traversed
// (post-order). If post returns false, traversal is terminated and
// Apply returns immediately.
//
// Only fields that refer to AST nodes are considered children;
// i.e., token.Pos, Scopes, Objects, and fields of basic types
// (strings, etc.) are ignored.
//
// Children are traversed in the order in which they appear in the
// respective node's struct definition. A package's files are
// traversed in the filenames' alphabetical order.
func Apply(root ast.Node, pre, post ApplyFunc) (result ast.Node) {
	parent := &struct{ ast.Node }{root}
	defer func() {
		if r := recover(); r != nil && r != abort {
			panic(r)
		}
		result = parent.Node
	}()
	a := &application{pre: pre, post: post}
	a.apply(parent, "Node", nil, root)
	return
}

var abort = new(int) // singleton, to signal termination of Apply

// A Cursor describes a node encountered during Apply.
// Information about the node and its parent is available
// from the Node, Parent, Name, and Index methods.
//
// If p is a variable of type and value of the current parent node
// c.Parent(), and f is the field identifier with name c.Name(),
// the following invariants hold:
//
//	p.f            == c.Node()  if c.Index() <  0
//	p.f[c.Index()] == c.Node()  if c.Index() >= 0
//
// The methods Replace, Delete, InsertBefore, and InsertAfter
// can be used to change the AST without disrupting Apply.
type Cursor struct {
	parent ast.Node
	name   string
	iter   *iterator // valid if non-nil
	node   ast.Node
}

// Node returns the current Node.
func (c *Cursor) Node() ast.Node { return c.node }

// Parent returns the parent of the current Node.
func (c *Cursor) Parent() ast.Node { return c.parent }

// Name returns the name of the parent Node field that contains the current Node.
// If the parent is a *ast.Package and the current Node is a *ast.File, Name returns
// the filename for the current Node.
func (c *Cursor) Name() string { return c.name }

// Index reports the index >= 0 of the current Node in the slice of Nodes that
// contains it, or a value < 0 if the current Node is not part of a slice.
// The index of the current node changes if InsertBefore is called while
// processing the current node.
func (c *Cursor) Index() int {
	if c.iter != nil {
		return c.iter.index
	}
	return -1
}

// field returns the current node's parent field value.
func (c *Cursor) field() reflect.Value {
	return reflect.Indirect(reflect.ValueOf(c.parent)).FieldByName(c.name)
}

// Replace replaces the current Node with n.
// The replacement node is not walked by Apply.
func (c *Cursor) Replace(n ast.Node) {
	if _, ok := c.node.(*ast.File); ok {
		file, ok := n.(*ast.File)
		if !ok {
			panic("attempt to replace *ast.File with non-*ast.File")
		}
		c.parent.(*ast.Package).Files[c.name] = file
		return
	}

	v := c.field()
	if i := c.Index(); i >= 0 {
		v = v.Index(i)
	}
	v.Set(reflect.ValueOf(n))
}

// Delete deletes the current Node from its containing slice.
// If the current Node is not part of a slice, Delete panics.
// As a special case, if the current node is a package file,
// Delete removes it from the package's Files map.
func (c *Cursor) Delete() {
	if _, ok := c.node.(*ast.File); ok {
		delete(c.parent.(*ast.Package).Files, c.name)
		return
	}

	i := c.Index()
	if i < 0 {
		panic("Delete node not contained in slice")
	}
	v := c.field()
	l := v.Len()
	reflect.Copy(v.Slice(i, l), v.Slice(i+1, l))
	v.Index(l - 1).Set(reflect.Zero(v.Type().Elem()))
	v.SetLen(l - 1)
	c.iter.step--
}

// InsertAfter inserts n after the current Node in its containing slice.
// If the current Node is not part of a slice, InsertAfter panics.
// Apply does not walk n.
func (c *Cursor) InsertAfter(n ast.Node) {
	i := c.Index()
	if i < 0 {
		panic("InsertAfter node not contained in slice")
	}
	v := c.field()
	v.Set(reflect.Append(v, reflect.Zero(v.Type().Elem())))
	l := v.Len()
	reflect.Copy(v.Slice(i+2, l), v.Slice(i+1, l))
	v.Index(i + 1).Set(reflect.ValueOf(n))
	c.iter.step++
}

// InsertBefore inserts n before the current Node in its containing slice.
// If the current Node is not part of a slice, InsertBefore panics.
// Apply will not walk n.
func (c *Cursor) InsertBefore(n ast.Node) {
	i := c.Index()
	if i < 0 {
		panic("InsertBefore node not contained in slice")
	}
	v := c.field()
	v.Set(reflect.Append(v, reflect.Zero(v.Type().Elem())))
	l := v.Len()
	reflect.Copy(v.Slice(i+1, l), v.Slice(i, l))
	v.Index(i).Set(reflect.ValueOf(n))
	c.iter.index++
}

// application carries all the shared data so we can pass it around cheaply.
type application struct {
	pre, post ApplyFunc
	cursor    Cursor
	iter      iterator
}

func (a *application) apply(parent ast.Node, name string, iter *iterator, n ast.Node) {
	// convert typed nil into untyped nil
	if v := reflect.ValueOf(n); v.Kind() == reflect.Ptr && v.IsNil() {
		n = nil
	}

	// avoid heap-allocating a new cursor for each apply call; reuse a.cursor instead
	saved := a.cursor
	a.cursor.parent = parent
	a.cursor.name = name
	a.cursor.iter = iter
	a.cursor.node = n

	if a.pre != nil && !a.pre(&a.cursor) {
		a.cursor = saved
		return
	}

	// walk children
	// (the order of the cases matches the order of the corresponding node types in go/ast)
	switch n := n.(type) {
	case nil:
		// nothing to do

	// Comments and fields
	case *ast.Comment:
		// nothing to do

	case *ast.CommentGroup:
		if n != nil {
			a.applyList(n, "List")
		}

	case *ast.Field:
		a.apply(n, "Doc", nil, n.Doc)
		a.applyList(n, "Names")
		a.apply(n, "Type", nil, n.Type)
		a.apply(n, "Tag", nil, n.Tag)
		a.apply(n, "Comment", nil, n.Comment)

	case *ast.FieldList:
		a.applyList(n, "List")

	// Expressions
	case *ast.BadExpr, *ast.Ident, *ast.BasicLit:
		// nothing to do

	case *ast.Ellipsis:
		a.apply(n, "Elt", nil, n.Elt)

	case *ast.FuncLit:
		a.apply(n, "Type", nil, n.Type)
		a.apply(n, "Body", nil, n.Body)

	case *ast.CompositeLit:
		a.apply(n, "Type", nil, n.Type)
		a.applyList(n, "Elts")

	case *ast.ParenExpr:
		a.apply(n, "X", nil, n.X)

	case *ast.SelectorExpr:
		a.apply(n, "X", nil, n.X)
		a.apply(n, "Sel", nil, n.Sel)

	case *ast.IndexExpr:
		a.apply(n, "X", nil, n.X)
		a.apply(n, "Index", nil, n.Index)

	case *ast.IndexListExpr:
		a.apply(n, "X", nil, n.X)
		a.applyList(n, "Indices")

	case *ast.SliceExpr:
		a.apply(n, "X", nil, n.X)
		a.apply(n, "Low", nil, n.Low)
		a.apply(n, "High", nil, n.High)
		a.apply(n, "Max", nil, n.Max)

	case *ast.TypeAssertExpr:
		a.apply(n, "X", nil, n.X)
		a.apply(n, "Type", nil, n.Type)

	case *ast.CallExpr:
		a.apply(n, "Fun", nil, n.Fun)
		a.applyList(n, "Args")

	case *ast.StarExpr:
		a.apply(n, "X", nil, n.X)

	case *ast.UnaryExpr:
		a.apply(n, "X", nil, n.X)

	case *ast.BinaryExpr:
		a.apply(n, "X", nil, n.X)
		a.apply(n, "Y", nil, n.Y)

	case *ast.KeyValueExpr:
		a.apply(n, "Key", nil, n.Key)
		a.apply(n, "Value", nil, n.Value)

	// Types
	case *ast.ArrayType:
		a.apply(n, "Len", nil, n.Len)
		a.apply(n, "Elt", nil, n.Elt)

	case *ast.StructType:
		a.apply(n, "Fields", nil, n.Fields)

	case *ast.FuncType:
		if tparams := n.TypeParams; tparams != nil {
			a.apply(n, "TypeParams", nil, tparams)
		}
		a.apply(n, "Params", nil, n.Params)
		a.apply(n, "Results", nil, n.Results)

	case *ast.InterfaceType:
		a.apply(n, "Methods", nil, n.Methods)

	case *ast.MapType:
		a.apply(n, "Key", nil, n.Key)
		a.apply(n, "Value", nil, n.Value)

	case *ast.ChanType:
		a.apply(n, "Value", nil, n.Value)

	// Statements
	case *ast.BadStmt:
		// nothing to do

	case *ast.DeclStmt:
		a.apply(n, "Decl", nil, n.Decl)

	case *ast.EmptyStmt:
		// nothing to do

	case *ast.LabeledStmt:
		a.apply(n, "Label", nil, n.Label)
		a.apply(n, "Stmt", nil, n.Stmt)

	case *ast.ExprStmt:
		a.apply(n, "X", nil, n.X)

	case *ast.SendStmt:
		a.apply(n, "Chan", nil, n.Chan)
		a.apply(n, "Value", nil, n.Value)

	case *ast.IncDecStmt:
		a.apply(n, "X", nil, n.X)

	case *ast.AssignStmt:
		a.applyList(n, "Lhs")
		a.applyList(n, "Rhs")

	case *ast.GoStmt:
		a.apply(n, "Call", nil, n.Call)

	case *ast.DeferStmt:
		a.apply(n, "Call", nil, n.Call)

	case *ast.ReturnStmt:
		a.applyList(n, "Results")

	case *ast.BranchStmt:
		a.apply(n, "Label", nil, n.Label)

	case *ast.BlockStmt:
		a.applyList(n, "List")

	case *ast.IfStmt:
		a.apply(n, "Init", nil, n.Init)
		a.apply(n, "Cond", nil, n.Cond)
		a.apply(n, "Body", nil, n.Body)
		a.apply(n, "Else", nil, n.Else)

	case *ast.CaseClause:
		a.applyList(n, "List")
		a.applyList(n, "Body")

	case *ast.SwitchStmt:
		a.apply(n, "Init", nil, n.Init)
		a.apply(n, "Tag", nil, n.Tag)
		a.apply(n, "Body", nil, n.Body)

	case *ast.TypeSwitchStmt:
		a.apply(n, "Init", nil, n.Init)
		a.apply(n, "Assign", nil, n.Assign)
		a.apply(n, "Body", nil, n.Body)

	case *ast.CommClause:
		a.apply(n, "Comm", nil, n.Comm)
		a.applyList(n, "Body")

	case *ast.SelectStmt:
		a.apply(n, "Body", nil, n.Body)

	case *ast.ForStmt:
		a.apply(n, "Init", nil, n.Init)
		a.apply(n, "Cond", nil, n.Cond)
		a.apply(n, "Post", nil, n.Post)
		a.apply(n, "Body", nil, n.Body)

	case *ast.RangeStmt:
		a.apply(n, "Key", nil, n.Key)
		a.apply(n, "Value", nil, n.Value)
		a.apply(n, "X", nil, n.X)
		a.apply(n, "Body", nil, n.Body)

	// Declarations
	case *ast.ImportSpec:
		a.apply(n, "Doc", nil, n.Doc)
		a.apply(n, "Name", nil, n.Name)
		a.apply(n, "Path", nil, n.Path)
		a.apply(n, "Comment", nil, n.Comment)

	case *ast.ValueSpec:
		a.apply(n, "Doc", nil, n.Doc)
		a.applyList(n, "Names")
		a.apply(n, "Type", nil, n.Type)
		a.applyList(n, "Values")
		a.apply(n, "Comment", nil, n.Comment)

	case *ast.TypeSpec:
		a.apply(n, "Doc", nil, n.Doc)
		a.apply(n, "Name", nil, n.Name)
		if tparams := n.TypeParams; tparams != nil {
			a.apply(n, "TypeParams", nil, tparams)
		}
		a.apply(n, "Type", nil, n.Type)
		a.apply(n, "Comment", nil, n.Comment)

	case *ast.BadDecl:
		// nothing to do

	case *ast.GenDecl:
		a.apply(n, "Doc", nil, n.Doc)
		a.applyList(n, "Specs")

	case *ast.FuncDecl:
		a.apply(n, "Doc", nil, n.Doc)
		a.apply(n, "Recv", nil, n.Recv)
		a.apply(n, "Name", nil, n.Name)
		a.apply(n, "Type", nil, n.Type)
		a.apply(n, "Body", nil, n.Body)

	// Files and packages
	case *ast.File:
		a.apply(n, "Doc", nil, n.Doc)
		a.apply(n, "Name", nil, n.Name)
		a.applyList(n, "Decls")
		// Don't walk n.Comments; they have either been walked already if
		// they are Doc comments, or they can be easily walked explicitly.

	case *ast.Package:
		// collect and sort names for reproducible behavior
		var names []string
		for name := range n.Files {
			names = append(names, name)
		}
		sort.Strings(names)
		for _, name := range names {
			a.apply(n, name, nil, n.Files[name])
		}

	default:
		panic(fmt.Sprintf("Apply: unexpected node type %T", n))
	}

	if a.post != nil && !a.post(&a.cursor) {
		panic(abort)
	}

	a.cursor = saved
}

// An iterator controls iteration over a slice of nodes.
type iterator struct {
	index, step int
}

func (a *application) applyList(parent ast.Node, name string) {
	// avoid heap-allocating a new iterator for each applyList call; reuse a.iter instead
	saved := a.iter
	a.iter.index = 0
	for {
		// must reload parent.name each time, since cursor modifications might change it
		v := reflect.Indirect(reflect.ValueOf(parent)).FieldByName(name)
		if a.iter.index >= v.Len() {
			break
		}

		// element x may be nil in a bad AST - be cautious
		var x ast.Node
		if e := v.Index(a.iter.index); e.IsValid() {
			x = e.Interface().(ast.Node)
		}

		a.iter.step = 1
		a.apply(parent, name, &a.iter, x)
		a.iter.index += a.iter.step
	}
	a.iter = saved
}
