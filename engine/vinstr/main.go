// vinstr is the source-to-source instrumenter of the /verif model checker.
//
// It reads packages of the module under test from its working tree, rewrites them and writes the
// rewritten files plus a `go build -overlay` description. Nothing is written into the module itself.
//
//	vinstr -repo /repo -out /verif/.work/x -mcrt /verif/engine/mcrt -pkg atp:sync,maporder -pkg schema:maporder
//
// Rewrites:
//
//	sync      "sync" -> mcrt shim; go statements, channel operations, select, time.After/Sleep,
//	          context.WithCancel go through the scheduler
//	maporder  range over maps and reflect MapKeys go through the map-order seam
//	access    reads/writes of lazily written fields, package variables and map objects emit events
//	entry     func main -> func VerifOrigMain (code generator)
//
// Exit status 2 = a construct that cannot be rewritten soundly (INFRA-ERROR), never a violation.
package main

import (
	"bytes"
	"encoding/json"
	"flag"
	"fmt"
	"go/ast"
	"go/format"
	"go/importer"
	"go/parser"
	"go/token"
	"go/types"
	"os"
	"path/filepath"
	"sort"
	"strings"

	"verif/engine/vinstr/astutil"
)

const mcrtPath = "go.flow.arcalot.io/pluginsdk/mcrt"

type pkgSpec struct {
	dir      string
	rewrites map[string]bool
}

type multiFlag []string

func (m *multiFlag) String() string     { return strings.Join(*m, " ") }
func (m *multiFlag) Set(v string) error { *m = append(*m, v); return nil }

func fatalf(format string, a ...any) {
	fmt.Fprintf(os.Stderr, "INFRA-ERROR vinstr: "+format+"\n", a...)
	os.Exit(2)
}

func main() {
	var pkgs multiFlag
	repo := flag.String("repo", "/repo", "module root")
	out := flag.String("out", "", "output directory")
	mcrtDir := flag.String("mcrt", "/verif/engine/mcrt", "runtime shim sources")
	modPath := flag.String("mcrtmod", "", "directory (inside the module) under which the virtual mcrt package is mounted; default <repo>/mcrt")
	importPath := flag.String("mcrtimport", mcrtPath, "import path of the virtual mcrt package")
	flag.Var(&pkgs, "pkg", "dir:rewrite,rewrite (repeatable)")
	flag.Parse()
	if *out == "" {
		fatalf("-out required")
	}
	if *modPath == "" {
		*modPath = filepath.Join(*repo, "mcrt")
	}
	if err := os.MkdirAll(*out, 0o755); err != nil {
		fatalf("%v", err)
	}
	overlay := map[string]string{}
	// virtual runtime package
	ents, err := os.ReadDir(*mcrtDir)
	if err != nil {
		fatalf("%v", err)
	}
	for _, e := range ents {
		if strings.HasSuffix(e.Name(), ".go") && !strings.HasSuffix(e.Name(), "_test.go") {
			overlay[filepath.Join(*modPath, e.Name())] = filepath.Join(*mcrtDir, e.Name())
		}
	}
	stats := map[string]int{}
	for _, p := range pkgs {
		parts := strings.SplitN(p, ":", 2)
		if len(parts) != 2 {
			fatalf("bad -pkg %q", p)
		}
		spec := pkgSpec{dir: filepath.Join(*repo, parts[0]), rewrites: map[string]bool{}}
		for _, r := range strings.Split(parts[1], ",") {
			spec.rewrites[r] = true
		}
		instrumentPackage(spec, filepath.Join(*out, parts[0]), overlay, stats, *importPath)
	}
	b, _ := json.MarshalIndent(map[string]any{"Replace": overlay}, "", " ")
	if err := os.WriteFile(filepath.Join(*out, "overlay.json"), b, 0o644); err != nil {
		fatalf("%v", err)
	}
	sb, _ := json.Marshal(stats)
	_ = os.WriteFile(filepath.Join(*out, "vinstr-stats.json"), sb, 0o644)
}

type rewriter struct {
	fset     *token.FileSet
	info     *types.Info
	rw       map[string]bool
	file     *ast.File
	usedMcrt bool
	stats    map[string]int
	tmp      int
	written  map[types.Object]bool // access rewrite: fields / package vars written outside literals
	pkg      *types.Package
	errs     []string
}

func instrumentPackage(spec pkgSpec, outDir string, overlay map[string]string, stats map[string]int, mcrtImport string) {
	fset := token.NewFileSet()
	ents, err := os.ReadDir(spec.dir)
	if err != nil {
		fatalf("%v", err)
	}
	var files []*ast.File
	var names []string
	for _, e := range ents {
		n := e.Name()
		if !strings.HasSuffix(n, ".go") || strings.HasSuffix(n, "_test.go") || strings.HasPrefix(n, "_") {
			continue
		}
		f, err := parser.ParseFile(fset, filepath.Join(spec.dir, n), nil, parser.ParseComments)
		if err != nil {
			fatalf("parse %s: %v", n, err)
		}
		if f.Name.Name == "main" && !spec.rewrites["entry"] && hasIgnoreTag(f) {
			continue
		}
		files = append(files, f)
		names = append(names, n)
	}
	info := &types.Info{
		Types:      map[ast.Expr]types.TypeAndValue{},
		Uses:       map[*ast.Ident]types.Object{},
		Defs:       map[*ast.Ident]types.Object{},
		Selections: map[*ast.SelectorExpr]*types.Selection{},
	}
	wd, _ := os.Getwd()
	if err := os.Chdir(spec.dir); err != nil {
		fatalf("%v", err)
	}
	conf := types.Config{Importer: importer.ForCompiler(fset, "source", nil), Error: func(err error) {}}
	pkg, terr := conf.Check(spec.dir, fset, files, info)
	_ = os.Chdir(wd)
	if terr != nil {
		// The tree must compile for a check to mean anything; report as infra so that a broken build is
		// never mistaken for a property violation.
		fatalf("type check of %s failed: %v", spec.dir, terr)
	}
	if err := os.MkdirAll(outDir, 0o755); err != nil {
		fatalf("%v", err)
	}
	var written map[types.Object]bool
	if spec.rewrites["access"] {
		written = computeWritten(files, info)
	}
	for i, f := range files {
		r := &rewriter{fset: fset, info: info, rw: spec.rewrites, file: f, stats: stats, written: written, pkg: pkg}
		r.rewriteFile(mcrtImport)
		if len(r.errs) > 0 {
			fatalf("%s: %s", names[i], strings.Join(r.errs, "; "))
		}
		f.Comments = keepDirectives(f)
		var buf bytes.Buffer
		if err := format.Node(&buf, fset, f); err != nil {
			fatalf("print %s: %v", names[i], err)
		}
		dst := filepath.Join(outDir, names[i])
		if err := os.WriteFile(dst, buf.Bytes(), 0o644); err != nil {
			fatalf("%v", err)
		}
		overlay[filepath.Join(spec.dir, names[i])] = dst
	}
}

func hasIgnoreTag(f *ast.File) bool {
	for _, cg := range f.Comments {
		for _, c := range cg.List {
			if strings.HasPrefix(c.Text, "//go:build ignore") {
				return true
			}
		}
	}
	return false
}

func keepDirectives(f *ast.File) []*ast.CommentGroup {
	var out []*ast.CommentGroup
	for _, cg := range f.Comments {
		if cg.End() < f.Package {
			for _, c := range cg.List {
				if strings.HasPrefix(c.Text, "//go:build") {
					out = append(out, &ast.CommentGroup{List: []*ast.Comment{c}})
				}
			}
		}
	}
	f.Doc = nil
	return out
}

func (r *rewriter) errorf(n ast.Node, format string, a ...any) {
	r.errs = append(r.errs, fmt.Sprintf("%s: ", r.fset.Position(n.Pos()))+fmt.Sprintf(format, a...))
}

func (r *rewriter) mcrt(name string) ast.Expr {
	r.usedMcrt = true
	return &ast.SelectorExpr{X: ast.NewIdent("mcrt"), Sel: ast.NewIdent(name)}
}

func (r *rewriter) call(name string, args ...ast.Expr) *ast.CallExpr {
	return &ast.CallExpr{Fun: r.mcrt(name), Args: args}
}

func (r *rewriter) newTmp(prefix string) *ast.Ident {
	r.tmp++
	return ast.NewIdent(fmt.Sprintf("_%s%d", prefix, r.tmp))
}

func (r *rewriter) typeOf(e ast.Expr) types.Type {
	if tv, ok := r.info.Types[e]; ok {
		return tv.Type
	}
	// nodes created by the access rewrite: look through mcrt.RMap(x) / mcrt.WMap(x) and (*mcrt.R(&x)) / (*mcrt.W(&x))
	switch x := e.(type) {
	case *ast.CallExpr:
		if (isMcrtCall(x, "RMap") || isMcrtCall(x, "WMap") || isMcrtCall(x, "RSlice") || isMcrtCall(x, "WSlice") || isMcrtCall(x, "AppendW")) && len(x.Args) == 1 {
			return r.typeOf(x.Args[0])
		}
	case *ast.ParenExpr:
		return r.typeOf(x.X)
	case *ast.StarExpr:
		if c, ok := x.X.(*ast.CallExpr); ok && (isMcrtCall(c, "R") || isMcrtCall(c, "W")) && len(c.Args) == 1 {
			if u, ok := c.Args[0].(*ast.UnaryExpr); ok && u.Op == token.AND {
				return r.typeOf(u.X)
			}
		}
	}
	return nil
}

func isPkgSel(e ast.Expr, pkg, name string) bool {
	s, ok := e.(*ast.SelectorExpr)
	if !ok {
		return false
	}
	x, ok := s.X.(*ast.Ident)
	return ok && x.Name == pkg && s.Sel.Name == name
}

func (r *rewriter) isPkgIdent(id *ast.Ident, path string) bool {
	if obj, ok := r.info.Uses[id]; ok {
		if pn, ok := obj.(*types.PkgName); ok {
			return pn.Imported().Path() == path
		}
		return false
	}
	return false
}

func (r *rewriter) isPkgFunc(e ast.Expr, path, name string) bool {
	s, ok := e.(*ast.SelectorExpr)
	if !ok || s.Sel.Name != name {
		return false
	}
	x, ok := s.X.(*ast.Ident)
	return ok && r.isPkgIdent(x, path)
}

func (r *rewriter) rewriteFile(mcrtImport string) {
	f := r.file
	if r.rw["entry"] {
		for _, d := range f.Decls {
			if fd, ok := d.(*ast.FuncDecl); ok && fd.Recv == nil && fd.Name.Name == "main" {
				fd.Name = ast.NewIdent("VerifOrigMain")
				r.stats["entry"]++
			}
		}
	}
	if r.rw["access"] {
		r.rewriteAccess()
	}
	post := func(c *astutil.Cursor) bool {
		switch n := c.Node().(type) {
		case *ast.GoStmt:
			if r.rw["sync"] {
				c.Replace(r.rewriteGo(n))
			}
		case *ast.SendStmt:
			if r.rw["sync"] {
				r.stats["send"]++
				c.Replace(&ast.ExprStmt{X: r.call("Send", n.Chan, n.Value)})
			}
		case *ast.SelectStmt:
			if r.rw["sync"] {
				c.Replace(r.rewriteSelect(n))
			}
		case *ast.AssignStmt:
			if r.rw["sync"] && len(n.Lhs) == 2 && len(n.Rhs) == 1 {
				if ce, ok := n.Rhs[0].(*ast.CallExpr); ok && isMcrtCall(ce, "Recv") {
					ce.Fun = r.mcrt("Recv2")
				}
			}
		case *ast.ValueSpec:
			if r.rw["sync"] && len(n.Names) == 2 && len(n.Values) == 1 {
				if ce, ok := n.Values[0].(*ast.CallExpr); ok && isMcrtCall(ce, "Recv") {
					ce.Fun = r.mcrt("Recv2")
				}
			}
		case *ast.UnaryExpr:
			if r.rw["sync"] && n.Op == token.ARROW {
				if commSkip[n] {
					break // handled by rewriteSelect
				}
				r.stats["recv"]++
				c.Replace(r.call("Recv", n.X))
			}
		case *ast.CallExpr:
			r.rewriteCall(c, n)
		case *ast.RangeStmt:
			r.rewriteRange(c, n)
		}
		return true
	}
	pre := func(c *astutil.Cursor) bool {
		// receive expressions directly inside a comm clause (`case x := <-ch`) stay untouched until the
		// select statement itself is rewritten
		if cc, ok := c.Node().(*ast.CommClause); ok && r.rw["sync"] {
			r.protectComm(cc)
		}
		return true
	}
	if r.rw["sync"] {
		r.insertAtomicFences(f)
	}
	astutil.Apply(f, pre, post)

	if r.rw["sync"] {
		for _, imp := range f.Imports {
			if imp.Path.Value == `"sync"` {
				imp.Path.Value = fmt.Sprintf("%q", mcrtImport)
				if imp.Name == nil {
					imp.Name = ast.NewIdent("sync")
				}
				r.stats["sync-import"]++
			}
		}
	}
	if r.usedMcrt {
		addImport(f, "mcrt", mcrtImport)
	}
	// keep possibly orphaned imports alive
	keep := map[string]string{"time": "Duration", "context": "Context", "reflect": "Value"}
	for _, imp := range f.Imports {
		p := strings.Trim(imp.Path.Value, `"`)
		if typ, ok := keep[p]; ok && (imp.Name == nil || imp.Name.Name == p) {
			f.Decls = append(f.Decls, &ast.GenDecl{Tok: token.VAR, Specs: []ast.Spec{&ast.ValueSpec{
				Names: []*ast.Ident{ast.NewIdent("_")},
				Type:  &ast.SelectorExpr{X: ast.NewIdent(p), Sel: ast.NewIdent(typ)},
			}}})
		}
	}
}

// usesAtomic reports whether the statement itself (not nested blocks or function literals) calls into sync/atomic:
// a package function, or a method of one of its types.
func (r *rewriter) usesAtomic(st ast.Stmt) bool {
	found := false
	ast.Inspect(st, func(n ast.Node) bool {
		switch x := n.(type) {
		case *ast.BlockStmt, *ast.FuncLit:
			return n == ast.Node(st)
		case *ast.CallExpr:
			if sel, ok := x.Fun.(*ast.SelectorExpr); ok {
				if id, ok := sel.X.(*ast.Ident); ok && r.isPkgIdent(id, "sync/atomic") {
					found = true
				}
				if s, ok := r.info.Selections[sel]; ok && s.Obj().Pkg() != nil && s.Obj().Pkg().Path() == "sync/atomic" {
					found = true
				}
			}
		}
		return !found
	})
	return found
}

// insertAtomicFences puts mcrt.AtomicFence() before and after every statement that uses sync/atomic (and at the
// start of a loop body whose header does).
func (r *rewriter) insertAtomicFences(f *ast.File) {
	fence := func() ast.Stmt { return &ast.ExprStmt{X: r.call("AtomicFence")} }
	ast.Inspect(f, func(n ast.Node) bool {
		var list *[]ast.Stmt
		switch x := n.(type) {
		case *ast.BlockStmt:
			list = &x.List
		case *ast.CaseClause:
			list = &x.Body
		case *ast.CommClause:
			list = &x.Body
		}
		if list == nil {
			return true
		}
		var out []ast.Stmt
		for _, st := range *list {
			header := st
			switch x := st.(type) {
			case *ast.ForStmt:
				header = &ast.ForStmt{Init: x.Init, Cond: x.Cond, Post: x.Post, Body: &ast.BlockStmt{}}
				if r.usesAtomic(header) {
					x.Body.List = append([]ast.Stmt{fence()}, x.Body.List...)
				}
			case *ast.IfStmt:
				header = &ast.IfStmt{Init: x.Init, Cond: x.Cond, Body: &ast.BlockStmt{}}
			case *ast.SwitchStmt:
				header = &ast.SwitchStmt{Init: x.Init, Tag: x.Tag, Body: &ast.BlockStmt{}}
			case *ast.BlockStmt, *ast.SelectStmt, *ast.TypeSwitchStmt, *ast.RangeStmt, *ast.LabeledStmt:
				out = append(out, st)
				continue
			}
			if !r.usesAtomic(header) {
				out = append(out, st)
				continue
			}
			r.stats["atomic-fence"]++
			out = append(out, fence(), st)
			switch st.(type) {
			case *ast.ReturnStmt, *ast.BranchStmt:
			default:
				out = append(out, fence())
			}
		}
		*list = out
		return true
	})
}

func isMcrtCall(ce *ast.CallExpr, name string) bool {
	return isPkgSel(ce.Fun, "mcrt", name)
}

// protectComm marks the receive expression of a comm clause so that the generic UnaryExpr rule skips it
// (its channel operand is still traversed and rewritten).
func (r *rewriter) protectComm(cc *ast.CommClause) {
	if u := commRecvOf(cc.Comm); u != nil {
		commSkip[u] = true
	}
}

func commRecvOf(st ast.Stmt) *ast.UnaryExpr {
	switch s := st.(type) {
	case *ast.AssignStmt:
		if len(s.Rhs) == 1 {
			if u, ok := s.Rhs[0].(*ast.UnaryExpr); ok && u.Op == token.ARROW {
				return u
			}
		}
	case *ast.ExprStmt:
		if u, ok := s.X.(*ast.UnaryExpr); ok && u.Op == token.ARROW {
			return u
		}
	}
	return nil
}

var commSkip = map[*ast.UnaryExpr]bool{}

func (r *rewriter) rewriteGo(n *ast.GoStmt) ast.Stmt {
	r.stats["go"]++
	call := n.Call
	if fl, ok := call.Fun.(*ast.FuncLit); ok && len(call.Args) == 0 &&
		(fl.Type.Params == nil || len(fl.Type.Params.List) == 0) &&
		(fl.Type.Results == nil || len(fl.Type.Results.List) == 0) {
		return &ast.ExprStmt{X: r.call("Go", fl)}
	}
	// general form: evaluate function value and arguments now, call later
	var stmts []ast.Stmt
	fn := r.newTmp("gf")
	stmts = append(stmts, &ast.AssignStmt{Lhs: []ast.Expr{fn}, Tok: token.DEFINE, Rhs: []ast.Expr{call.Fun}})
	var args []ast.Expr
	for _, a := range call.Args {
		t := r.newTmp("ga")
		stmts = append(stmts, &ast.AssignStmt{Lhs: []ast.Expr{t}, Tok: token.DEFINE, Rhs: []ast.Expr{a}})
		args = append(args, t)
	}
	inner := &ast.CallExpr{Fun: fn, Args: args, Ellipsis: call.Ellipsis}
	lit := &ast.FuncLit{Type: &ast.FuncType{Params: &ast.FieldList{}}, Body: &ast.BlockStmt{List: []ast.Stmt{&ast.ExprStmt{X: inner}}}}
	stmts = append(stmts, &ast.ExprStmt{X: r.call("Go", lit)})
	return &ast.BlockStmt{List: stmts}
}

func (r *rewriter) rewriteSelect(n *ast.SelectStmt) ast.Stmt {
	r.stats["select"]++
	var lhs, rhs []ast.Expr
	var chans []ast.Expr
	hasDefault := false
	sw := &ast.SwitchStmt{Body: &ast.BlockStmt{}}
	idx := 0
	for _, cl := range n.Body.List {
		cc := cl.(*ast.CommClause)
		if cc.Comm == nil {
			hasDefault = true
			sw.Body.List = append(sw.Body.List, &ast.CaseClause{List: nil, Body: cc.Body})
			continue
		}
		var recv *ast.UnaryExpr
		var first ast.Stmt
		switch s := cc.Comm.(type) {
		case *ast.SendStmt:
			// case ch <- v:  ->  the channel is evaluated on entry (as Go does), wrapped as a send case for Select; the
			// send itself is the first statement of the chosen case
			tmp := r.newTmp("sc")
			lhs, rhs = append(lhs, tmp), append(rhs, s.Chan)
			chans = append(chans, r.call("SendCase", tmp))
			first = &ast.ExprStmt{X: r.call("SendNow", tmp, s.Value)}
		case *ast.ExprStmt:
			if ce, ok := s.X.(*ast.CallExpr); ok && isMcrtCall(ce, "Send") && len(ce.Args) == 2 {
				// the send statement was already rewritten to mcrt.Send(ch, v)
				tmp := r.newTmp("sc")
				lhs, rhs = append(lhs, tmp), append(rhs, ce.Args[0])
				chans = append(chans, r.call("SendCase", tmp))
				first = &ast.ExprStmt{X: r.call("SendNow", tmp, ce.Args[1])}
				break
			}
			recv = commRecvOf(s)
			if recv == nil {
				r.errorf(s, "unsupported comm clause")
				return n
			}
			tmp := r.newTmp("sc")
			lhs, rhs = append(lhs, tmp), append(rhs, recv.X)
			chans = append(chans, tmp)
			first = &ast.ExprStmt{X: r.call("RecvNow", tmp)}
		case *ast.AssignStmt:
			recv = commRecvOf(s)
			if recv == nil {
				r.errorf(s, "unsupported comm clause")
				return n
			}
			tmp := r.newTmp("sc")
			lhs, rhs = append(lhs, tmp), append(rhs, recv.X)
			chans = append(chans, tmp)
			fn := "RecvNow"
			if len(s.Lhs) == 2 {
				fn = "RecvNow2"
			}
			first = &ast.AssignStmt{Lhs: s.Lhs, Tok: s.Tok, Rhs: []ast.Expr{r.call(fn, tmp)}}
		default:
			r.errorf(cc, "unsupported comm clause")
			return n
		}
		body := append([]ast.Stmt{first}, cc.Body...)
		sw.Body.List = append(sw.Body.List, &ast.CaseClause{
			List: []ast.Expr{&ast.BasicLit{Kind: token.INT, Value: fmt.Sprint(idx)}},
			Body: body,
		})
		idx++
	}
	hd := "false"
	if hasDefault {
		hd = "true"
	} else {
		// a select without default is a terminating statement if all its cases are; keep that property
		sw.Body.List = append(sw.Body.List, &ast.CaseClause{List: nil, Body: []ast.Stmt{
			&ast.ExprStmt{X: &ast.CallExpr{Fun: ast.NewIdent("panic"), Args: []ast.Expr{&ast.BasicLit{Kind: token.STRING, Value: `"mcrt: select without ready case"`}}}},
		}})
	}
	args := append([]ast.Expr{ast.NewIdent(hd)}, chans...)
	sw.Tag = r.call("Select", args...)
	if len(lhs) > 0 {
		sw.Init = &ast.AssignStmt{Lhs: lhs, Tok: token.DEFINE, Rhs: rhs}
	}
	return sw
}

func (r *rewriter) rewriteCall(c *astutil.Cursor, n *ast.CallExpr) {
	if r.rw["sync"] {
		if id, ok := n.Fun.(*ast.Ident); ok && id.Name == "close" && len(n.Args) == 1 {
			if _, isBuiltin := r.info.Uses[id].(*types.Builtin); isBuiltin || r.info.Uses[id] == nil {
				r.stats["close"]++
				n.Fun = r.mcrt("Close")
				return
			}
		}
		switch {
		case r.isPkgFunc(n.Fun, "time", "After"):
			n.Fun = r.mcrt("After")
			r.stats["time.After"]++
		case r.isPkgFunc(n.Fun, "time", "Sleep"):
			n.Fun = r.mcrt("Sleep")
			r.stats["time.Sleep"]++
		case r.isPkgFunc(n.Fun, "context", "WithCancel"):
			n.Fun = r.mcrt("WithCancel")
			r.stats["context.WithCancel"]++
		case r.isPkgFunc(n.Fun, "context", "WithTimeout"):
			n.Fun = r.mcrt("WithTimeout")
			r.stats["context.WithTimeout"]++
		case r.isPkgFunc(n.Fun, "context", "WithDeadline"):
			n.Fun = r.mcrt("WithDeadline")
			r.stats["context.WithDeadline"]++
		case r.isPkgFunc(n.Fun, "time", "NewTimer"):
			n.Fun = r.mcrt("NewTimer")
			r.stats["time.NewTimer"]++
		case r.isPkgFunc(n.Fun, "time", "AfterFunc"):
			n.Fun = r.mcrt("AfterFunc")
			r.stats["time.AfterFunc"]++
		case r.isPkgFunc(n.Fun, "time", "Tick"), r.isPkgFunc(n.Fun, "time", "NewTicker"):
			r.errorf(n, "real-time primitive %s is not modelled by the scheduler shim", exprString(n.Fun))
		}
	}
	if r.rw["maporder"] {
		if s, ok := n.Fun.(*ast.SelectorExpr); ok && s.Sel.Name == "MapKeys" && len(n.Args) == 0 {
			if t := r.typeOf(s.X); t != nil && t.String() == "reflect.Value" {
				r.stats["mapkeys"]++
				c.Replace(r.call("MapKeys", s.X))
			}
		}
		if s, ok := n.Fun.(*ast.SelectorExpr); ok && s.Sel.Name == "MapRange" && len(n.Args) == 0 {
			if t := r.typeOf(s.X); t != nil && t.String() == "reflect.Value" {
				r.stats["maprange"]++
				c.Replace(r.call("MapRange", s.X))
			}
		}
	}
}

func exprString(e ast.Expr) string {
	var b bytes.Buffer
	_ = format.Node(&b, token.NewFileSet(), e)
	return b.String()
}

func (r *rewriter) rewriteRange(c *astutil.Cursor, n *ast.RangeStmt) {
	t := r.typeOf(n.X)
	if t == nil {
		return
	}
	switch u := t.Underlying().(type) {
	case *types.Chan:
		if !r.rw["sync"] {
			return
		}
		// for x := range ch  ->  for { x, ok := mcrt.Recv2(ch); if !ok { break }; body }
		r.stats["range-chan"]++
		ok := r.newTmp("ok")
		var key ast.Expr = ast.NewIdent("_")
		tok := token.DEFINE
		if n.Key != nil {
			key = n.Key
			tok = n.Tok
		}
		var recvStmt ast.Stmt
		if tok == token.DEFINE {
			recvStmt = &ast.AssignStmt{Lhs: []ast.Expr{key, ok}, Tok: token.DEFINE, Rhs: []ast.Expr{r.call("Recv2", n.X)}}
		} else {
			recvStmt = &ast.BlockStmt{List: []ast.Stmt{
				&ast.DeclStmt{Decl: &ast.GenDecl{Tok: token.VAR, Specs: []ast.Spec{&ast.ValueSpec{Names: []*ast.Ident{ok}, Type: ast.NewIdent("bool")}}}},
			}}
			r.errorf(n, "range over channel with assignment form is not supported")
		}
		body := append([]ast.Stmt{recvStmt,
			&ast.IfStmt{Cond: &ast.UnaryExpr{Op: token.NOT, X: ok}, Body: &ast.BlockStmt{List: []ast.Stmt{&ast.BranchStmt{Tok: token.BREAK}}}},
		}, n.Body.List...)
		c.Replace(&ast.ForStmt{Body: &ast.BlockStmt{List: body}})
		_ = u
	case *types.Map:
		if !r.rw["maporder"] {
			return
		}
		r.stats["range-map"]++
		ent := r.newTmp("me")
		isBlank := func(e ast.Expr) bool {
			if e == nil {
				return true
			}
			id, ok := e.(*ast.Ident)
			return ok && id.Name == "_"
		}
		var pre []ast.Stmt
		if !isBlank(n.Key) || !isBlank(n.Value) {
			var lhs, rhs []ast.Expr
			if !isBlank(n.Key) {
				lhs = append(lhs, n.Key)
				rhs = append(rhs, &ast.SelectorExpr{X: ent, Sel: ast.NewIdent("K")})
			}
			if !isBlank(n.Value) {
				lhs = append(lhs, n.Value)
				rhs = append(rhs, &ast.SelectorExpr{X: ent, Sel: ast.NewIdent("V")})
			}
			pre = append(pre, &ast.AssignStmt{Lhs: lhs, Tok: n.Tok, Rhs: rhs})
		}
		n.Body.List = append(pre, n.Body.List...)
		if len(pre) == 0 {
			n.Key, n.Value = nil, nil
			n.Tok = token.ILLEGAL
		} else {
			n.Key, n.Value = ast.NewIdent("_"), ent
			n.Tok = token.DEFINE
		}
		n.X = r.call("MapEntries", n.X)
	}
}

func addImport(f *ast.File, name, path string) {
	for _, imp := range f.Imports {
		if imp.Path.Value == fmt.Sprintf("%q", path) && imp.Name != nil && imp.Name.Name == name {
			return
		}
	}
	spec := &ast.ImportSpec{Name: ast.NewIdent(name), Path: &ast.BasicLit{Kind: token.STRING, Value: fmt.Sprintf("%q", path)}}
	f.Imports = append(f.Imports, spec)
	for _, d := range f.Decls {
		if gd, ok := d.(*ast.GenDecl); ok && gd.Tok == token.IMPORT {
			gd.Specs = append(gd.Specs, spec)
			if !gd.Lparen.IsValid() {
				gd.Lparen = gd.TokPos
				gd.Rparen = gd.TokPos
			}
			return
		}
	}
	f.Decls = append([]ast.Decl{&ast.GenDecl{Tok: token.IMPORT, Specs: []ast.Spec{spec}}}, f.Decls...)
}

var _ = sort.Strings

// ---- access rewrite ---------------------------------------------------------------------------------

func originVar(o types.Object) types.Object {
	if v, ok := o.(*types.Var); ok {
		return v.Origin()
	}
	return o
}

// computeWritten returns the struct fields and package-level variables that are assigned, incremented,
// indexed on the left of an assignment or have their address taken anywhere in the package (composite
// literals do not count: they build fresh values).
func computeWritten(files []*ast.File, info *types.Info) map[types.Object]bool {
	w := map[types.Object]bool{}
	captured := computeCaptured(files, info)
	var mark func(e ast.Expr)
	mark = func(e ast.Expr) {
		switch x := e.(type) {
		case *ast.ParenExpr:
			mark(x.X)
		case *ast.SelectorExpr:
			if sel, ok := info.Selections[x]; ok {
				if sel.Kind() == types.FieldVal {
					w[originVar(sel.Obj())] = true
				}
				return
			}
			if v, ok := info.Uses[x.Sel].(*types.Var); ok && !v.IsField() {
				w[v] = true
			}
		case *ast.Ident:
			if v, ok := info.Uses[x].(*types.Var); ok && !v.IsField() && v.Pkg() != nil && (v.Parent() == v.Pkg().Scope() || captured[v]) {
				w[v] = true
			}
		case *ast.IndexExpr:
			mark(x.X)
		case *ast.StarExpr:
			// *p = v: the pointee is unknown statically; fields reached through selectors are what we track
		}
	}
	for _, f := range files {
		ast.Inspect(f, func(n ast.Node) bool {
			switch x := n.(type) {
			case *ast.AssignStmt:
				if x.Tok != token.DEFINE {
					for _, l := range x.Lhs {
						mark(l)
					}
				}
			case *ast.IncDecStmt:
				mark(x.X)
			case *ast.UnaryExpr:
				if x.Op == token.AND {
					mark(x.X)
				}
			case *ast.RangeStmt:
				if x.Tok == token.ASSIGN {
					if x.Key != nil {
						mark(x.Key)
					}
					if x.Value != nil {
						mark(x.Value)
					}
				}
			}
			return true
		})
	}
	return w
}

// computeCaptured returns the local variables (parameters and named results included) that are used inside a
// function literal which does not contain their declaration: the only locals two goroutines can share without
// going through a field, a package variable, a map or a slice. Those that are also written after their
// declaration are tracked by the access rewrite like package variables.
func computeCaptured(files []*ast.File, info *types.Info) map[*types.Var]bool {
	c := map[*types.Var]bool{}
	for _, f := range files {
		var lits []*ast.FuncLit
		ast.Inspect(f, func(n ast.Node) bool {
			if fl, ok := n.(*ast.FuncLit); ok {
				lits = append(lits, fl)
			}
			return true
		})
		for _, fl := range lits {
			ast.Inspect(fl.Body, func(n ast.Node) bool {
				id, ok := n.(*ast.Ident)
				if !ok {
					return true
				}
				v, ok := info.Uses[id].(*types.Var)
				if !ok || v.IsField() || v.Pkg() == nil || v.Parent() == v.Pkg().Scope() || v.Parent() == nil {
					return true
				}
				if v.Pos() < fl.Pos() || v.Pos() >= fl.End() {
					c[v] = true
				}
				return true
			})
		}
	}
	return c
}

func isSyncLike(t types.Type) bool {
	s := t.String()
	return strings.HasPrefix(s, "sync.") || strings.Contains(s, "/mcrt.") || strings.HasPrefix(s, "chan ") || strings.HasPrefix(s, "<-chan") ||
		strings.HasPrefix(s, "chan<-") || strings.HasPrefix(s, "*sync.") || strings.HasPrefix(s, "context.")
}

// rewriteAccess wraps reads and writes of written fields / package variables and of map objects in event calls.
func (r *rewriter) rewriteAccess() {
	lhs := map[ast.Expr]bool{}  // expressions that are assigned to
	mapW := map[ast.Expr]bool{} // map operands that are written through
	noTouch := map[ast.Expr]bool{}
	strip := func(e ast.Expr) ast.Expr {
		for {
			p, ok := e.(*ast.ParenExpr)
			if !ok {
				return e
			}
			e = p.X
		}
	}
	idxWrite := map[*ast.IndexExpr]bool{}
	markL := func(e ast.Expr) {
		e = strip(e)
		if ix, ok := e.(*ast.IndexExpr); ok {
			if t := r.typeOf(ix.X); t != nil {
				if _, isMap := t.Underlying().(*types.Map); isMap {
					mapW[strip(ix.X)] = true
					idxWrite[ix] = true
					return
				}
			}
			return
		}
		lhs[e] = true
	}
	isMapT := func(e ast.Expr) bool {
		t := r.typeOf(e)
		if t == nil {
			return false
		}
		_, ok := t.Underlying().(*types.Map)
		return ok
	}
	isSliceT := func(e ast.Expr) bool {
		t := r.typeOf(e)
		if t == nil {
			return false
		}
		_, ok := t.Underlying().(*types.Slice)
		return ok
	}
	// slices: the backing array is the shared object (a slice returned by a method may alias a cached field)
	idxSlice := map[*ast.IndexExpr]bool{}
	idxSliceW := map[*ast.IndexExpr]bool{}
	rangeSlice := map[*ast.RangeStmt]bool{}
	idxMap := map[*ast.IndexExpr]bool{}
	rangeMap := map[*ast.RangeStmt]bool{}
	callMap := map[*ast.CallExpr]string{}
	ast.Inspect(r.file, func(n ast.Node) bool {
		switch x := n.(type) {
		case *ast.IndexExpr:
			if isMapT(x.X) {
				idxMap[x] = true
			} else if isSliceT(x.X) {
				idxSlice[x] = true
			}
		case *ast.RangeStmt:
			if isMapT(x.X) {
				rangeMap[x] = true
			} else if isSliceT(x.X) {
				rangeSlice[x] = true
			}
		case *ast.AssignStmt:
			if x.Tok != token.DEFINE {
				for _, l := range x.Lhs {
					if ix, ok := strip(l).(*ast.IndexExpr); ok && isSliceT(ix.X) {
						idxSliceW[ix] = true
					}
				}
			}
		case *ast.IncDecStmt:
			if ix, ok := strip(x.X).(*ast.IndexExpr); ok && isSliceT(ix.X) {
				idxSliceW[ix] = true
			}
		}
		return true
	})
	// An assignment whose right-hand side calls or receives: Go evaluates the calls on BOTH sides in lexical order, so
	// the write event wrapped around the left-hand side would be emitted before the right-hand side runs - earlier than
	// the write it stands for (a store after an unlock inside the callee would look ordered; a store after a receive
	// would look unordered). Such statements are split: temporaries take the right-hand side, then the store follows.
	hasCall := func(e ast.Expr) bool {
		found := false
		ast.Inspect(e, func(n ast.Node) bool {
			switch u := n.(type) {
			case *ast.CallExpr:
				found = true
			case *ast.UnaryExpr:
				if u.Op == token.ARROW {
					found = true
				}
			case *ast.FuncLit:
				return false
			}
			return !found
		})
		return found
	}
	needSplit := map[*ast.AssignStmt]bool{}
	ast.Inspect(r.file, func(n ast.Node) bool {
		switch x := n.(type) {
		case *ast.AssignStmt:
			if x.Tok != token.DEFINE {
				rc, lc := false, false
				for _, e := range x.Rhs {
					rc = rc || hasCall(e)
				}
				for _, e := range x.Lhs {
					lc = lc || hasCall(e)
				}
				if rc && !lc {
					needSplit[x] = true
				}
			}
			for _, l := range x.Lhs {
				if x.Tok == token.DEFINE {
					noTouch[strip(l)] = true
				} else {
					markL(l)
				}
			}
		case *ast.IncDecStmt:
			markL(x.X)
		case *ast.RangeStmt:
			if x.Tok == token.ASSIGN {
				for _, l := range []ast.Expr{x.Key, x.Value} {
					if l != nil {
						markL(l)
					}
				}
			}
		case *ast.UnaryExpr:
			if x.Op == token.AND {
				lhs[strip(x.X)] = true
			}
		case *ast.CallExpr:
			if id, ok := x.Fun.(*ast.Ident); ok && len(x.Args) >= 1 {
				if _, builtin := r.info.Uses[id].(*types.Builtin); builtin && isMapT(x.Args[0]) {
					if id.Name == "delete" {
						mapW[strip(x.Args[0])] = true
						callMap[x] = "delete"
					} else if id.Name == "len" {
						callMap[x] = "len"
					}
				}
				if _, builtin := r.info.Uses[id].(*types.Builtin); builtin {
					if id.Name == "append" && isSliceT(x.Args[0]) {
						callMap[x] = "append"
					} else if id.Name == "copy" && len(x.Args) == 2 && isSliceT(x.Args[0]) {
						callMap[x] = "copy"
					}
				}
			}
			if len(x.Args) >= 1 && isSliceT(x.Args[0]) {
				for _, f := range [][2]string{{"sort", "Slice"}, {"sort", "SliceStable"}, {"sort", "Ints"}, {"sort", "Strings"}, {"sort", "Float64s"},
					{"slices", "Sort"}, {"slices", "SortFunc"}, {"slices", "SortStableFunc"}, {"slices", "Reverse"}} {
					if r.isPkgFunc(x.Fun, f[0], f[1]) {
						callMap[x] = "sortlike"
					}
				}
			}
		case *ast.ValueSpec:
			for _, nm := range x.Names {
				noTouch[nm] = true
			}
		case *ast.KeyValueExpr:
			if id, ok := x.Key.(*ast.Ident); ok {
				noTouch[id] = true
			}
		}
		return true
	})
	wrap := func(fn string, e ast.Expr) ast.Expr {
		return &ast.ParenExpr{X: &ast.StarExpr{X: r.call(fn, &ast.UnaryExpr{Op: token.AND, X: e})}}
	}
	writesTracked := func(e ast.Expr) bool {
		found := false
		ast.Inspect(e, func(n ast.Node) bool {
			if ce, ok := n.(*ast.CallExpr); ok && (isMcrtCall(ce, "W") || isMcrtCall(ce, "WMap") || isMcrtCall(ce, "WSlice")) {
				found = true
			}
			return !found
		})
		return found
	}
	post := func(c *astutil.Cursor) bool {
		switch n := c.Node().(type) {
		case *ast.AssignStmt:
			if !needSplit[n] || c.Index() < 0 {
				return true
			}
			tracked := false
			for _, l := range n.Lhs {
				tracked = tracked || writesTracked(l)
			}
			if !tracked {
				return true
			}
			tmps := make([]ast.Expr, len(n.Lhs))
			uses := make([]ast.Expr, len(n.Lhs))
			if n.Tok != token.ASSIGN {
				// x op= f(): one operand on each side
				tmps, uses = tmps[:1], uses[:1]
			}
			for i := range tmps {
				id := r.newTmp("rhs")
				tmps[i], uses[i] = id, ast.NewIdent(id.Name)
			}
			c.InsertBefore(&ast.AssignStmt{Lhs: tmps, Tok: token.DEFINE, Rhs: n.Rhs})
			n.Rhs = uses
			r.stats["access-store-after-rhs"]++
		case *ast.IndexExpr:
			if idxMap[n] {
				r.stats["access-map"]++
				if idxWrite[n] {
					n.X = r.call("WMap", n.X)
				} else {
					n.X = r.call("RMap", n.X)
				}
			} else if idxSlice[n] {
				r.stats["access-slice"]++
				if idxSliceW[n] {
					n.X = r.call("WSlice", n.X)
				} else {
					n.X = r.call("RSlice", n.X)
				}
			}
		case *ast.RangeStmt:
			if rangeMap[n] {
				r.stats["access-map"]++
				n.X = r.call("RMap", n.X)
			} else if rangeSlice[n] {
				r.stats["access-slice"]++
				n.X = r.call("RSlice", n.X)
			}
		case *ast.CallExpr:
			switch callMap[n] {
			case "len":
				n.Args[0] = r.call("RMap", n.Args[0])
			case "delete":
				n.Args[0] = r.call("WMap", n.Args[0])
			case "append":
				if !n.Ellipsis.IsValid() || len(n.Args) == 2 {
					r.stats["access-slice"]++
					n.Args[0] = r.call("AppendW", n.Args[0])
				}
			case "copy":
				r.stats["access-slice"]++
				n.Args[0] = r.call("WSlice", n.Args[0])
			case "sortlike":
				r.stats["access-slice"]++
				n.Args[0] = r.call("WSlice", n.Args[0])
			}
		case *ast.SelectorExpr:
			if noTouch[n] {
				return true
			}
			tv, ok := r.info.Types[n]
			if !ok || !tv.Addressable() || isSyncLike(tv.Type) {
				return true
			}
			var obj types.Object
			if sel, ok := r.info.Selections[n]; ok {
				if sel.Kind() != types.FieldVal {
					return true
				}
				obj = originVar(sel.Obj())
			} else if v, ok := r.info.Uses[n.Sel].(*types.Var); ok && !v.IsField() {
				obj = v
			}
			if obj == nil || !r.written[obj] {
				return true
			}
			if _, isSel := c.Parent().(*ast.SelectorExpr); isSel && c.Name() == "Sel" {
				return true
			}
			r.stats["access-field"]++
			if lhs[n] {
				c.Replace(wrap("W", n))
			} else {
				c.Replace(wrap("R", n))
			}
		case *ast.Ident:
			if noTouch[n] {
				return true
			}
			v, ok := r.info.Uses[n].(*types.Var)
			if !ok || v.IsField() || v.Pkg() == nil || !r.written[v] {
				return true
			}
			if v.Parent() != v.Pkg().Scope() {
				r.stats["access-captured-local"]++
			}
			if p, isSel := c.Parent().(*ast.SelectorExpr); isSel && p.Sel == n {
				return true
			}
			if tv, ok := r.info.Types[n]; ok && isSyncLike(tv.Type) {
				return true
			}
			r.stats["access-var"]++
			if lhs[n] {
				c.Replace(wrap("W", n))
			} else {
				c.Replace(wrap("R", n))
			}
		}
		return true
	}
	astutil.Apply(r.file, nil, post)
}
