// Package mcrt is the runtime shim of the /verif model checker.
//
// It is injected into the module under test as a *virtual* package
// (go build -overlay) and is imported by source files that the instrumenter
// (engine/vinstr) rewrote: "sync" becomes this package, `go f()` becomes
// mcrt.Go, channel operations become mcrt.Send/Recv/Close/Select, time.After
// becomes mcrt.After, map iteration goes through mcrt.MapOrder.
//
// Execution model: every goroutine of the code under test is a Thread;
// exactly one Thread runs at any time; a Thread gives up control only inside
// this package, immediately before a *visible operation*. Which enabled
// thread runs next is a choice taken from a recorded prefix (replay) or the
// default (continue the running thread, else lowest id). The explorer
// (explore.go) enumerates the choice sequences.
package mcrt

import (
	"fmt"
	"hash/fnv"
	"runtime"
	"runtime/debug"
	"sort"
	"strings"
	gosync "sync"
	"sync/atomic"
	"time"
)

// Choice is one recorded decision: alternative I out of N.
type Choice struct {
	I int `json:"i"`
	N int `json:"n"`
}

// Point kinds.
const (
	KSched   = byte('T') // which thread runs next
	KChoose  = byte('C') // free data / environment choice (costs nothing)
	KDeviate = byte('D') // environment deviation (non-default costs 1)
)

// Point is a decision point met during one execution.
type Point struct {
	Kind           byte
	N              int
	Chosen         int
	RunningEnabled bool   // KSched only: choice 0 is "keep running the current thread"
	Label          string // what was decided (for replay artefacts)
}

// Status of a finished execution.
type Status int

const (
	StComplete Status = iota // every thread finished
	StBlocked                // no thread enabled, some thread not finished (deadlock / leak)
	StPanic                  // a thread panicked (uncaught)
	StHorizon                // step horizon exceeded
	StInfra                  // replay divergence or shim misuse: never a property violation
	StStalled                // the running thread did not reach a scheduling point within StallAfter (busy loop)
)

func (s Status) String() string {
	return [...]string{"complete", "blocked", "panic", "horizon", "infra", "stalled"}[s]
}

type opKind uint8

const (
	opStart opKind = iota
	opLock
	opUnlock
	opRLock
	opRUnlock
	opWgAdd
	opWgWait
	opCondWait
	opCondWake
	opCondSignal
	opSend
	opRecv
	opSelect
	opClose
	opYield
	opRead
	opWrite
	opWriteDone
	opCloseIO
	opSleep
	opJoin
	opCancel
	opExit
)

var opNames = [...]string{"start", "lock", "unlock", "rlock", "runlock", "wg.add", "wg.wait", "cond.wait", "cond.wake",
	"cond.signal", "send", "recv", "select", "close", "yield", "read", "write", "write.done", "close.io", "sleep", "join", "cancel", "exit"}

func (k opKind) String() string { return opNames[k] }

type pendingOp struct {
	kind    opKind
	obj     any
	enabled func() bool
	where   callSite
}

// callSite is a cheaply captured stack (resolved only when it has to be shown).
type callSite struct {
	pcs [10]uintptr
	n   int
}

func (c callSite) String() string {
	if c.n == 0 {
		return ""
	}
	frames := runtime.CallersFrames(c.pcs[:c.n])
	var out []string
	for {
		f, more := frames.Next()
		if f.Function != "" && !strings.Contains(f.Function, "/mcrt.") && !strings.HasPrefix(f.Function, "runtime.") {
			fn := f.Function
			if i := strings.LastIndex(fn, "/"); i >= 0 {
				fn = fn[i+1:]
			}
			out = append(out, fn)
			if len(out) == 3 {
				break
			}
		}
		if !more {
			break
		}
	}
	return strings.Join(out, " < ")
}

// Thread is one goroutine of the program under the scheduler.
type Thread struct {
	ID      int
	Name    string
	wake    chan struct{}
	pending *pendingOp
	done    bool
	started bool
	ops     int
	vc      VC
	s       *Sched
	spawnAt string
}

// BlockedThread describes a thread that never finished.
type BlockedThread struct {
	ID    int
	Name  string
	Op    string
	Obj   string
	Where string
}

func (b BlockedThread) String() string {
	return fmt.Sprintf("T%d(%s) blocked at %s %s %s", b.ID, b.Name, b.Op, b.Obj, b.Where)
}

// Result is what one execution produced.
type Result struct {
	// StallStacks: all goroutine stacks at the moment the execution was given up as stalled
	StallStacks string
	// Unverified: the explorer re-ran this schedule and got another execution (recorded as an infrastructure error)
	Unverified bool
	Choices    []Choice
	Points     []Point
	Status     Status
	PanicValue string
	PanicStack string
	PanicTID   int
	Blocked    []BlockedThread
	MainDone   bool
	TraceHash  uint64
	Steps      int
	Threads    int
	TimerFires int
	Races      []Race
	Notes      []string // shim-level anomalies (interleaved writes, unlock of unlocked mutex ...)
	Infra      string
	Trace      []string // only when tracing
}

// Sched is the state of one execution.
type Sched struct {
	beat     atomic.Int64 // advanced at every step (read by the stall watchdog)
	atomicVC VC           // see AtomicFence
	threads  []*Thread
	running  *Thread
	prefix   []Choice
	pos      int
	points   []Point
	res      *Result
	aborted  bool
	finished chan struct{}
	realWG   gosync.WaitGroup
	timers   []*vtimer
	now      time.Duration
	closed   map[uintptr]any
	objIDs   map[any]int
	hash     uint64
	steps    int
	maxSteps int
	tracing  bool
	mainDone bool
	states   map[uint64]struct{} // distinct scheduling-state signatures (reporting only)
	races    *raceState
	// free-form per-execution storage for harness seams
	Env map[string]any
}

var cur *Sched

// Active reports whether an execution is in progress.
func Active() bool { return cur != nil && !cur.aborted }

func sched() *Sched {
	s := cur
	if s == nil || s.aborted {
		return nil
	}
	return s
}

// RunOpts configures one execution.
type RunOpts struct {
	MaxSteps int
	Trace    bool
	States   map[uint64]struct{}
	Races    bool
}

// StallAfter (0 = never): how long the running thread may go without reaching a scheduling point before the execution
// is given up as stalled. Real time, generous: a step takes microseconds; the only way to spend this long between two
// scheduling points is a loop that touches no synchronisation (or a machine that does not run the process at all).
var StallAfter time.Duration

var poisoned bool

// waitFinished waits for the end of the execution; false = stalled.
func (s *Sched) waitFinished() bool {
	if StallAfter <= 0 {
		<-s.finished
		return true
	}
	last, since := int64(-1), time.Now()
	tick := time.NewTicker(StallAfter / 8)
	defer tick.Stop()
	for {
		select {
		case <-s.finished:
			return true
		case <-tick.C:
			if b := s.beat.Load(); b != last {
				last, since = b, time.Now()
			} else if time.Since(since) > StallAfter {
				return false
			}
		}
	}
}

// Run executes body as thread 0 under the scheduler, replaying prefix and taking
// choice 0 afterwards.
func Run(prefix []Choice, body func(), o RunOpts) *Result {
	if poisoned {
		return &Result{Status: StInfra, Infra: "an earlier execution in this process stalled and is still running"}
	}
	if cur != nil {
		panic("mcrt: nested Run")
	}
	if o.MaxSteps == 0 {
		o.MaxSteps = 200000
	}
	s := &Sched{
		prefix:   prefix,
		res:      &Result{},
		finished: make(chan struct{}),
		closed:   map[uintptr]any{},
		objIDs:   map[any]int{},
		maxSteps: o.MaxSteps,
		tracing:  o.Trace,
		states:   o.States,
		Env:      map[string]any{},
		hash:     14695981039346656037,
	}
	if o.Races {
		s.races = newRaceState()
	}
	cur = s
	t0 := s.newThread("main", nil)
	t0.started = true
	s.running = t0
	s.realWG.Add(1)
	go s.threadMain(t0, func() {
		body()
		s.mainDone = true
	})
	t0.wake <- struct{}{}
	if !s.waitFinished() {
		// The running thread has not reached a scheduling point for StallAfter: it is looping without touching any
		// synchronisation. It cannot be stopped, so this process must not execute anything else.
		buf := make([]byte, 1<<20)
		n := runtime.Stack(buf, true)
		poisoned = true
		cur = nil
		r := s.res
		r.Status = StStalled
		r.StallStacks = string(buf[:n])
		r.Points = s.points
		r.Choices = make([]Choice, len(s.points))
		for i, p := range s.points {
			r.Choices[i] = Choice{p.Chosen, p.N}
		}
		r.Steps = int(s.beat.Load())
		return r
	}
	// Wait for every goroutine of this execution to leave before the next one starts.
	waitCh := make(chan struct{})
	go func() { s.realWG.Wait(); close(waitCh) }()
	select {
	case <-waitCh:
	case <-time.After(120 * time.Second):
		// A goroutine of this execution is blocked outside the shim (or the machine is so overloaded that it was not
		// scheduled for two minutes). It would run on into the next execution and disturb it, so this execution is not
		// trusted and says so; a wait this long has nothing to do with the property under test.
		s.res.Status = StInfra
		s.res.Infra = "straggler goroutines did not exit within 120s (blocked outside the shim)"
	}
	cur = nil
	r := s.res
	r.Points = s.points
	r.Choices = make([]Choice, len(s.points))
	for i, p := range s.points {
		r.Choices[i] = Choice{p.Chosen, p.N}
	}
	r.TraceHash = s.hash
	r.Steps = s.steps
	r.Threads = len(s.threads)
	r.MainDone = s.mainDone
	if s.races != nil {
		r.Races = s.races.found
	}
	if r.Status != StInfra && s.pos < len(s.prefix) {
		r.Status = StInfra
		r.Infra = fmt.Sprintf("replay divergence: execution ended after %d of %d recorded choices", s.pos, len(s.prefix))
	}
	return r
}

func (s *Sched) newThread(name string, parent *Thread) *Thread {
	t := &Thread{ID: len(s.threads), Name: name, wake: make(chan struct{}, 1), s: s}
	t.vc = make(VC, t.ID+1)
	if parent != nil {
		t.vc.join(parent.vc)
	}
	t.vc = t.vc.ensure(t.ID + 1)
	t.vc[t.ID]++
	s.threads = append(s.threads, t)
	return t
}

type abortSignal struct{}

func (s *Sched) threadMain(t *Thread, f func()) {
	defer s.realWG.Done()
	<-t.wake
	if s.aborted {
		return
	}
	defer func() {
		if s.aborted {
			recover() //nolint:errcheck // dying thread: swallow whatever its deferred calls raised
			return
		}
		if r := recover(); r != nil {
			if _, ok := r.(abortSignal); ok {
				return
			}
			s.res.Status = StPanic
			s.res.PanicValue = fmt.Sprint(r)
			s.res.PanicStack = trimStack(string(debug.Stack()))
			s.res.PanicTID = t.ID
			// what the other threads were waiting for when the panic happened (a panic that reports "I waited in vain"
			// is identified by who had not finished)
			for _, o := range s.threads {
				if o == t || o.done {
					continue
				}
				b := BlockedThread{ID: o.ID, Name: o.Name}
				if o.pending != nil {
					b.Op = o.pending.kind.String()
					b.Obj = fmt.Sprintf("#%d", s.objID(o.pending.obj))
					b.Where = o.pending.where.String()
				}
				s.res.Blocked = append(s.res.Blocked, b)
			}
			s.abort()
			return
		}
		// normal exit (or runtime.Goexit by the thread itself)
		t.done = true
		s.step(t, opExit, nil)
		s.exitThread(t)
	}()
	f()
}

func trimStack(st string) string {
	lines := strings.Split(st, "\n")
	var out []string
	for i := 0; i+1 < len(lines); i += 2 {
		fn := lines[i]
		if strings.Contains(fn, "runtime/debug.Stack") || strings.Contains(fn, "mcrt.(*Sched).threadMain") ||
			strings.HasPrefix(fn, "panic(") || strings.HasPrefix(fn, "goroutine ") {
			if strings.HasPrefix(fn, "goroutine ") {
				i--
			}
			continue
		}
		out = append(out, fn+" "+strings.TrimSpace(lines[i+1]))
		if len(out) >= 12 {
			break
		}
	}
	return strings.Join(out, "\n")
}

// abort ends the execution: every parked thread is released and leaves via Goexit.
func (s *Sched) abort() {
	if s.aborted {
		return
	}
	s.aborted = true
	for _, t := range s.threads {
		if !t.done && t != s.running {
			select {
			case t.wake <- struct{}{}:
			default:
			}
		}
	}
	close(s.finished)
}

func (s *Sched) infra(msg string) {
	if s.res.Status != StInfra {
		s.res.Status = StInfra
		s.res.Infra = msg
	}
	s.abort()
	runtime.Goexit()
}

func (s *Sched) objID(o any) int {
	if o == nil {
		return 0
	}
	id, ok := s.objIDs[o]
	if !ok {
		id = len(s.objIDs) + 1
		s.objIDs[o] = id
	}
	return id
}

func (s *Sched) step(t *Thread, k opKind, obj any) {
	s.steps++
	s.beat.Add(1)
	t.ops++
	id := 0
	if obj != nil {
		id = s.objID(obj)
	}
	h := s.hash
	h ^= uint64(t.ID)<<16 | uint64(k)<<8 | uint64(id&0xff)
	h *= 1099511628211
	h ^= uint64(id)
	h *= 1099511628211
	s.hash = h
	if s.tracing {
		s.res.Trace = append(s.res.Trace, fmt.Sprintf("T%d %s #%d", t.ID, k, id))
	}
}

// nextChoice takes the next decision among n alternatives.
func (s *Sched) nextChoice(kind byte, n int, runningEnabled bool, label string) int {
	c := 0
	if s.pos < len(s.prefix) {
		pc := s.prefix[s.pos]
		if pc.N != n || pc.I >= n || pc.I < 0 {
			s.infra(fmt.Sprintf("replay divergence at choice %d (%s): recorded %d/%d, now %d alternatives", s.pos, label, pc.I, pc.N, n))
		}
		c = pc.I
	}
	s.pos++
	s.points = append(s.points, Point{Kind: kind, N: n, Chosen: c, RunningEnabled: runningEnabled, Label: label})
	return c
}

func (s *Sched) enabledThreads(self *Thread) (list []*Thread, runningEnabled bool) {
	if self != nil && !self.done && self.pending != nil && self.pending.enabled() {
		list = append(list, self)
		runningEnabled = true
	}
	for _, t := range s.threads {
		if t == self || t.done || t.pending == nil {
			continue
		}
		if t.pending.enabled() {
			list = append(list, t)
		}
	}
	return
}

// pick chooses the thread that performs the next visible operation; nil ends the execution.
func (s *Sched) pick(self *Thread) *Thread {
	for {
		list, re := s.enabledThreads(self)
		if len(list) == 0 {
			alive := false
			for _, t := range s.threads {
				if !t.done {
					alive = true
					break
				}
			}
			// a timer nobody can observe any more is not an event
			if alive && s.fireTimer() {
				continue
			}
			return nil
		}
		if s.states != nil {
			s.states[s.stateSig()] = struct{}{}
		}
		if len(list) == 1 {
			return list[0]
		}
		var lb strings.Builder
		if s.tracing {
			for _, t := range list {
				fmt.Fprintf(&lb, "T%d:%s ", t.ID, t.pending.kind)
			}
		}
		return list[s.nextChoice(KSched, len(list), re, lb.String())]
	}
}

// stateSig is an abstraction of the scheduling state, used only to report how many distinct
// states the exploration visited (never to prune).
func (s *Sched) stateSig() uint64 {
	h := fnv.New64a()
	var b [8]byte
	put := func(v uint64) {
		for i := 0; i < 8; i++ {
			b[i] = byte(v >> (8 * i))
		}
		h.Write(b[:])
	}
	for _, t := range s.threads {
		if t.done {
			put(uint64(t.ID)<<32 | 0xffff)
			continue
		}
		k, id := opKind(0), 0
		if t.pending != nil {
			k, id = t.pending.kind, s.objID(t.pending.obj)
		}
		put(uint64(t.ID)<<48 | uint64(k)<<40 | uint64(id)<<20 | uint64(t.ops))
	}
	return h.Sum64()
}

// yield announces the running thread's next visible operation and blocks until the scheduler
// lets it perform that operation.
func (s *Sched) yield(op *pendingOp) {
	t := s.running
	if s.steps >= s.maxSteps {
		s.res.Status = StHorizon
		s.abort()
		runtime.Goexit()
	}
	t.pending = op
	if op.obj != nil {
		s.objID(op.obj)
	}
	next := s.pick(t)
	if next == nil {
		s.endBlocked()
		runtime.Goexit()
	}
	if next != t {
		s.running = next
		next.wake <- struct{}{}
		<-t.wake
		if s.aborted {
			runtime.Goexit()
		}
	}
	t.pending = nil
	s.step(t, op.kind, op.obj)
}

func (s *Sched) exitThread(t *Thread) {
	next := s.pick(nil)
	if next == nil {
		s.endBlocked()
		return
	}
	s.running = next
	next.wake <- struct{}{}
}

func (s *Sched) endBlocked() {
	all := true
	for _, t := range s.threads {
		if !t.done {
			all = false
			b := BlockedThread{ID: t.ID, Name: t.Name}
			if t.pending != nil {
				b.Op = t.pending.kind.String()
				b.Obj = fmt.Sprintf("#%d", s.objID(t.pending.obj))
				b.Where = t.pending.where.String()
			}
			s.res.Blocked = append(s.res.Blocked, b)
		}
	}
	if all {
		s.res.Status = StComplete
	} else {
		s.res.Status = StBlocked
		sort.Slice(s.res.Blocked, func(i, j int) bool { return s.res.Blocked[i].ID < s.res.Blocked[j].ID })
	}
	s.abort()
}

// ---------------------------------------------------------------------------------------------
// public thread API

// Go starts f as a new thread. Outside an execution it is a plain goroutine.
func Go(f func()) { GoNamed("", f) }

// GoNamed starts a named thread.
func GoNamed(name string, f func()) {
	s := sched()
	if s == nil {
		if cur != nil && cur.aborted {
			return
		}
		go f()
		return
	}
	parent := s.running
	s.yield(&pendingOp{kind: opYield, enabled: always})
	if name == "" {
		name = callerName(3)
	}
	t := s.newThread(name, parent)
	parent.vc[parent.ID]++
	t.pending = &pendingOp{kind: opStart, enabled: always}
	s.realWG.Add(1)
	go s.threadMain(t, func() {
		t.pending = nil
		s.step(t, opStart, nil)
		f()
	})
}

func callerName(skip int) string {
	pc, _, line, ok := runtime.Caller(skip)
	if !ok {
		return "?"
	}
	fn := runtime.FuncForPC(pc).Name()
	if i := strings.LastIndex(fn, "/"); i >= 0 {
		fn = fn[i+1:]
	}
	return fmt.Sprintf("%s:%d", fn, line)
}

func where() callSite {
	var c callSite
	c.n = runtime.Callers(3, c.pcs[:])
	return c
}

func always() bool { return true }

// Yield is a plain scheduling point.
func Yield() {
	if s := sched(); s != nil {
		s.yield(&pendingOp{kind: opYield, enabled: always})
	}
}

// Choose is a free (cost 0) choice among n alternatives.
func Choose(n int, label string) int {
	s := sched()
	if s == nil || n <= 1 {
		return 0
	}
	return s.nextChoice(KChoose, n, false, label)
}

// Deviate is an environment choice whose alternative 0 is the default; any other costs one deviation.
func Deviate(n int, label string) int {
	s := sched()
	if s == nil || n <= 1 {
		return 0
	}
	return s.nextChoice(KDeviate, n, false, label)
}

// Note records a shim-level anomaly for the harness to judge.
func Note(format string, a ...any) {
	if s := cur; s != nil {
		s.res.Notes = append(s.res.Notes, fmt.Sprintf(format, a...))
	}
}

// CurrentThread returns the id of the running thread (-1 outside an execution).
func CurrentThread() int {
	if s := sched(); s != nil {
		return s.running.ID
	}
	return -1
}

// WaitThreadsQuiesce parks the caller until no other thread is enabled (every other thread finished or
// blocked). It is how a driver says "now everybody else must be gone".
func WaitQuiescent() {
	s := sched()
	if s == nil {
		return
	}
	self := s.running
	s.yield(&pendingOp{kind: opJoin, enabled: func() bool {
		for _, t := range s.threads {
			if t == self || t.done || t.pending == nil {
				continue
			}
			if t.pending.kind == opJoin {
				continue
			}
			if t.pending.enabled() {
				return false
			}
		}
		return true
	}})
}

// LiveThreads lists threads other than the caller that have not finished.
func LiveThreads() []BlockedThread {
	s := sched()
	if s == nil {
		return nil
	}
	var out []BlockedThread
	for _, t := range s.threads {
		if t == s.running || t.done {
			continue
		}
		b := BlockedThread{ID: t.ID, Name: t.Name}
		if t.pending != nil {
			b.Op = t.pending.kind.String()
			b.Obj = fmt.Sprintf("#%d", s.objID(t.pending.obj))
			b.Where = t.pending.where.String()
		}
		out = append(out, b)
	}
	return out
}

// ---------------------------------------------------------------------------------------------
// virtual time

type vtimer struct {
	at    time.Duration
	ch    chan time.Time
	fired bool
	seq   int
	wakeT *Thread // Sleep
}

// After is the virtual time.After: the timer fires only when no thread is enabled.
func After(d time.Duration) <-chan time.Time {
	s := sched()
	if s == nil {
		if cur != nil { // dying thread
			return make(chan time.Time)
		}
		return time.After(d)
	}
	tm := &vtimer{at: s.now + d, ch: make(chan time.Time, 1), seq: len(s.timers)}
	s.timers = append(s.timers, tm)
	return tm.ch
}

// Timer is the virtual time.Timer (time.NewTimer / time.AfterFunc are rewritten to the constructors below, and the
// type name time.Timer to this type).
type Timer struct {
	C      <-chan time.Time
	ch     chan time.Time
	tm     *vtimer
	stop   chan struct{} // AfterFunc: closed by Stop to release the helper thread
	f      func()
	real   *time.Timer // outside an execution
	closed bool
}

// NewTimer is the virtual time.NewTimer.
func NewTimer(d time.Duration) *Timer {
	s := sched()
	if s == nil {
		rt := time.NewTimer(d)
		return &Timer{C: rt.C, real: rt}
	}
	ch := make(chan time.Time, 1)
	tm := &vtimer{at: s.now + d, ch: ch, seq: len(s.timers)}
	s.timers = append(s.timers, tm)
	return &Timer{C: ch, ch: ch, tm: tm}
}

// AfterFunc is the virtual time.AfterFunc: f runs in a thread of its own when the timer fires.
func AfterFunc(d time.Duration, f func()) *Timer {
	s := sched()
	if s == nil {
		return &Timer{real: time.AfterFunc(d, f)}
	}
	t := NewTimer(d)
	t.f, t.stop = f, make(chan struct{}, 1)
	t.spawn()
	return t
}

func (t *Timer) spawn() {
	ch, stop, f := t.ch, t.stop, t.f
	GoNamed("afterfunc", func() {
		if Select(false, (<-chan time.Time)(ch), (<-chan struct{})(stop)) == 0 {
			RecvNow((<-chan time.Time)(ch))
			f()
		}
	})
}

// Stop prevents the timer from firing; it reports whether the timer was still pending.
func (t *Timer) Stop() bool {
	if t.real != nil {
		return t.real.Stop()
	}
	s := sched()
	if s == nil || t.tm == nil {
		return false
	}
	active := !t.tm.fired
	t.tm.fired = true // a cancelled timer is skipped like a fired one; nothing is sent
	if t.stop != nil && !t.closed {
		t.closed = true
		Close((chan<- struct{})(t.stop))
	}
	return active
}

// Reset re-arms the timer.
func (t *Timer) Reset(d time.Duration) bool {
	if t.real != nil {
		return t.real.Reset(d)
	}
	s := sched()
	if s == nil {
		return false
	}
	active := t.Stop()
	t.tm = &vtimer{at: s.now + d, ch: t.ch, seq: len(s.timers)}
	s.timers = append(s.timers, t.tm)
	if t.f != nil {
		t.stop, t.closed = make(chan struct{}, 1), false
		t.spawn()
	}
	return active
}

// Sleep is the virtual time.Sleep.
func Sleep(d time.Duration) {
	s := sched()
	if s == nil {
		if cur == nil {
			time.Sleep(d)
		}
		return
	}
	tm := &vtimer{at: s.now + d, seq: len(s.timers)}
	s.timers = append(s.timers, tm)
	s.yield(&pendingOp{kind: opSleep, obj: tm, enabled: func() bool { return tm.fired }})
}

func (s *Sched) fireTimer() bool {
	var best *vtimer
	for _, tm := range s.timers {
		if tm.fired {
			continue
		}
		if best == nil || tm.at < best.at || (tm.at == best.at && tm.seq < best.seq) {
			best = tm
		}
	}
	if best == nil {
		return false
	}
	best.fired = true
	if best.at > s.now {
		s.now = best.at
	}
	if best.ch != nil {
		best.ch <- time.Unix(0, 0).Add(s.now)
	}
	s.res.TimerFires++
	if s.tracing {
		s.res.Trace = append(s.res.Trace, fmt.Sprintf("timer fired at +%s", s.now))
	}
	s.hash = (s.hash ^ 0x7117) * 1099511628211
	return true
}
