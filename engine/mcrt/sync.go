package mcrt

import (
	gosync "sync"
)

// The types below replace package sync in instrumented files (import sync ".../mcrt").
// Outside an execution they fall back to the real primitives.

// Locker mirrors sync.Locker.
type Locker = gosync.Locker

// Pool and Map never block: the real ones do the work. For the race detector every operation is a release and an
// acquire on one global clock (as for sync/atomic): a value published through a sync.Map or handed over through a
// sync.Pool is ordered after the writes that prepared it, so code that synchronises this way is never reported; a race
// that happens to be separated by unrelated Map / Pool operations goes unreported. The operations are NOT scheduling
// points: they are what process-wide caches are made of, and a cache hit must look to the scheduler exactly like the
// miss that filled it, or an execution could not be replayed in the same process (interleavings are explored at the
// locks, channels, atomics and transports around them).
type Map struct{ m gosync.Map }

func (m *Map) Load(key any) (any, bool) { hbFence(); defer hbFence(); return m.m.Load(key) }
func (m *Map) Store(key, value any)     { hbFence(); defer hbFence(); m.m.Store(key, value) }
func (m *Map) LoadOrStore(key, value any) (any, bool) {
	hbFence()
	defer hbFence()
	return m.m.LoadOrStore(key, value)
}
func (m *Map) LoadAndDelete(key any) (any, bool) {
	hbFence()
	defer hbFence()
	return m.m.LoadAndDelete(key)
}
func (m *Map) Delete(key any) { hbFence(); defer hbFence(); m.m.Delete(key) }
func (m *Map) Swap(key, value any) (any, bool) {
	hbFence()
	defer hbFence()
	return m.m.Swap(key, value)
}
func (m *Map) CompareAndSwap(key, old, new any) bool {
	hbFence()
	defer hbFence()
	return m.m.CompareAndSwap(key, old, new)
}
func (m *Map) CompareAndDelete(key, old any) bool {
	hbFence()
	defer hbFence()
	return m.m.CompareAndDelete(key, old)
}
func (m *Map) Range(f func(key, value any) bool) {
	hbFence()
	defer hbFence()
	m.m.Range(func(k, v any) bool { hbFence(); return f(k, v) })
}
func (m *Map) Clear() { hbFence(); defer hbFence(); m.m.Clear() }

// Pool mirrors sync.Pool (the New field included).
type Pool struct {
	New func() any
	p   gosync.Pool
}

func (p *Pool) Get() any {
	hbFence()
	defer hbFence()
	if v := p.p.Get(); v != nil {
		return v
	}
	if p.New != nil {
		return p.New()
	}
	return nil
}

func (p *Pool) Put(x any) { hbFence(); defer hbFence(); p.p.Put(x) }

// Mutex is a scheduler-aware sync.Mutex.
type Mutex struct {
	real   gosync.Mutex
	locked bool
	owner  int
	rel    VC
}

func (m *Mutex) Lock() {
	s := sched()
	if s == nil {
		if cur == nil {
			m.real.Lock()
		}
		return
	}
	s.yield(&pendingOp{kind: opLock, obj: m, enabled: func() bool { return !m.locked }, where: where()})
	m.locked = true
	m.owner = s.running.ID
	s.running.acquire(&m.rel)
}

func (m *Mutex) TryLock() bool {
	s := sched()
	if s == nil {
		if cur == nil {
			return m.real.TryLock()
		}
		return true
	}
	s.yield(&pendingOp{kind: opLock, obj: m, enabled: always, where: where()})
	if m.locked {
		return false
	}
	m.locked = true
	m.owner = s.running.ID
	s.running.acquire(&m.rel)
	return true
}

func (m *Mutex) Unlock() {
	s := sched()
	if s == nil {
		if cur == nil {
			m.real.Unlock()
		}
		return
	}
	s.yield(&pendingOp{kind: opUnlock, obj: m, enabled: always})
	m.unlockNow(s)
}

func (m *Mutex) unlockNow(s *Sched) {
	if !m.locked {
		// the Go runtime makes this a fatal, unrecoverable error
		panic("fatal error: sync: unlock of unlocked mutex")
	}
	m.locked = false
	s.running.release(&m.rel)
}

// RWMutex is a scheduler-aware sync.RWMutex (no writer preference is modelled).
type RWMutex struct {
	real    gosync.RWMutex
	writer  bool
	readers int
	rel     VC
}

func (m *RWMutex) Lock() {
	s := sched()
	if s == nil {
		if cur == nil {
			m.real.Lock()
		}
		return
	}
	s.yield(&pendingOp{kind: opLock, obj: m, enabled: func() bool { return !m.writer && m.readers == 0 }, where: where()})
	m.writer = true
	s.running.acquire(&m.rel)
}

func (m *RWMutex) Unlock() {
	s := sched()
	if s == nil {
		if cur == nil {
			m.real.Unlock()
		}
		return
	}
	s.yield(&pendingOp{kind: opUnlock, obj: m, enabled: always})
	if !m.writer {
		panic("fatal error: sync: Unlock of unlocked RWMutex")
	}
	m.writer = false
	s.running.release(&m.rel)
}

func (m *RWMutex) RLock() {
	s := sched()
	if s == nil {
		if cur == nil {
			m.real.RLock()
		}
		return
	}
	s.yield(&pendingOp{kind: opRLock, obj: m, enabled: func() bool { return !m.writer }, where: where()})
	m.readers++
	s.running.acquire(&m.rel)
}

func (m *RWMutex) RUnlock() {
	s := sched()
	if s == nil {
		if cur == nil {
			m.real.RUnlock()
		}
		return
	}
	s.yield(&pendingOp{kind: opRUnlock, obj: m, enabled: always})
	if m.readers == 0 {
		panic("fatal error: sync: RUnlock of unlocked RWMutex")
	}
	m.readers--
	s.running.release(&m.rel)
}

func (m *RWMutex) TryLock() bool {
	s := sched()
	if s == nil {
		if cur == nil {
			return m.real.TryLock()
		}
		return true
	}
	s.yield(&pendingOp{kind: opLock, obj: m, enabled: always})
	if m.writer || m.readers > 0 {
		return false
	}
	m.writer = true
	s.running.acquire(&m.rel)
	return true
}

func (m *RWMutex) TryRLock() bool {
	s := sched()
	if s == nil {
		if cur == nil {
			return m.real.TryRLock()
		}
		return true
	}
	s.yield(&pendingOp{kind: opRLock, obj: m, enabled: always})
	if m.writer {
		return false
	}
	m.readers++
	s.running.acquire(&m.rel)
	return true
}

type rlocker RWMutex

func (r *rlocker) Lock()   { (*RWMutex)(r).RLock() }
func (r *rlocker) Unlock() { (*RWMutex)(r).RUnlock() }

func (m *RWMutex) RLocker() Locker { return (*rlocker)(m) }

// WaitGroup is a scheduler-aware sync.WaitGroup.
type WaitGroup struct {
	real gosync.WaitGroup
	n    int
	rel  VC
}

func (w *WaitGroup) Add(delta int) {
	s := sched()
	if s == nil {
		if cur == nil {
			w.real.Add(delta)
		}
		return
	}
	s.yield(&pendingOp{kind: opWgAdd, obj: w, enabled: always})
	w.n += delta
	if w.n < 0 {
		panic("sync: negative WaitGroup counter")
	}
	if delta < 0 {
		s.running.release(&w.rel)
	}
}

func (w *WaitGroup) Done() { w.Add(-1) }

func (w *WaitGroup) Wait() {
	s := sched()
	if s == nil {
		if cur == nil {
			w.real.Wait()
		}
		return
	}
	s.yield(&pendingOp{kind: opWgWait, obj: w, enabled: func() bool { return w.n == 0 }, where: where()})
	s.running.acquire(&w.rel)
}

// Cond is a scheduler-aware sync.Cond: no spurious wake-ups, Signal wakes the longest waiter.
type Cond struct {
	L       Locker
	real    *gosync.Cond
	waiters []*condWaiter
	rel     VC
}

type condWaiter struct {
	signalled bool
}

func NewCond(l Locker) *Cond { return &Cond{L: l} }

func (c *Cond) realCond() *gosync.Cond {
	if c.real == nil {
		c.real = gosync.NewCond(c.L)
	}
	return c.real
}

func (c *Cond) Wait() {
	s := sched()
	if s == nil {
		if cur == nil {
			c.realCond().Wait()
		}
		return
	}
	s.yield(&pendingOp{kind: opCondWait, obj: c, enabled: always})
	w := &condWaiter{}
	c.waiters = append(c.waiters, w)
	if m, ok := c.L.(*Mutex); ok {
		m.unlockNow(s)
	} else {
		c.L.Unlock()
	}
	s.yield(&pendingOp{kind: opCondWake, obj: c, enabled: func() bool { return w.signalled }, where: where()})
	s.running.acquire(&c.rel)
	c.L.Lock()
}

func (c *Cond) Signal() {
	s := sched()
	if s == nil {
		if cur == nil {
			c.realCond().Signal()
		}
		return
	}
	s.yield(&pendingOp{kind: opCondSignal, obj: c, enabled: always})
	s.running.release(&c.rel)
	if len(c.waiters) > 0 {
		c.waiters[0].signalled = true
		c.waiters = c.waiters[1:]
	}
}

func (c *Cond) Broadcast() {
	s := sched()
	if s == nil {
		if cur == nil {
			c.realCond().Broadcast()
		}
		return
	}
	s.yield(&pendingOp{kind: opCondSignal, obj: c, enabled: always})
	s.running.release(&c.rel)
	for _, w := range c.waiters {
		w.signalled = true
	}
	c.waiters = nil
}

// Once is a scheduler-aware sync.Once.
type Once struct {
	real gosync.Once
	done bool
	m    Mutex
}

func (o *Once) Do(f func()) {
	s := sched()
	if s == nil {
		if cur == nil {
			o.real.Do(f)
		}
		return
	}
	o.m.Lock()
	defer o.m.Unlock()
	if !o.done {
		defer func() { o.done = true }()
		f()
	}
}

// OnceValue mirrors sync.OnceValue on the scheduler-aware Once (a panic of f is repeated by every call, as there).
func OnceValue[T any](f func() T) func() T {
	var (
		o      Once
		valid  bool
		p      any
		result T
	)
	g := func() {
		defer func() {
			p = recover()
			if !valid {
				panic(p)
			}
		}()
		result = f()
		f = nil
		valid = true
	}
	return func() T {
		o.Do(g)
		if !valid {
			panic(p)
		}
		return result
	}
}

// OnceValues mirrors sync.OnceValues.
func OnceValues[T1, T2 any](f func() (T1, T2)) func() (T1, T2) {
	var (
		o     Once
		valid bool
		p     any
		r1    T1
		r2    T2
	)
	g := func() {
		defer func() {
			p = recover()
			if !valid {
				panic(p)
			}
		}()
		r1, r2 = f()
		f = nil
		valid = true
	}
	return func() (T1, T2) {
		o.Do(g)
		if !valid {
			panic(p)
		}
		return r1, r2
	}
}

// OnceFunc mirrors sync.OnceFunc.
func OnceFunc(f func()) func() {
	var o Once
	return func() { o.Do(f) }
}
