package mcrt

import (
	"fmt"
	"strings"
	"time"
)

// Explorer enumerates executions of Body by stateless depth-first search over choice sequences,
// bounded by preemptions (MaxPreempt) and environment deviations (MaxDeviate).
type Explorer struct {
	Body       func()
	MaxPreempt int // switches away from a thread that could have continued
	MaxDelay   int // total non-default scheduling choices (preemptive or at blocking points); <0 = unbounded
	MaxDeviate int // non-default environment answers
	MaxSteps   int
	Races      bool
	// Embedded marks a search that is one of very many small ones run by an enumeration harness (see verify).
	Embedded bool
	// Check is called for every completed execution. Returning false stops the subtree search.
	Check func(r *Result) bool
	// Deadline (zero = none): the search stops when reached and Capped is set.
	Deadline time.Time
	MaxExecs int

	Stats  Stats
	stop   bool
	warmed bool
}

// Stats describe what a search covered.
type Stats struct {
	Executions  int
	Transitions int
	States      map[uint64]struct{}
	MaxPoints   int
	Capped      bool
	CapReason   string
	Infra       []string
	Determinism int // executions re-run and compared
	ColdReruns  int // executions replaced by their re-run because the first run met a cold process (see verify)
}

// Cost of a choice sequence: preemptions, non-default choices at blocking points, environment deviations.
func Cost(points []Point) (pre, np, dev int) {
	for _, p := range points {
		if p.Chosen == 0 {
			continue
		}
		switch p.Kind {
		case KSched:
			if p.RunningEnabled {
				pre++
			} else {
				np++
			}
		case KDeviate:
			dev++
		}
	}
	return
}

func (e *Explorer) run(prefix []Choice) *Result {
	if e.Stats.States == nil {
		e.Stats.States = map[uint64]struct{}{}
	}
	r := Run(prefix, e.Body, RunOpts{MaxSteps: e.MaxSteps, States: e.Stats.States, Races: e.Races})
	e.Stats.Executions++
	e.Stats.Transitions += r.Steps
	if len(r.Points) > e.Stats.MaxPoints {
		e.Stats.MaxPoints = len(r.Points)
	}
	return r
}

// warm runs the default execution once and throws it away: whatever the code under test builds lazily and keeps for
// the life of the process (package-level tables and caches) exists afterwards, so that the first execution that
// counts meets the same scheduling points as its re-runs.
func (e *Explorer) warm() *Result {
	if e.Embedded || e.warmed {
		return nil
	}
	e.warmed = true
	verifying = true
	r := Run(nil, e.Body, RunOpts{MaxSteps: e.MaxSteps, Races: e.Races})
	verifying = false
	return r
}

// Replay runs one choice sequence (with tracing) without searching.
func (e *Explorer) Replay(prefix []Choice) *Result {
	return Run(prefix, e.Body, RunOpts{MaxSteps: e.MaxSteps, Trace: true, Races: e.Races})
}

// Root runs the default execution and returns it together with the prefixes of all subtrees that hang
// off it within the bounds (the work items for sharding).
func (e *Explorer) Root() (*Result, [][]Choice) {
	if w := e.warm(); w != nil && w.Status == StStalled {
		return w, nil // the default execution never gets anywhere: that is the result
	}
	r := e.run(nil)
	r = e.verify(nil, r)
	if r.Unverified {
		return r, nil
	}
	if e.Check != nil && !e.Check(r) {
		e.stop = true
	}
	return r, e.children(nil, r)
}

func (e *Explorer) children(prefix []Choice, r *Result) [][]Choice {
	var out [][]Choice
	if r.Status == StInfra {
		return nil
	}
	for i := len(prefix); i < len(r.Points); i++ {
		p := r.Points[i]
		pre, np, dev := Cost(r.Points[:i])
		for alt := 1; alt < p.N; alt++ {
			cp, cn, cd := pre, np, dev
			switch p.Kind {
			case KSched:
				if p.RunningEnabled {
					cp++
				} else {
					cn++
				}
			case KDeviate:
				cd++
			}
			if cp > e.MaxPreempt || cd > e.MaxDeviate || (e.MaxDelay >= 0 && cp+cn > e.MaxDelay) {
				continue
			}
			np := make([]Choice, i+1)
			copy(np, r.Choices[:i])
			np[i] = Choice{alt, p.N}
			out = append(out, np)
		}
	}
	return out
}

var embeddedVerified int

var verifying bool

// Verifying reports whether the body is being re-run only to check that a schedule determines the execution (a body
// that keeps counters of its own skips them then).
func Verifying() bool { return verifying }

// verify re-runs the first executions of a search to make sure the schedule determines the execution, and returns the
// execution to go on with. If the re-run differs, the process may simply have been cold (something the code under test
// builds once per process did not exist yet during the first run): the subtree root is then executed again from its
// prefix and re-run once more; if those two agree they replace the first run. Otherwise the mismatch is recorded as an
// infrastructure error and the execution is marked Unverified (it is not judged). Never a violation.
func (e *Explorer) verify(prefix []Choice, r *Result) *Result {
	if r.Status == StInfra {
		e.Stats.Infra = append(e.Stats.Infra, r.Infra)
		if strings.Contains(r.Infra, "straggler goroutines") {
			e.stop = true // a goroutine of that execution may still be about: nothing more is executed in this process
			e.Stats.Capped, e.Stats.CapReason = true, "a goroutine of an execution did not leave in time"
		}
		return r
	}
	if r.Status == StStalled {
		return r // nothing can be executed in this process any more
	}
	if e.Stats.Determinism >= 20 {
		return r
	}
	if e.Embedded {
		// many tiny searches in one process (one per evaluated case): the re-runs are budgeted per process, not per search
		if embeddedVerified >= 400 {
			return r
		}
		embeddedVerified++
	}
	e.Stats.Determinism++
	same := func(a, b *Result) bool {
		return a.TraceHash == b.TraceHash && a.Status == b.Status && len(a.Points) == len(b.Points)
	}
	opts := RunOpts{MaxSteps: e.MaxSteps, Races: e.Races}
	verifying = true
	defer func() { verifying = false }()
	r2 := Run(r.Choices, e.Body, opts)
	if same(r, r2) {
		return r
	}
	ra := Run(prefix, e.Body, opts)
	if ra.Status != StInfra && ra.Status != StStalled {
		if rb := Run(ra.Choices, e.Body, opts); same(ra, rb) {
			e.Stats.ColdReruns++
			return ra
		}
	}
	e.Stats.Infra = append(e.Stats.Infra, fmt.Sprintf("non-deterministic replay: hash %x/%x status %s/%s points %d/%d infra=%q",
		r.TraceHash, r2.TraceHash, r.Status, r2.Status, len(r.Points), len(r2.Points), r2.Infra))
	r.Unverified = true
	return r
}

// Confirm re-executes a schedule n times and reports whether status and trace are identical each time.
func (e *Explorer) Confirm(r *Result, n int) bool {
	for i := 0; i < n; i++ {
		r2 := Run(r.Choices, e.Body, RunOpts{MaxSteps: e.MaxSteps, Races: e.Races})
		if r2.TraceHash != r.TraceHash || r2.Status != r.Status {
			e.Stats.Infra = append(e.Stats.Infra, fmt.Sprintf("violation not reproducible: hash %x/%x status %s/%s infra=%q",
				r.TraceHash, r2.TraceHash, r.Status, r2.Status, r2.Infra))
			return false
		}
	}
	return true
}

// Subtree explores everything below prefix (prefix itself included).
func (e *Explorer) Subtree(prefix []Choice) {
	if e.stop {
		return
	}
	if !e.Deadline.IsZero() && time.Now().After(e.Deadline) {
		e.Stats.Capped, e.Stats.CapReason = true, "deadline"
		e.stop = true
		return
	}
	if e.MaxExecs > 0 && e.Stats.Executions >= e.MaxExecs {
		e.Stats.Capped, e.Stats.CapReason = true, "max executions"
		e.stop = true
		return
	}
	r := e.run(prefix)
	r = e.verify(prefix, r)
	if r.Unverified {
		return // recorded as an infrastructure error; an execution that does not replay is not judged
	}
	if e.Check != nil && !e.Check(r) {
		e.stop = true
		return
	}
	if r.Status == StStalled {
		e.stop = true // a goroutine of that execution is still running: nothing more can be executed in this process
		e.Stats.Capped, e.Stats.CapReason = true, "an execution stalled"
		return
	}
	for _, c := range e.children(prefix, r) {
		e.Subtree(c)
		if e.stop {
			return
		}
	}
}

// All explores the whole tree in this process.
func (e *Explorer) All() {
	e.Subtree(nil)
}
