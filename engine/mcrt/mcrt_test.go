package mcrt

import (
	"context"
	"testing"
	"time"
)

// two threads taking two mutexes in opposite order: deadlock needs 1 preemption
func TestDeadlockFound(t *testing.T) {
	deadlocks, execs := 0, 0
	e := &Explorer{MaxPreempt: 1, MaxDelay: -1, Body: func() {
		var a, b Mutex
		var wg WaitGroup
		wg.Add(2)
		Go(func() { a.Lock(); b.Lock(); b.Unlock(); a.Unlock(); wg.Done() })
		Go(func() { b.Lock(); a.Lock(); a.Unlock(); b.Unlock(); wg.Done() })
		wg.Wait()
	}, Check: func(r *Result) bool {
		execs++
		if r.Status == StBlocked {
			deadlocks++
		} else if r.Status != StComplete {
			t.Fatalf("status %s %s %s", r.Status, r.Infra, r.PanicValue)
		}
		return true
	}}
	e.All()
	if deadlocks == 0 || len(e.Stats.Infra) > 0 {
		t.Fatalf("deadlocks=%d execs=%d infra=%v", deadlocks, execs, e.Stats.Infra)
	}
	t.Logf("execs=%d deadlocks=%d states=%d", execs, deadlocks, len(e.Stats.States))
	e0 := &Explorer{MaxPreempt: 0, MaxDelay: -1, Body: e.Body, Check: func(r *Result) bool {
		if r.Status != StComplete {
			t.Fatalf("P=0 should not deadlock: %v", r.Blocked)
		}
		return true
	}}
	e0.All()
}

func TestChannelsCondPanic(t *testing.T) {
	outcomes := map[string]int{}
	e := &Explorer{MaxPreempt: 2, MaxDelay: -1, Races: true, Body: func() {
		ch := make(chan int, 1)
		var mu Mutex
		c := Cond{L: &mu}
		ready := false
		x := 0
		Go(func() {
			Send(ch, 1)
			mu.Lock()
			ready = true
			c.Signal()
			mu.Unlock()
			*W(&x) = 1
		})
		mu.Lock()
		for !ready {
			c.Wait()
		}
		mu.Unlock()
		v := Recv(ch)
		_ = *R(&x)
		if v != 1 {
			panic("bad")
		}
		Close(ch)
	}, Check: func(r *Result) bool {
		outcomes[r.Status.String()]++
		if r.Status != StComplete {
			t.Fatalf("status %s %v %s %s", r.Status, r.Blocked, r.PanicValue, r.Infra)
		}
		if len(r.Races) > 0 {
			outcomes["race"]++
		}
		return true
	}}
	e.All()
	t.Logf("%v execs=%d infra=%v", outcomes, e.Stats.Executions, e.Stats.Infra)
	if outcomes["race"] == 0 {
		t.Fatal("race on x not found")
	}
}

func TestPanicAndTimer(t *testing.T) {
	r := Run(nil, func() {
		Go(func() { panic("boom") })
		select {
		case <-make(chan int):
		default:
		}
		Yield()
		Yield()
	}, RunOpts{})
	if r.Status != StPanic || r.PanicValue != "boom" {
		t.Fatalf("%s %s", r.Status, r.PanicValue)
	}
	r = Run(nil, func() {
		ch := make(chan int, 1)
		switch Select(false, ch, After(5)) {
		case 0:
			panic("no")
		case 1:
		}
	}, RunOpts{})
	if r.Status != StComplete || r.TimerFires != 1 {
		t.Fatalf("%s %d %s", r.Status, r.TimerFires, r.PanicValue)
	}
}

func TestPipe(t *testing.T) {
	e := &Explorer{MaxPreempt: 2, MaxDelay: -1, Body: func() {
		l := NewPipe("p")
		Go(func() {
			w := l.Writer()
			w.Write([]byte("hello"))
			w.Write([]byte("world"))
			w.Close()
		})
		r := l.Reader()
		buf := make([]byte, 3)
		var got []byte
		for {
			n, err := r.Read(buf)
			got = append(got, buf[:n]...)
			if err != nil {
				break
			}
		}
		if string(got) != "helloworld" {
			panic(string(got))
		}
	}, Check: func(r *Result) bool {
		if r.Status != StComplete {
			t.Fatalf("status %s %v %s %s", r.Status, r.Blocked, r.PanicValue, r.Infra)
		}
		return true
	}}
	e.All()
	t.Logf("execs=%d", e.Stats.Executions)
}

func TestSelectSendCaseAndTimeout(t *testing.T) {
	outcomes := map[string]int{}
	e := &Explorer{MaxPreempt: 2, MaxDelay: 2, MaxSteps: 10000, Body: func() {
		ch := make(chan int, 1)
		got := ""
		var wg WaitGroup
		wg.Add(2)
		for i := 0; i < 2; i++ {
			i := i
			GoNamed("sender", func() {
				defer wg.Done()
				switch Select(true, SendCase(ch)) {
				case 0:
					SendNow(ch, i)
					got += "s"
				default:
					got += "d"
				}
			})
		}
		wg.Wait()
		ctx, cancel := WithTimeout(context.Background(), time.Second)
		defer cancel()
		Recv(ctx.Done())
		if ctx.Err() != context.DeadlineExceeded {
			got += "!"
		}
		outcomes[got]++
	}, Check: func(r *Result) bool {
		if r.Status != StComplete {
			t.Errorf("status %s %s %v", r.Status, r.Infra, r.Blocked)
		}
		return true
	}}
	e.All()
	if outcomes["sd"] == 0 || len(outcomes) != 1 {
		t.Errorf("outcomes %v", outcomes)
	}
}
