package mcrt

import (
	"fmt"
	"reflect"
	"runtime"
	"sort"
)

// Map iteration order is an environment choice: the default is the canonical (sorted) order; every
// other order of the menu costs one deviation. Outside an execution the canonical order is used, which
// also makes schedules independent of the runtime's hash seed.

// keyLess is a total order on map keys (kind class, then value, then dynamic type name): the canonical iteration
// order must not depend on the order the runtime happens to deliver keys in, also when keys of different dynamic
// types compare equal by value ("a" and a named string type's "a" in a map[any]any).
func keyLess(a, b any) bool {
	ra, rb := keyRank(a), keyRank(b)
	if ra != rb {
		return ra < rb
	}
	va, vb := reflect.ValueOf(a), reflect.ValueOf(b)
	switch ra {
	case 1:
		if va.Bool() != vb.Bool() {
			return !va.Bool()
		}
	case 2:
		if va.Int() != vb.Int() {
			return va.Int() < vb.Int()
		}
	case 3:
		if va.Uint() != vb.Uint() {
			return va.Uint() < vb.Uint()
		}
	case 4:
		if va.Float() != vb.Float() {
			return va.Float() < vb.Float()
		}
	case 5:
		if va.String() != vb.String() {
			return va.String() < vb.String()
		}
	}
	ta, tb := fmt.Sprintf("%T", a), fmt.Sprintf("%T", b)
	if ta != tb {
		return ta < tb
	}
	return fmt.Sprintf("%v", a) < fmt.Sprintf("%v", b)
}

func keyRank(a any) int {
	v := reflect.ValueOf(a)
	if !v.IsValid() {
		return 0
	}
	switch v.Kind() {
	case reflect.Bool:
		return 1
	case reflect.Int, reflect.Int8, reflect.Int16, reflect.Int32, reflect.Int64:
		return 2
	case reflect.Uint, reflect.Uint8, reflect.Uint16, reflect.Uint32, reflect.Uint64, reflect.Uintptr:
		return 3
	case reflect.Float32, reflect.Float64:
		return 4
	case reflect.String:
		return 5
	}
	return 6
}

// permMenuSize returns how many orders the menu offers for n keys.
func permMenuSize(n int) int {
	switch {
	case n <= 1:
		return 1
	case n == 2:
		return 2
	case n == 3:
		return 6
	case n == 4:
		return 24
	default:
		return n + 1 // sorted, n-1 rotations, reversed
	}
}

// permute reorders idx (initially 0..n-1) into the k-th order of the menu.
func permute(n, k int) []int {
	idx := make([]int, n)
	for i := range idx {
		idx[i] = i
	}
	if k == 0 {
		return idx
	}
	if n <= 4 {
		// k-th permutation in lexicographic order (factorial number system)
		avail := append([]int(nil), idx...)
		fact := 1
		for i := 2; i < n; i++ {
			fact *= i
		}
		out := make([]int, 0, n)
		for i := n - 1; i >= 1; i-- {
			q := k / fact
			k %= fact
			out = append(out, avail[q])
			avail = append(avail[:q], avail[q+1:]...)
			fact /= i
		}
		return append(out, avail[0])
	}
	if k == n { // reversed
		for i := range idx {
			idx[i] = n - 1 - i
		}
		return idx
	}
	for i := range idx { // rotation by k
		idx[i] = (i + k) % n
	}
	return idx
}

// MapOrder returns the keys of m in the order the explorer chose.
func MapOrder[K comparable, V any](m map[K]V) []K {
	keys := make([]K, 0, len(m))
	for k := range m {
		keys = append(keys, k)
	}
	sort.Slice(keys, func(i, j int) bool { return keyLess(keys[i], keys[j]) })
	if len(keys) < 2 {
		return keys
	}
	s := sched()
	if s == nil {
		return keys
	}
	k := s.nextChoice(KDeviate, permMenuSize(len(keys)), false, s.label("maporder"))
	if k == 0 {
		return keys
	}
	p := permute(len(keys), k)
	out := make([]K, len(keys))
	for i, j := range p {
		out[i] = keys[j]
	}
	return out
}

// MapKeys is reflect.Value.MapKeys in the order the explorer chose.
func MapKeys(v reflect.Value) []reflect.Value {
	keys := v.MapKeys()
	sort.Slice(keys, func(i, j int) bool { return keyLess(ifaceOf(keys[i]), ifaceOf(keys[j])) })
	if len(keys) < 2 {
		return keys
	}
	s := sched()
	if s == nil {
		return keys
	}
	k := s.nextChoice(KDeviate, permMenuSize(len(keys)), false, s.label("mapkeys"))
	if k == 0 {
		return keys
	}
	p := permute(len(keys), k)
	out := make([]reflect.Value, len(keys))
	for i, j := range p {
		out[i] = keys[j]
	}
	return out
}

func ifaceOf(v reflect.Value) any {
	if v.CanInterface() {
		return v.Interface()
	}
	return fmt.Sprint(v)
}

// Entry is one key/value pair of a map snapshot.
type Entry[K comparable, V any] struct {
	K K
	V V
}

// MapEntries returns the entries of m in the order the explorer chose (`for k, v := range m`).
func MapEntries[K comparable, V any](m map[K]V) []Entry[K, V] {
	keys := MapOrder(m)
	out := make([]Entry[K, V], len(keys))
	for i, k := range keys {
		out[i] = Entry[K, V]{k, m[k]}
	}
	return out
}

func (s *Sched) label(kind string) string {
	if !s.tracing {
		return kind
	}
	var c callSite
	c.n = runtime.Callers(3, c.pcs[:])
	return kind + " " + c.String()
}

// MapIter mimics reflect.MapIter over the keys in the order the explorer chose.
type MapIter struct {
	m    reflect.Value
	keys []reflect.Value
	pos  int
}

// MapRange is reflect.Value.MapRange under the map-order seam.
func MapRange(v reflect.Value) *MapIter {
	return &MapIter{m: v, keys: MapKeys(v), pos: -1}
}

func (it *MapIter) Next() bool {
	it.pos++
	return it.pos < len(it.keys)
}

func (it *MapIter) Key() reflect.Value { return it.keys[it.pos] }

func (it *MapIter) Value() reflect.Value { return it.m.MapIndex(it.keys[it.pos]) }
