package mcrt

import (
	"context"
	"reflect"
)

type chanInfo struct {
	keep   any
	closed bool
	rel    VC
}

func (s *Sched) chanInfo(ch any) *chanInfo {
	p := reflect.ValueOf(ch).Pointer()
	ci, _ := s.closed[p].(*chanInfo)
	if ci == nil {
		ci = &chanInfo{keep: ch}
		s.closed[p] = ci
	}
	return ci
}

func chanKey(ch any) any {
	return reflect.ValueOf(ch).Pointer()
}

// recvReady: a receive on ch can complete without blocking.
func (s *Sched) recvReady(v reflect.Value, ci *chanInfo) bool {
	if v.IsNil() {
		return false
	}
	if v.Len() > 0 || ci.closed {
		return true
	}
	// Empty channel closed by code outside the shim (context.Done): a non-blocking receive on an empty
	// channel can only succeed if the channel is closed, so probing consumes nothing.
	x, ok := v.TryRecv()
	if x.IsValid() && !ok {
		ci.closed = true
		return true
	}
	if x.IsValid() && ok {
		panic("mcrt: probe consumed a value (unbuffered channel used under the scheduler?)")
	}
	return false
}

func recvDir(ch any) reflect.Value {
	return reflect.ValueOf(ch)
}

// Send is `ch <- v`.
func Send[T any, V any](ch chan<- T, val V) {
	var v T
	if any(val) != nil {
		v = any(val).(T)
	}
	s := sched()
	if s == nil {
		if cur == nil {
			ch <- v
		}
		return
	}
	if ch == nil {
		s.yield(&pendingOp{kind: opSend, obj: nil, enabled: func() bool { return false }, where: where()})
	}
	rv := reflect.ValueOf(ch)
	ci := s.chanInfo(ch)
	if rv.Cap() == 0 {
		s.infra("send on an unbuffered channel under the scheduler is not modelled: " + where().String())
	}
	s.yield(&pendingOp{kind: opSend, obj: chanKey(ch), enabled: func() bool { return ci.closed || rv.Len() < rv.Cap() }, where: where()})
	s.running.release(&ci.rel)
	ch <- v // panics for real on a closed channel, as in production
}

// Recv is `<-ch`.
func Recv[T any](ch <-chan T) T {
	v, _ := Recv2(ch)
	return v
}

// Recv2 is `v, ok := <-ch`.
func Recv2[T any](ch <-chan T) (T, bool) {
	s := sched()
	if s == nil {
		if cur == nil {
			v, ok := <-ch
			return v, ok
		}
		var z T
		return z, false
	}
	rv := reflect.ValueOf(ch)
	var ci *chanInfo
	if ch != nil {
		ci = s.chanInfo(ch)
	}
	s.yield(&pendingOp{kind: opRecv, obj: chanKeyOrNil(ch, rv), enabled: func() bool { return ch != nil && s.recvReady(rv, ci) }, where: where()})
	s.running.acquire(&ci.rel)
	v, ok := <-ch
	return v, ok
}

func chanKeyOrNil(ch any, rv reflect.Value) any {
	if rv.IsNil() {
		return nil
	}
	return rv.Pointer()
}

// RecvNow2 performs the receive of a select case that Select already chose.
func RecvNow2[T any](ch <-chan T) (T, bool) {
	s := sched()
	if s == nil {
		if cur == nil {
			v, ok := <-ch
			return v, ok
		}
		var z T
		return z, false
	}
	ci := s.chanInfo(ch)
	s.running.acquire(&ci.rel)
	select {
	case v, ok := <-ch:
		return v, ok
	default:
		s.infra("select case chosen but channel not ready")
		var z T
		return z, false
	}
}

// RecvNow is the one-value form of RecvNow2.
func RecvNow[T any](ch <-chan T) T {
	v, _ := RecvNow2(ch)
	return v
}

// Close is `close(ch)`.
func Close[T any](ch chan<- T) {
	s := sched()
	if s == nil {
		if cur == nil {
			close(ch)
		}
		return
	}
	s.yield(&pendingOp{kind: opClose, obj: chanKey(ch), enabled: always})
	ci := s.chanInfo(ch)
	s.running.release(&ci.rel)
	close(ch) // double close panics for real
	ci.closed = true
}

// Select decides a receive-only select statement: it returns the index of the case to run, or -1 for
// default. Cases are receive channels.
func Select(hasDefault bool, chans ...any) int {
	s := sched()
	if s == nil {
		if cur == nil {
			panic("mcrt.Select outside an execution")
		}
		if hasDefault {
			return -1
		}
		return 0
	}
	vals := make([]reflect.Value, len(chans))
	infos := make([]*chanInfo, len(chans))
	for i, c := range chans {
		vals[i] = reflect.ValueOf(c)
		if !vals[i].IsNil() {
			infos[i] = s.chanInfo(c)
		}
	}
	ready := func() []int {
		var r []int
		for i := range vals {
			if !vals[i].IsNil() && s.recvReady(vals[i], infos[i]) {
				r = append(r, i)
			}
		}
		return r
	}
	var key any
	for i := range vals {
		if !vals[i].IsNil() {
			key = vals[i].Pointer()
			break
		}
	}
	s.yield(&pendingOp{kind: opSelect, obj: key, enabled: func() bool { return hasDefault || len(ready()) > 0 }, where: where()})
	r := ready()
	switch len(r) {
	case 0:
		return -1
	case 1:
		return r[0]
	}
	return r[s.nextChoice(KChoose, len(r), false, "select")]
}

// WithCancel is context.WithCancel whose cancel function is a scheduling point.
func WithCancel(parent context.Context) (context.Context, context.CancelFunc) {
	ctx, cancel := context.WithCancel(parent)
	return ctx, func() {
		if s := sched(); s != nil {
			s.yield(&pendingOp{kind: opCancel, obj: chanKey(ctx.Done()), enabled: always})
			ci := s.chanInfo(ctx.Done())
			s.running.release(&ci.rel)
		}
		cancel()
	}
}
