package mcrt

import (
	"context"
	"reflect"
	"time"
)

type chanInfo struct {
	keep   any
	closed bool
	rel    VC
}

func (s *Sched) chanInfo(ch any) *chanInfo {
	p := reflect.ValueOf(ch).Pointer()
	ci, _ := s.closed[p].(*chanInfo)
	if ci == nil {
		ci = &chanInfo{keep: ch}
		s.closed[p] = ci
	}
	return ci
}

func chanKey(ch any) any {
	return reflect.ValueOf(ch).Pointer()
}

// recvReady: a receive on ch can complete without blocking.
func (s *Sched) recvReady(v reflect.Value, ci *chanInfo) bool {
	if v.IsNil() {
		return false
	}
	if v.Len() > 0 || ci.closed {
		return true
	}
	// Empty channel closed by code outside the shim (context.Done): a non-blocking receive on an empty
	// channel can only succeed if the channel is closed, so probing consumes nothing.
	x, ok := v.TryRecv()
	if x.IsValid() && !ok {
		ci.closed = true
		return true
	}
	if x.IsValid() && ok {
		panic("mcrt: probe consumed a value (unbuffered channel used under the scheduler?)")
	}
	return false
}

func recvDir(ch any) reflect.Value {
	return reflect.ValueOf(ch)
}

// conv turns the value of a send statement into the channel's element type (the rewriter passes the value
// expression as written, so an untyped constant arrives with its default type).
func conv[T any](val any) T {
	var v T
	if val == nil {
		return v
	}
	if x, ok := val.(T); ok {
		return x
	}
	rv, rt := reflect.ValueOf(val), reflect.TypeOf(&v).Elem()
	if rv.Type().ConvertibleTo(rt) {
		return rv.Convert(rt).Interface().(T)
	}
	return val.(T) // panics with a telling message
}

// SendCaseOf marks a channel as the send case of a select statement.
type SendCaseOf struct{ Ch any }

// SendCase wraps the channel of a `case ch <- v:` clause for Select.
func SendCase(ch any) SendCaseOf { return SendCaseOf{ch} }

// SendNow performs the send of a select case that Select already chose.
func SendNow[T any, V any](ch chan<- T, val V) {
	v := conv[T](any(val))
	s := sched()
	if s == nil {
		if cur == nil {
			ch <- v
		}
		return
	}
	ci := s.chanInfo(ch)
	s.running.release(&ci.rel)
	if ci.closed {
		ch <- v // panics for real, as in production
		return
	}
	select {
	case ch <- v:
	default:
		s.infra("select send case chosen but channel not ready")
	}
}

// Send is `ch <- v`.
func Send[T any, V any](ch chan<- T, val V) {
	v := conv[T](any(val))
	s := sched()
	if s == nil {
		if cur == nil {
			ch <- v
		}
		return
	}
	if ch == nil {
		s.yield(&pendingOp{kind: opSend, obj: nil, enabled: func() bool { return false }, where: where()})
	}
	rv := reflect.ValueOf(ch)
	ci := s.chanInfo(ch)
	if rv.Cap() == 0 {
		s.infra("send on an unbuffered channel under the scheduler is not modelled: " + where().String())
	}
	s.yield(&pendingOp{kind: opSend, obj: chanKey(ch), enabled: func() bool { return ci.closed || rv.Len() < rv.Cap() }, where: where()})
	s.running.release(&ci.rel)
	ch <- v // panics for real on a closed channel, as in production
}

// Recv is `<-ch`.
func Recv[T any](ch <-chan T) T {
	v, _ := Recv2(ch)
	return v
}

// Recv2 is `v, ok := <-ch`.
func Recv2[T any](ch <-chan T) (T, bool) {
	s := sched()
	if s == nil {
		if cur == nil {
			v, ok := <-ch
			return v, ok
		}
		var z T
		return z, false
	}
	rv := reflect.ValueOf(ch)
	var ci *chanInfo
	if ch != nil {
		ci = s.chanInfo(ch)
	}
	s.yield(&pendingOp{kind: opRecv, obj: chanKeyOrNil(ch, rv), enabled: func() bool { return ch != nil && s.recvReady(rv, ci) }, where: where()})
	s.running.acquire(&ci.rel)
	v, ok := <-ch
	return v, ok
}

func chanKeyOrNil(ch any, rv reflect.Value) any {
	if rv.IsNil() {
		return nil
	}
	return rv.Pointer()
}

// RecvNow2 performs the receive of a select case that Select already chose.
func RecvNow2[T any](ch <-chan T) (T, bool) {
	s := sched()
	if s == nil {
		if cur == nil {
			v, ok := <-ch
			return v, ok
		}
		var z T
		return z, false
	}
	ci := s.chanInfo(ch)
	s.running.acquire(&ci.rel)
	select {
	case v, ok := <-ch:
		return v, ok
	default:
		s.infra("select case chosen but channel not ready")
		var z T
		return z, false
	}
}

// RecvNow is the one-value form of RecvNow2.
func RecvNow[T any](ch <-chan T) T {
	v, _ := RecvNow2(ch)
	return v
}

// Close is `close(ch)`.
func Close[T any](ch chan<- T) {
	s := sched()
	if s == nil {
		if cur == nil {
			close(ch)
		}
		return
	}
	s.yield(&pendingOp{kind: opClose, obj: chanKey(ch), enabled: always})
	ci := s.chanInfo(ch)
	s.running.release(&ci.rel)
	close(ch) // double close panics for real
	ci.closed = true
}

// Select decides a select statement: it returns the index of the case to run, or -1 for default. Cases are
// receive channels, or send channels wrapped in SendCase.
func Select(hasDefault bool, chans ...any) int {
	s := sched()
	if s == nil {
		if cur == nil {
			panic("mcrt.Select outside an execution")
		}
		if hasDefault {
			return -1
		}
		return 0
	}
	vals := make([]reflect.Value, len(chans))
	infos := make([]*chanInfo, len(chans))
	send := make([]bool, len(chans))
	for i, c := range chans {
		if sc, ok := c.(SendCaseOf); ok {
			send[i] = true
			c = sc.Ch
		}
		vals[i] = reflect.ValueOf(c)
		if !vals[i].IsNil() {
			infos[i] = s.chanInfo(c)
			if send[i] && vals[i].Cap() == 0 {
				s.infra("send case on an unbuffered channel under the scheduler is not modelled: " + where().String())
			}
		}
	}
	ready := func() []int {
		var r []int
		for i := range vals {
			if vals[i].IsNil() {
				continue
			}
			if send[i] {
				if infos[i].closed || vals[i].Len() < vals[i].Cap() {
					r = append(r, i)
				}
			} else if s.recvReady(vals[i], infos[i]) {
				r = append(r, i)
			}
		}
		return r
	}
	var key any
	for i := range vals {
		if !vals[i].IsNil() {
			key = vals[i].Pointer()
			break
		}
	}
	s.yield(&pendingOp{kind: opSelect, obj: key, enabled: func() bool { return hasDefault || len(ready()) > 0 }, where: where()})
	r := ready()
	switch len(r) {
	case 0:
		return -1
	case 1:
		return r[0]
	}
	return r[s.nextChoice(KChoose, len(r), false, "select")]
}

// WithCancel is context.WithCancel whose cancel function is a scheduling point.
func WithCancel(parent context.Context) (context.Context, context.CancelFunc) {
	ctx, cancel := context.WithCancel(parent)
	return ctx, func() {
		if s := sched(); s != nil {
			s.yield(&pendingOp{kind: opCancel, obj: chanKey(ctx.Done()), enabled: always})
			ci := s.chanInfo(ctx.Done())
			s.running.release(&ci.rel)
		}
		cancel()
	}
}

// timeoutCtx is a cancellable context whose deadline is a virtual timer.
type timeoutCtx struct {
	context.Context
	timedOut *bool
	deadline time.Time
}

func (c timeoutCtx) Err() error {
	if err := c.Context.Err(); err != nil {
		if *c.timedOut {
			return context.DeadlineExceeded
		}
		return err
	}
	return nil
}

func (c timeoutCtx) Deadline() (time.Time, bool) { return c.deadline, true }

// WithTimeout is context.WithTimeout on virtual time: a helper thread waits for the virtual timer (which fires only
// when nothing else can move) or for the context to be cancelled, whichever comes first.
func WithTimeout(parent context.Context, d time.Duration) (context.Context, context.CancelFunc) {
	if sched() == nil {
		return context.WithTimeout(parent, d)
	}
	inner, cancel := WithCancel(parent)
	timedOut := false
	timer := After(d)
	GoNamed("context-timeout", func() {
		if Select(false, timer, inner.Done()) == 0 {
			RecvNow(timer)
			timedOut = true
			cancel()
		}
	})
	return timeoutCtx{inner, &timedOut, time.Now().Add(d)}, cancel
}

// WithDeadline is context.WithDeadline on virtual time (the deadline is taken relative to the real clock once).
func WithDeadline(parent context.Context, t time.Time) (context.Context, context.CancelFunc) {
	return WithTimeout(parent, time.Until(t))
}
