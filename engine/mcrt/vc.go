package mcrt

import (
	"fmt"
	"reflect"
	"runtime"
	"strings"
	"unsafe"
)

// VC is a vector clock.
type VC []uint32

func (v VC) ensure(n int) VC {
	if len(v) >= n {
		return v
	}
	nv := make(VC, n)
	copy(nv, v)
	return nv
}

func (v *VC) join(o VC) {
	if len(*v) < len(o) {
		*v = v.ensure(len(o))
	}
	for i, x := range o {
		if x > (*v)[i] {
			(*v)[i] = x
		}
	}
}

func (v VC) get(i int) uint32 {
	if i < len(v) {
		return v[i]
	}
	return 0
}

// acquire: the thread learns everything released into obj.
func (t *Thread) acquire(obj *VC) {
	t.vc.join(*obj)
}

// release: the thread publishes its clock into obj and advances.
func (t *Thread) release(obj *VC) {
	obj.join(t.vc)
	t.vc = t.vc.ensure(t.ID + 1)
	t.vc[t.ID]++
}

// Race is a pair of conflicting accesses unordered by happens-before.
type Race struct {
	Kind  string // "write-write", "read-write", "write-read"
	First string // source position of the earlier access
	Then  string // source position of the later access
	What  string // label of the location
}

func (r Race) String() string {
	return fmt.Sprintf("%s race on %s: %s then %s", r.Kind, r.What, r.First, r.Then)
}

// Signature identifies the race by the unordered pair of positions.
func (r Race) Signature() string {
	a, b := r.First, r.Then
	if a > b {
		a, b = b, a
	}
	return "race " + a + " <-> " + b
}

type shadow struct {
	wT    int // last writer thread (-1 none)
	wC    uint32
	wPos  string
	reads map[int]readRec
	keep  any
}

type readRec struct {
	c   uint32
	pos string
}

type raceState struct {
	loc   map[uintptr]*shadow
	found []Race
	seen  map[string]bool
}

func newRaceState() *raceState {
	return &raceState{loc: map[uintptr]*shadow{}, seen: map[string]bool{}}
}

// accessPos names the function of the module under test that performs the access (function names survive
// edits and the instrumenter's reformatting; line numbers of rewritten files do not).
func accessPos() string {
	for skip := 1; skip < 10; skip++ {
		pc, _, _, ok := runtime.Caller(skip)
		if !ok {
			return "?"
		}
		fn := runtime.FuncForPC(pc).Name()
		if strings.Contains(fn, "/mcrt.") {
			continue
		}
		if i := strings.LastIndex(fn, "/"); i >= 0 {
			fn = fn[i+1:]
		}
		// generic instantiations print their type arguments: keep the name stable
		if i := strings.Index(fn, "["); i >= 0 {
			if j := strings.LastIndex(fn, "]"); j > i {
				fn = fn[:i] + "[...]" + fn[j+1:]
			}
		}
		return fn
	}
	return "?"
}

func (rs *raceState) report(kind, first, then, what string) {
	r := Race{Kind: kind, First: first, Then: then, What: what}
	k := kind + first + then
	if rs.seen[k] {
		return
	}
	rs.seen[k] = true
	rs.found = append(rs.found, r)
}

func (s *Sched) access(addr uintptr, keep any, write bool, what string) {
	rs := s.races
	t := s.running
	sh := rs.loc[addr]
	if sh == nil {
		sh = &shadow{wT: -1, keep: keep}
		rs.loc[addr] = sh
	}
	pos := accessPos()
	if sh.wT >= 0 && sh.wT != t.ID && sh.wC > t.vc.get(sh.wT) {
		if write {
			rs.report("write-write", sh.wPos, pos, what)
		} else {
			rs.report("write-read", sh.wPos, pos, what)
		}
	}
	if write {
		for rt, rr := range sh.reads {
			if rt != t.ID && rr.c > t.vc.get(rt) {
				rs.report("read-write", rr.pos, pos, what)
			}
		}
		sh.wT, sh.wC, sh.wPos = t.ID, t.vc.get(t.ID), pos
		sh.reads = nil
	} else {
		if sh.reads == nil {
			sh.reads = map[int]readRec{}
		}
		sh.reads[t.ID] = readRec{t.vc.get(t.ID), pos}
	}
}

// R records a read of *p and returns p (so `x.f` can be rewritten to `*mcrt.R(&x.f)`).
func R[T any](p *T) *T {
	if s := sched(); s != nil && s.races != nil && p != nil {
		s.access(uintptr(unsafe.Pointer(p)), p, false, "")
	}
	return p
}

// W records a write of *p and returns p.
func W[T any](p *T) *T {
	if s := sched(); s != nil && s.races != nil && p != nil {
		s.access(uintptr(unsafe.Pointer(p)), p, true, "")
	}
	return p
}

// RMap / WMap record a read / write of a map object as a whole.
func RMap[M any](m M) M {
	if s := sched(); s != nil && s.races != nil {
		if p := mapPtr(m); p != 0 {
			s.access(p, m, false, "map")
		}
	}
	return m
}

func WMap[M any](m M) M {
	if s := sched(); s != nil && s.races != nil {
		if p := mapPtr(m); p != 0 {
			s.access(p, m, true, "map")
		}
	}
	return m
}

// RSlice / WSlice record a read / write of a slice's backing array as a whole (identified by the address of its
// first element): a slice handed out by a method may alias a cached field, and library functions (sort, copy)
// write through it without the rewriter seeing an assignment.
func RSlice[S any](s S) S {
	if sc := sched(); sc != nil && sc.races != nil {
		if p := slicePtr(s, false); p != 0 {
			sc.access(p, s, false, "slice")
		}
	}
	return s
}

func WSlice[S any](s S) S {
	if sc := sched(); sc != nil && sc.races != nil {
		if p := slicePtr(s, false); p != 0 {
			sc.access(p, s, true, "slice")
		}
	}
	return s
}

// AppendW is for the first argument of append: appending writes into the backing array only when there is spare
// capacity (otherwise a new array is allocated and the old one is only read).
func AppendW[S any](s S) S {
	if sc := sched(); sc != nil && sc.races != nil {
		if p := slicePtr(s, true); p != 0 {
			sc.access(p, s, true, "slice (append into spare capacity)")
		} else if p := slicePtr(s, false); p != 0 {
			sc.access(p, s, false, "slice")
		}
	}
	return s
}

func slicePtr(s any, needSpare bool) uintptr {
	v := reflect.ValueOf(s)
	if !v.IsValid() || v.Kind() != reflect.Slice || v.IsNil() || v.Cap() == 0 {
		return 0
	}
	if needSpare && v.Cap() == v.Len() {
		return 0
	}
	return v.Pointer()
}

func mapPtr(m any) uintptr {
	type eface struct {
		typ, data unsafe.Pointer
	}
	return uintptr((*eface)(unsafe.Pointer(&m)).data)
}

// AccessRead / AccessWrite let harness code (which is not instrumented) mark accesses to an abstract location.
func AccessRead(key any, what string) {
	if s := sched(); s != nil && s.races != nil {
		s.access(uintptr(s.objID(key))|1<<62, key, false, what)
	}
}

func AccessWrite(key any, what string) {
	if s := sched(); s != nil && s.races != nil {
		s.access(uintptr(s.objID(key))|1<<62, key, true, what)
	}
}

// AtomicFence is placed by the rewriter before and after every statement that uses sync/atomic: a scheduling point,
// and an acquire+release on one global object. All atomic operations of an execution are thereby totally ordered
// for the race detector - more ordering than the memory model gives (a race between plain accesses that happens to
// be separated by unrelated atomic operations goes unreported), but never a false report for data published through
// an atomic flag.
// hbFence is the ordering part of AtomicFence without the scheduling point (see sync.Map / sync.Pool in sync.go).
func hbFence() {
	s := sched()
	if s == nil || s.races == nil {
		return
	}
	s.running.acquire(&s.atomicVC)
	s.running.release(&s.atomicVC)
}

func AtomicFence() {
	s := sched()
	if s == nil {
		return
	}
	s.yield(&pendingOp{kind: opYield, obj: &s.atomicVC, enabled: always, where: where()})
	if s.races != nil {
		s.running.acquire(&s.atomicVC)
		s.running.release(&s.atomicVC)
	}
}
