package mcrt

import (
	"errors"
	"fmt"
	"io"
)

// Link is one direction of a byte transport between two threads under the scheduler.
//
// Pipe mode reproduces io.Pipe: a Write completes only when fully consumed, a Read returns at most the
// rest of the current write. Stream mode is an OS-pipe-like byte queue: writes never block, a Read returns
// whatever is available (messages coalesce), and fragmentation is an environment deviation.
type Link struct {
	// FailIf, when set and true at the time of a write, makes the write fail (e.g. "the peer has died": coupled to the
	// other direction's fault).
	FailIf func() bool
	Name   string
	stream bool

	buf       []byte // stream: queued bytes; pipe: unread rest of the current write
	writing   bool   // pipe: a Write is in progress
	wClosed   bool
	rClosed   bool
	inWrite   int // threads currently inside Write (interleaved-write detector)
	rel       VC
	total     int   // bytes ever written
	consumed  int   // bytes ever handed to the reader (before fault filtering)
	bounds    []int // cumulative end offset of every Write
	Fragment  bool  // stream mode: enumerate fragmentation deviations
	ReadFault *Fault
	// write-side fault: the FailWriteAt-th Write (0-based) returns an error; Persist: every later one too.
	FailWriteAt int
	FailPersist bool
	writes      int
	faultHit    bool
	// Log of what the reader was given (after fault filtering), for oracles.
	Delivered []byte
}

// Fault is a read-side fault at cumulative byte offset At.
type Fault struct {
	At   int
	Kind FaultKind
	Mask byte // FaultFlip: the byte at offset At is XORed with Mask
}

type FaultKind int

const (
	FaultEOF FaultKind = iota
	FaultErr
	FaultGarbage
	FaultFlip
)

func (k FaultKind) String() string { return [...]string{"eof", "error", "garbage", "flip"}[k] }

var ErrInjected = errors.New("injected I/O error")

// NewPipe returns an io.Pipe-like link.
func NewPipe(name string) *Link { return &Link{Name: name, FailWriteAt: -1} }

// NewStream returns a buffered byte-stream link.
func NewStream(name string) *Link { return &Link{Name: name, stream: true, FailWriteAt: -1} }

// FaultHit reports whether the read-side fault position was reached.
func (l *Link) FaultHit() bool { return l.faultHit }

// WriteBounds returns the cumulative end offsets of all writes so far.
func (l *Link) WriteBounds() []int { return l.bounds }

// IntactMessages returns how many complete writes the reader received before any fault.
func (l *Link) IntactMessages() int {
	limit := l.consumed
	if l.ReadFault != nil && l.ReadFault.Kind != FaultFlip && l.ReadFault.At < limit {
		limit = l.ReadFault.At
	}
	n := 0
	for _, b := range l.bounds {
		if b <= limit {
			n++
		}
	}
	return n
}

type linkReader struct{ l *Link }
type linkWriter struct{ l *Link }

// Reader returns the read end.
func (l *Link) Reader() io.ReadCloser { return linkReader{l} }

// Writer returns the write end.
func (l *Link) Writer() io.WriteCloser { return linkWriter{l} }

func (w linkWriter) Write(p []byte) (int, error) {
	l := w.l
	s := sched()
	if s == nil {
		if cur != nil {
			return len(p), nil
		}
		panic("mcrt transport used outside an execution")
	}
	l.inWrite++
	if l.inWrite > 1 {
		Note("interleaved writes on %s", l.Name)
	}
	defer func() { l.inWrite-- }()
	if l.stream {
		s.yield(&pendingOp{kind: opWrite, obj: l, enabled: always, where: where()})
	} else {
		s.yield(&pendingOp{kind: opWrite, obj: l, enabled: func() bool { return !l.writing || l.rClosed || l.wClosed }, where: where()})
	}
	idx := l.writes
	l.writes++
	if l.FailWriteAt >= 0 && (idx == l.FailWriteAt || (l.FailPersist && idx > l.FailWriteAt)) {
		return 0, ErrInjected
	}
	if l.FailIf != nil && l.FailIf() {
		return 0, ErrInjected
	}
	if l.wClosed || l.rClosed {
		return 0, io.ErrClosedPipe
	}
	if len(p) == 0 {
		return 0, nil
	}
	s.running.release(&l.rel)
	l.total += len(p)
	l.bounds = append(l.bounds, l.total)
	if l.stream {
		l.buf = append(l.buf, p...)
		return len(p), nil
	}
	l.buf = append(l.buf[:0], p...)
	l.writing = true
	s.yield(&pendingOp{kind: opWriteDone, obj: l, enabled: func() bool { return len(l.buf) == 0 || l.rClosed || l.wClosed }, where: where()})
	l.writing = false
	if len(l.buf) > 0 {
		n := len(p) - len(l.buf)
		l.buf = l.buf[:0]
		return n, io.ErrClosedPipe
	}
	return len(p), nil
}

func (w linkWriter) Close() error {
	l := w.l
	s := sched()
	if s == nil {
		return nil
	}
	s.yield(&pendingOp{kind: opCloseIO, obj: l, enabled: always})
	s.running.release(&l.rel)
	l.wClosed = true
	return nil
}

func (r linkReader) Close() error {
	l := r.l
	s := sched()
	if s == nil {
		return nil
	}
	s.yield(&pendingOp{kind: opCloseIO, obj: l, enabled: always})
	s.running.release(&l.rel)
	l.rClosed = true
	return nil
}

func (r linkReader) Read(p []byte) (int, error) {
	l := r.l
	s := sched()
	if s == nil {
		if cur != nil {
			return 0, io.EOF
		}
		panic("mcrt transport used outside an execution")
	}
	if len(p) == 0 {
		return 0, nil
	}
	faultNow := func() bool {
		return l.ReadFault != nil && (l.ReadFault.Kind == FaultEOF || l.ReadFault.Kind == FaultErr) && l.consumed >= l.ReadFault.At
	}
	s.yield(&pendingOp{kind: opRead, obj: l, enabled: func() bool {
		return len(l.buf) > 0 || l.wClosed || l.rClosed || faultNow()
	}, where: where()})
	s.running.acquire(&l.rel)
	if l.rClosed {
		return 0, io.ErrClosedPipe
	}
	if faultNow() {
		l.faultHit = true
		if l.ReadFault.Kind == FaultEOF {
			return 0, io.EOF
		}
		return 0, ErrInjected
	}
	if len(l.buf) == 0 { // write end closed
		return 0, io.EOF
	}
	n := len(l.buf)
	if n > len(p) {
		n = len(p)
	}
	if l.ReadFault != nil && (l.ReadFault.Kind == FaultEOF || l.ReadFault.Kind == FaultErr) && l.consumed+n > l.ReadFault.At {
		n = l.ReadFault.At - l.consumed // deliver up to the fault point first
	}
	if l.stream && l.Fragment && n > 1 {
		n = l.fragment(n)
	}
	copy(p, l.buf[:n])
	if l.ReadFault != nil && l.ReadFault.Kind == FaultGarbage {
		for i := 0; i < n; i++ {
			if l.consumed+i >= l.ReadFault.At {
				p[i] = 0xFF
				l.faultHit = true
			}
		}
	}
	if l.ReadFault != nil && l.ReadFault.Kind == FaultFlip {
		if i := l.ReadFault.At - l.consumed; i >= 0 && i < n {
			p[i] ^= l.ReadFault.Mask
			l.faultHit = true
		}
	}
	l.Delivered = append(l.Delivered, p[:n]...)
	l.consumed += n
	l.buf = l.buf[n:]
	return n, nil
}

// fragment picks how many of the n available bytes this Read returns.
func (l *Link) fragment(n int) int {
	menu := []int{n}
	add := func(k int) {
		if k < 1 || k >= n {
			return
		}
		for _, m := range menu {
			if m == k {
				return
			}
		}
		menu = append(menu, k)
	}
	add(1)
	for _, b := range l.bounds {
		if b > l.consumed {
			add(b - l.consumed)     // exactly to the end of the first unread message
			add(b - l.consumed + 1) // one byte into the next
			add(b - l.consumed - 1) // one byte short
			break
		}
	}
	return menu[Deviate(len(menu), fmt.Sprintf("fragment %s", l.Name))]
}

// Duplex bundles a read end and a write end into an io.ReadWriteCloser (the ATP ClientChannel).
type Duplex struct {
	io.Reader
	io.Writer
	OnClose func()
}

func (d Duplex) Close() error {
	if d.OnClose != nil {
		d.OnClose()
	}
	return nil
}
