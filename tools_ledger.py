#!/usr/bin/env python3
"""tools_ledger.py fixed <property> <commit-subject-substring> <what failed>   |   known <property> <signature> <what>"""
import json, subprocess, sys
k = json.load(open('/verif/known_findings.json'))
if sys.argv[1] == 'fixed':
    prop, sub, what = sys.argv[2:5]
    log = subprocess.check_output(['git', '-C', '/repo', 'log', '--format=%h %s']).decode().strip().split('\n')
    c = [l.split()[0] for l in log if sub in l]
    assert len(c) == 1, (sub, c)
    e = f"fixed: property={prop} {c[0]} {what}"
    if e not in k['fixed']:
        k['fixed'].append(e)
elif sys.argv[1] == 'known':
    prop, sig, what = sys.argv[2:5]
    k['known'] = [x for x in k['known'] if not (x['property'] == prop and x['signature'] == sig)]
    k['known'].append({'property': prop, 'signature': sig, 'what': what})
json.dump(k, open('/verif/known_findings.json', 'w'), indent=1)
