#!/bin/bash
# Builds the framework offline from files on disk and warms the build cache.
set -e
cd "$(dirname "$0")"
export GOFLAGS=-mod=mod GOPROXY=off GOSUMDB=off GOTOOLCHAIN=local CARGO_NET_OFFLINE=true PIP_NO_INDEX=1
mkdir -p .work/bin evidence replays
cp -f /repo/go.sum go.sum.repo 2>/dev/null || true
go build -o .work/bin/vinstr ./engine/vinstr
# warm the cache: build every harness once against the instrumented tree
for d in harness/c*/; do
  id=$(basename "$d" | tr 'a-z' 'A-Z')
  VERIF_BUILD_ONLY=1 ./check "$id" >/dev/null 2>&1 || true
done
echo "setup done"
